import argparse
import os
import sys

from . import runner


def main(argv=None):
    ap = argparse.ArgumentParser(prog="check")
    ap.add_argument("property")
    ap.add_argument("--tier", default=os.environ.get("VERIF_TIER", "quick"), choices=["quick", "thorough"])
    ap.add_argument("--seed", type=int, default=None)
    ap.add_argument("--replay", default=None)
    ap.add_argument("--only", default=None, help="comma separated sub-check names (no evidence written)")
    ap.add_argument("--procs", type=int, default=None)
    a = ap.parse_args(argv)
    pid = a.property.upper()
    if pid not in runner.PROPS:
        print("unknown property", pid)
        return 2
    seed = a.seed
    if seed is None:
        try:
            seed = int(os.environ.get("VERIF_SEED", "1"))
        except ValueError:
            seed = 1
    try:
        if a.replay:
            return runner.replay(pid, a.replay)
        return runner.run_property(pid, a.tier, seed, only=a.only.split(",") if a.only else None, procs=a.procs)
    except runner.HarnessError as e:
        print("HARNESS-ERROR", e)
        return 2
    except Exception as e:  # noqa
        import traceback
        print("HARNESS-ERROR %s: %s\n%s" % (type(e).__name__, e, traceback.format_exc()))
        return 2


if __name__ == "__main__":
    sys.exit(main())
