"""
Runner shared by all property checks (DESIGN.md section 1).

A property module (pbt/props/cXX_*.py) provides

    PROPERTY_ID, RULE, ASSUMPTIONS
    subchecks(tier) -> [Sub(...)]          generated / enumerated sub-domains
    check_case(case) -> [violation dict]   the oracle; case is plain JSON data
    classify(case)  -> {label: bool}       must contain 'nontrivial'

and this module drives it: corpus replay, sentinels of known findings,
exhaustive enumerations, Hypothesis runs (sharded over processes), shrinking,
root-cause bucketing by site, replay files, evidence and exit codes.

exit 0: property held on everything explored (KNOWN-FINDING lines possible)
exit 1: at least one unattributed violation (VIOLATION lines)
exit 2: harness error (never reported as a violation)
"""
import fnmatch
import glob
import hashlib
import importlib
import json
import multiprocessing as mp
import os
import sys
import time
import traceback

VERIF = os.path.dirname(os.path.dirname(os.path.abspath(__file__)))
OUTDIR = os.environ.get("VERIF_OUT", VERIF)   # evidence/ and replays/ go here (mutation runs use a scratch dir)
REPO = os.path.realpath(os.environ.get("VERIF_REPO", "/repo"))

PROPS = {
    "C01": "c01_closure", "C02": "c02_group", "C03": "c03_explog", "C04": "c04_repr",
    "C05": "c05_angles", "C06": "c06_points", "C07": "c07_reject", "C08": "c08_types",
    "C09": "c09_broadcast", "C10": "c10_list", "C11": "c11_interp", "C12": "c12_hamilton",
    "C13": "c13_lie", "C14": "c14_norm", "C15": "c15_forms", "C16": "c16_symbolic",
    "C17": "c17_nomutate", "C18": "c18_screw", "C19": "c19_plucker", "C20": "c20_spatial",
}


QUICK_SCALE = float(os.environ.get("VERIF_QUICK_SCALE", "2.5"))   # multiplier on the per-shard example counts of the quick tier


class Sub:
    """One sub-domain of a property: a Hypothesis strategy or an exhaustive generator."""

    def __init__(self, name, strategy=None, gen=None, n=(200, 4000), shards=(4, 16),
                 shrink=True, size=None, machine=None, steps=(20, 50)):
        self.name = name
        self.machine = machine        # callable() -> stateful spec {'init': strategy, 'key': str, 'rules': {name: strategy}} (see _run_machine)
        self.steps = steps            # stateful_step_count (quick, thorough)
        self.strategy = strategy      # hypothesis strategy producing JSON cases
        self.gen = gen                # callable(tier) -> iterable of JSON cases (finite, exhaustive)
        self.n = n                    # examples per shard (quick, thorough)
        self.shards = shards          # shards (quick, thorough)
        self.shrink = shrink
        self.size = size              # for enumerations: optional declared size

    def budget(self, tier):
        i = 0 if tier == "quick" else 1
        n = self.n[i]
        if tier == "quick":
            n = int(n * QUICK_SCALE)
        return n, self.shards[i]


class HarnessError(Exception):
    pass


class PropFail(Exception):
    pass


def V(site, msg, **features):
    """Build a violation record."""
    return {"site": site, "msg": str(msg)[:600], "features": features}


# --------------------------------------------------------------------------- #
# environment

def setup_repo():
    os.environ.setdefault("MPLBACKEND", "Agg")
    if REPO not in sys.path:
        sys.path.insert(0, REPO)
    import warnings
    warnings.filterwarnings("ignore")
    import numpy as np
    np.seterr(all="ignore")
    import spatialmath
    f = os.path.realpath(spatialmath.__file__)
    if not f.startswith(REPO + os.sep):
        raise HarnessError("spatialmath imported from %s, not from %s" % (f, REPO))
    return spatialmath


def load_module(pid):
    return importlib.import_module("pbt.props." + PROPS[pid])


def case_hash(case):
    return hashlib.sha1(json.dumps(case, sort_keys=True).encode()).hexdigest()


def derive_seed(seed, *parts):
    h = hashlib.sha256(("%d|" % seed + "|".join(str(p) for p in parts)).encode()).digest()
    return int.from_bytes(h[:8], "big")


# --------------------------------------------------------------------------- #
# known findings

def load_findings(pid):
    path = os.path.join(VERIF, "known_findings.json")
    if not os.path.exists(path):
        return []
    with open(path) as f:
        doc = json.load(f)
    return [e for e in doc.get("open", []) if e.get("property") == pid]


def _match_when(when, feats):
    for k, cond in (when or {}).items():
        if k not in feats:
            return False
        val = feats[k]
        if isinstance(cond, dict):
            if "in" in cond and val not in cond["in"]:
                return False
            if "min" in cond and not (isinstance(val, (int, float)) and val >= cond["min"]):
                return False
            if "max" in cond and not (isinstance(val, (int, float)) and val <= cond["max"]):
                return False
        else:
            if val != cond:
                return False
    return True


def match_finding(findings, v):
    for e in findings:
        sites = e["site"] if isinstance(e["site"], list) else [e["site"]]
        if any(fnmatch.fnmatchcase(v["site"], s) for s in sites) and _match_when(e.get("when"), v["features"]):
            return e["id"]
    return None


# --------------------------------------------------------------------------- #
# evaluation context (one per process / unit)

class Ctx:
    def __init__(self, mod, findings):
        self.mod = mod
        self.findings = findings
        self.evals = 0
        self.hashes = set()
        self.labels = {}
        self.samples = {}
        self.known_hits = {}
        self.sites_checked = {}

    def evaluate(self, case, counting=True):
        """Run the oracle; library exceptions escaping it become violations keyed
        by (exception type, innermost library frame); harness exceptions propagate."""
        try:
            vs = self.mod.check_case(case)
        except (HarnessError, KeyboardInterrupt):
            raise
        except Exception as e:  # noqa
            tb = traceback.extract_tb(e.__traceback__)
            owner = None
            for fr in reversed(tb):
                fn = os.path.realpath(fr.filename)
                if fn.startswith(REPO + os.sep):
                    owner = fr
                    break
                if fn.startswith(VERIF + os.sep):
                    break
            if owner is not None:
                vs = [V("%s/uncaught:%s@%s" % (case.get("kind", "?"), type(e).__name__, owner.name),
                        "%s: %s (%s:%d)" % (type(e).__name__, e, os.path.basename(owner.filename), owner.lineno))]
            else:
                raise HarnessError("oracle raised %s: %s\ncase=%s\n%s" % (
                    type(e).__name__, e, json.dumps(case)[:2000], "".join(traceback.format_tb(e.__traceback__))))
        if counting:
            self.evals += 1
            lab = self.mod.classify(case)
            for k, b in lab.items():
                if b:
                    self.labels[k] = self.labels.get(k, 0) + 1
                    if k not in self.samples:
                        self.samples[k] = case
            if lab.get("nontrivial"):
                self.hashes.add(case_hash(case)[:16])
        out = []
        for v in vs:
            fid = match_finding(self.findings, v)
            if fid is not None:
                if counting:
                    self.known_hits[fid] = self.known_hits.get(fid, 0) + 1
            else:
                out.append(v)
        return out

    def result(self):
        from .props import common
        return {"evals": self.evals, "hashes": sorted(self.hashes), "labels": self.labels,
                "samples": self.samples, "known_hits": self.known_hits,
                "errstats": {k: list(v) for k, v in common.ERRSTATS.items()}}


def _simpler(a, b):
    return len(json.dumps(a)) < len(json.dumps(b))


def run_unit(args):
    """One (subcheck, shard) work unit; runs in a worker process."""
    pid, tier, seed, subname, shard, nshards = args
    t0 = time.time()
    res = {"sub": subname, "shard": shard, "violations": [], "errors": [], "evals": 0, "hashes": [],
           "labels": {}, "samples": {}, "known_hits": {}, "exhaustive": False, "enum_size": 0}
    try:
        setup_repo()
        mod = load_module(pid)
        sub = [s for s in mod.subchecks(tier) if s.name == subname][0]
        ctx = Ctx(mod, load_findings(pid))
        if sub.gen is not None:
            best = {}
            count = 0
            for i, case in enumerate(sub.gen(tier)):
                count += 1
                if i % nshards != shard:
                    continue
                for v in ctx.evaluate(case):
                    if v["site"] not in best or _simpler(case, best[v["site"]][0]):
                        best[v["site"]] = (case, v)
            for site, (case, v) in sorted(best.items()):
                res["violations"].append({"site": site, "features": v["features"], "msg": v["msg"], "case": case})
            res["exhaustive"] = True
            res["enum_size"] = count
        elif sub.machine is not None:
            n, _ = sub.budget(tier)
            res["violations"] = _run_machine(ctx, sub, n, derive_seed(seed, pid, subname, shard), sub.steps[0 if tier == "quick" else 1])
        else:
            n, _ = sub.budget(tier)
            res["violations"] = _run_hypothesis(ctx, sub, n, derive_seed(seed, pid, subname, shard))
        res.update(ctx.result())
    except HarnessError as e:
        res["errors"].append(str(e))
    except Exception as e:  # noqa
        res["errors"].append("%s: %s\n%s" % (type(e).__name__, e, traceback.format_exc()))
    res["wall"] = time.time() - t0
    return res


def _run_hypothesis(ctx, sub, n, seed):
    import hypothesis
    from hypothesis import given, settings, HealthCheck, Phase
    phases = [Phase.generate, Phase.target]
    if sub.shrink:
        phases.append(Phase.shrink)
    muted = set()
    found = []
    for rnd in range(6):
        state = {"fail": None, "site": None}

        def body(case):
            unknown = [v for v in ctx.evaluate(case, counting=state["site"] is None) if v["site"] not in muted]
            if not unknown:
                return
            if state["site"] is None:
                state["site"] = unknown[0]["site"]
            hit = [v for v in unknown if v["site"] == state["site"]]
            if hit:
                state["fail"] = (case, hit[0])
                raise PropFail(state["site"])

        test = given(sub.strategy)(body)
        test = settings(max_examples=n, database=None, deadline=None, report_multiple_bugs=False,
                        derandomize=False, suppress_health_check=list(HealthCheck), phases=phases,
                        print_blob=False)(test)
        test = hypothesis.seed(seed + rnd)(test)
        try:
            test()
        except PropFail:
            case, v = state["fail"]
            found.append({"site": v["site"], "features": v["features"], "msg": v["msg"], "case": case})
            muted.add(v["site"])
            continue
        break
    return found


def _run_machine(ctx, sub, n, seed, steps):
    """
    Hypothesis stateful mode.  The module's spec gives an initial-state strategy (a JSON case whose list under
    spec['key'] starts empty) and one strategy per rule, each producing one JSON operation.  A rule appends its
    operation to the history and the oracle (check_case) is run on the history so far, so the machine fails at
    the first offending step, Hypothesis shrinks the rule sequence as one value, and the failing history *is* the
    replayable JSON case.  Site bucketing / muting as in _run_hypothesis.
    """
    import copy
    import hypothesis
    from hypothesis import settings, HealthCheck, Phase, Verbosity
    from hypothesis.stateful import RuleBasedStateMachine, rule, initialize, run_state_machine_as_test
    spec = sub.machine()
    key = spec["key"]
    phases = [Phase.generate, Phase.target]
    if sub.shrink:
        phases.append(Phase.shrink)
    muted = set()
    found = []
    for rnd in range(6):
        state = {"fail": None, "site": None}

        def on_case(case):
            unknown = [v for v in ctx.evaluate(case, counting=state["site"] is None) if v["site"] not in muted]
            if not unknown:
                return
            if state["site"] is None:
                state["site"] = unknown[0]["site"]
            hit = [v for v in unknown if v["site"] == state["site"]]
            if hit:
                state["fail"] = (copy.deepcopy(case), hit[0])
                raise PropFail(state["site"])

        ns = {}

        def __init__(self):
            RuleBasedStateMachine.__init__(self)
            self.case = None

        @initialize(c=spec["init"])
        def _start(self, c):
            self.case = copy.deepcopy(c)
            self.case[key] = []
        ns["__init__"] = __init__
        ns["_start"] = _start

        def mk(rname, strat):
            @rule(op=strat)
            def r(self, op):
                self.case[key].append(copy.deepcopy(op))
                on_case(self.case)
            r.__name__ = "rule_" + rname
            return r
        for rname, strat in sorted(spec["rules"].items()):
            ns["rule_" + _slug(rname)] = mk(_slug(rname), strat)
        Machine = type("Machine_" + sub.name, (RuleBasedStateMachine,), ns)
        sett = settings(max_examples=n, stateful_step_count=steps, database=None, deadline=None, report_multiple_bugs=False,
                        derandomize=False, suppress_health_check=list(HealthCheck), phases=phases, print_blob=False,
                        verbosity=Verbosity.quiet)
        try:
            run_state_machine_as_test(hypothesis.seed(seed + rnd)(Machine), settings=sett)
        except PropFail:
            case, v = state["fail"]
            found.append({"site": v["site"], "features": v["features"], "msg": v["msg"], "case": case})
            muted.add(v["site"])
            continue
        break
    return found


# --------------------------------------------------------------------------- #
# top level

def run_property(pid, tier, seed, only=None, procs=None):
    t0 = time.time()
    setup_repo()
    mod = load_module(pid)
    findings = load_findings(pid)
    errors = []
    violations = []     # dicts with site, features, msg, case, origin
    known_seen = {}

    if hasattr(mod, "selftest"):
        try:
            mod.selftest()
        except Exception as e:  # noqa
            print("HARNESS-ERROR selftest: %s\n%s" % (e, traceback.format_exc()))
            return 2

    # 1. corpus + sentinels, in-process
    ctx = Ctx(mod, findings)
    corpus_n = 0
    for path in sorted(glob.glob(os.path.join(VERIF, "corpus", pid, "*.json"))):
        with open(path) as f:
            doc = json.load(f)
        case = doc["case"] if "case" in doc else doc
        corpus_n += 1
        try:
            for v in ctx.evaluate(case):
                violations.append(dict(v, case=case, origin="corpus:" + os.path.basename(path)))
        except HarnessError as e:
            errors.append("corpus %s: %s" % (path, e))
    for fid, c in ctx.known_hits.items():
        known_seen[fid] = known_seen.get(fid, 0) + c

    # 2. generated / enumerated sub-domains in worker processes
    subs = [s for s in mod.subchecks(tier) if only is None or s.name in only]
    units = []
    for s in subs:
        _, sh = s.budget(tier)
        for k in range(sh):
            units.append((pid, tier, seed, s.name, k, sh))
    procs = procs or int(os.environ.get("VERIF_PROCS", "16"))
    results = []
    if units:
        if procs <= 1 or len(units) == 1:
            results = [run_unit(u) for u in units]
        else:
            mpctx = mp.get_context("fork")
            with mpctx.Pool(min(procs, len(units))) as pool:
                results = list(pool.imap_unordered(run_unit, units, chunksize=1))
    results.sort(key=lambda r: (r["sub"], r["shard"]))

    evals = ctx.evals
    hashes = set(ctx.hashes)
    labels = dict(ctx.labels)
    samples = dict(ctx.samples)
    per_sub = {}
    exhaustive_subs = {}
    errstats = {}
    for r in results:
        for k, (ratio, cnt) in r.get("errstats", {}).items():
            cur = errstats.setdefault(k, [0.0, 0])
            cur[0] = max(cur[0], ratio)
            cur[1] += cnt
        errors.extend("%s[%d]: %s" % (r["sub"], r["shard"], e) for e in r["errors"])
        evals += r["evals"]
        hashes.update(r["hashes"])
        for k, c in r["labels"].items():
            labels[k] = labels.get(k, 0) + c
        for k, c in r["samples"].items():
            samples.setdefault(k, c)
        for fid, c in r["known_hits"].items():
            known_seen[fid] = known_seen.get(fid, 0) + c
        ps = per_sub.setdefault(r["sub"], {"evaluations": 0, "violations": 0, "wall_s": 0.0})
        ps["evaluations"] += r["evals"]
        ps["wall_s"] = round(max(ps["wall_s"], r["wall"]), 2)
        if r["exhaustive"]:
            exhaustive_subs[r["sub"]] = r["enum_size"]
        for v in r["violations"]:
            ps["violations"] += 1
            violations.append(dict(v, origin="%s[%d]" % (r["sub"], r["shard"])))

    # 2b. coverage-guided second engine (thorough tier only)
    fuzz_info = None
    if tier == "thorough" and only is None:
        fuzz_info = _run_atheris(pid, seed, ctx, violations, errors)
        if fuzz_info and fuzz_info.get("evals"):
            evals += fuzz_info["evals"]

    # 3. one report per site (keep the simplest case)
    by_site = {}
    for v in violations:
        if v["site"] not in by_site or _simpler(v["case"], by_site[v["site"]]["case"]):
            by_site[v["site"]] = v

    for e in findings:
        if known_seen.get(e["id"], 0) > 0:
            print("KNOWN-FINDING: property=%s %s [%s; %d hits this run]" % (pid, e["what"], e["id"], known_seen[e["id"]]))

    os.makedirs(os.path.join(OUTDIR, "replays", pid), exist_ok=True)
    for site, v in sorted(by_site.items()):
        doc = {"property": pid, "site": site, "features": v["features"], "message": v["msg"],
               "origin": v["origin"], "case": v["case"]}
        rel = os.path.join("replays", pid, case_hash(doc["case"])[:12] + "_" + _slug(site) + ".json")
        with open(os.path.join(OUTDIR, rel), "w") as f:
            json.dump(doc, f, indent=1)
        print("VIOLATION property=%s replay=%s" % (pid, rel))
        print("  site=%s features=%s\n  %s\n  case=%s" % (site, json.dumps(v["features"]), v["msg"],
                                                          json.dumps(v["case"])[:1500]))
    seen_err = set()
    for e in errors:
        key = e.split("]: ", 1)[-1][:200]
        if key in seen_err:
            continue
        seen_err.add(key)
        print("HARNESS-ERROR %s" % e[:3000])

    wall = time.time() - t0
    sample_list = []
    for k in sorted(samples):
        if len(sample_list) < 12:
            sample_list.append({"label": k, "case": samples[k]})
    evidence = {
        "property_id": pid, "tier": tier, "seed": int(seed), "level": "exploration",
        "coverage": {
            "evaluations": int(evals),
            "distinct_nontrivial": len(hashes),
            "rule": mod.RULE,
            "samples": sample_list,
            "labels": labels,
            "sub_checks": per_sub,
            "corpus_cases": corpus_n,
            "known_finding_hits": known_seen,
            "exhaustive": bool(exhaustive_subs) and len(exhaustive_subs) == len(subs),
            "exhaustive_sub_domains": exhaustive_subs,
            "violating_sites": sorted(by_site),
            "numeric_sites": {k: {"comparisons": v[1], "max_err_over_tol": float("%.3g" % min(v[0], 1e300))} for k, v in sorted(errstats.items())},
            "harness_errors": len(errors),
            "engine": "hypothesis %s + enumerators; %d worker processes" % (_hyp_version(), procs),
        },
        "assumptions": list(getattr(mod, "ASSUMPTIONS", [])),
        "wall_s": round(wall, 2),
        "violations": len(by_site),
    }
    if fuzz_info is not None:
        evidence["coverage"]["atheris"] = fuzz_info
    if hasattr(mod, "extra_evidence"):
        try:
            evidence["coverage"].update(mod.extra_evidence(tier))
        except Exception as e:  # noqa
            errors.append("extra_evidence: %s" % e)
    os.makedirs(os.path.join(OUTDIR, "evidence"), exist_ok=True)
    if only is None:
        with open(os.path.join(OUTDIR, "evidence", pid + ".json"), "w") as f:
            json.dump(evidence, f, indent=1, sort_keys=True)
    print("%s tier=%s seed=%s evaluations=%d distinct_nontrivial=%d violations=%d known=%d errors=%d wall=%.1fs" % (
        pid, tier, seed, evals, len(hashes), len(by_site), sum(1 for e in findings if known_seen.get(e["id"])),
        len(errors), wall))
    if by_site:
        return 1
    if errors:
        return 2
    return 0


def _run_atheris(pid, seed, ctx, violations, errors):
    """libFuzzer campaign on the byte->case decoder of pbt/fuzz/atheris_target.py; wall-clock capped (a cap hit is
    'inconclusive for the remainder', never a violation); a reported case is re-checked here before it counts"""
    import shutil
    import subprocess
    import tempfile
    try:
        from .fuzz import atheris_target
    except Exception as e:  # noqa
        return {"status": "unavailable: %s" % e}
    if pid not in atheris_target.DECODERS:
        return None
    deps = os.path.join(VERIF, ".deps")
    env = dict(os.environ, PYTHONPATH=VERIF + os.pathsep + deps + os.pathsep + os.environ.get("PYTHONPATH", ""))
    r = subprocess.run([sys.executable, "-c", "import atheris"], env=env, capture_output=True)
    if r.returncode != 0:
        return {"status": "atheris unavailable (thorough tier relies on Hypothesis and the enumerators)"}
    secs = int(os.environ.get("VERIF_FUZZ_SECONDS", "120"))
    tmp = tempfile.mkdtemp(prefix="smfuzz_")
    info = {"status": "ran", "seconds": secs, "campaigns": []}
    try:
        procs = []
        for k in range(4):          # four independent campaigns with different libFuzzer seeds, empty corpus
            cdir = os.path.join(tmp, "corpus%d" % k)
            os.makedirs(cdir)
            res = os.path.join(tmp, "res%d.json" % k)
            cmd = [sys.executable, "-W", "ignore", "-m", "pbt.fuzz.atheris_target", pid, res, cdir,
                   "-max_total_time=%d" % secs, "-seed=%d" % (derive_seed(seed, pid, "atheris", k) % (2 ** 31 - 1) + 1),
                   "-max_len=2048", "-len_control=0", "-artifact_prefix=" + tmp + os.sep]
            procs.append((subprocess.Popen(cmd, env=env, cwd=VERIF, stdout=subprocess.DEVNULL, stderr=subprocess.DEVNULL), res))
        total = 0
        for pr, res in procs:
            try:
                pr.wait(timeout=secs + 120)
            except subprocess.TimeoutExpired:
                pr.kill()
            try:
                with open(res) as f:
                    doc = json.load(f)
            except Exception:  # noqa
                continue
            total += doc.get("evals", 0)
            info["campaigns"].append({"executions": doc.get("execs", 0), "distinct_nontrivial": doc.get("distinct_nontrivial", 0),
                                      "violation": bool(doc.get("violation"))})
            v = doc.get("violation")
            if v:
                for vv in ctx.evaluate(v["case"], counting=False):     # re-check in this process before it counts
                    violations.append(dict(vv, case=v["case"], origin="atheris"))
        info["evals"] = total
    finally:
        shutil.rmtree(tmp, ignore_errors=True)
    return info


def _slug(s):
    return "".join(c if c.isalnum() else "_" for c in s)[:60]


def _hyp_version():
    import hypothesis
    return hypothesis.__version__


def replay(pid, path):
    setup_repo()
    mod = load_module(pid)
    with open(path) as f:
        doc = json.load(f)
    case = doc["case"] if "case" in doc else doc
    ctx = Ctx(mod, load_findings(pid) if not doc.get("ignore_known") else [])
    vs = ctx.evaluate(case)
    want = doc.get("site")
    hit = [v for v in vs if want is None or v["site"] == want] or vs
    for fid, c in ctx.known_hits.items():
        print("KNOWN-FINDING: property=%s %s" % (pid, fid))
    if hit:
        print("VIOLATION property=%s replay=%s" % (pid, path))
        for v in hit:
            print("  site=%s features=%s\n  %s" % (v["site"], json.dumps(v["features"]), v["msg"]))
        return 1
    print("%s replay %s: no violation" % (pid, path))
    return 0
