"""Property-based testing / fuzzing machinery for spatialmath-python (see /verif/DESIGN.md)."""
