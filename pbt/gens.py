"""
Shared Hypothesis strategies (DESIGN.md 1.6).  Everything drawn is plain JSON
data; matrices are built from it by pbt.refs inside check_case.
"""
import math

from hypothesis import strategies as st

PI = math.pi
SPECIAL_ANGLES = [0.0, PI / 2, -PI / 2, PI, -PI, 2 * PI, -2 * PI, 3 * PI / 2, -3 * PI / 2]


def fl(lo, hi):
    return st.floats(min_value=lo, max_value=hi, allow_nan=False, allow_infinity=False, allow_subnormal=False)


def logmag(lo_exp, hi_exp):
    """positive magnitude, log-uniform in [10**lo_exp, 10**hi_exp]"""
    return fl(lo_exp, hi_exp).map(lambda e: 10.0 ** e)


def signed_logmag(lo_exp, hi_exp):
    return st.tuples(st.sampled_from([-1.0, 1.0]), logmag(lo_exp, hi_exp)).map(lambda t: t[0] * t[1])


def offsets(kmin=1, kmax=15):
    return st.tuples(st.sampled_from([-1.0, 1.0]), st.integers(kmin, kmax)).map(lambda t: t[0] * 10.0 ** (-t[1]))


def angles(many_turns=True):
    """all finite angles, biased to the special values and their neighbourhoods"""
    opts = [
        st.sampled_from(SPECIAL_ANGLES),
        st.tuples(st.sampled_from(SPECIAL_ANGLES), offsets()).map(lambda t: t[0] + t[1]),
        fl(-PI, PI),
        fl(-PI, PI),
    ]
    if many_turns:
        opts.append(st.tuples(st.sampled_from([-1.0, 1.0]), fl(2 * PI, 1e6)).map(lambda t: t[0] * t[1]))
    return st.one_of(*opts)


def rot_angles(lo_exp=-15):
    """rotation magnitude in [0, pi]: ends included, log-uniform approach to both ends"""
    return st.one_of(
        st.sampled_from([0.0, PI, PI / 2]),
        logmag(lo_exp, 0.49),                                  # towards 0 (up to ~3.09)
        logmag(lo_exp, 0.0).map(lambda d: PI - d),             # towards pi
        fl(0.0, PI),
        fl(0.0, PI),
        logmag(-9.3, -7.7) if lo_exp <= -10 else logmag(lo_exp, 0.49),   # so small that cos rounds to 1 and sin does not (5e-10 .. 2e-8)
        logmag(-6.7, -5.8).map(lambda d: PI - d),               # within a tolerance-sized distance (2e-7 .. 1.6e-6) of a half turn
        decade_edge(max(lo_exp, -12)),                         # a hair either side of 10^-k from 0
        decade_edge(max(lo_exp, -12)).map(lambda d: PI - d),   # ... and from pi
    )


def decade_edge(lo_exp=-12):
    """10^-k (1 +- e), e log-uniform 1e-13 .. 1e-2: the two sides of a round-number switch-over between code branches
    (series / closed form, small-angle / general), where tests written in terms of an angle and of its sine or cosine
    part company by a relative 1e-7 or less"""
    return st.tuples(st.integers(1, -lo_exp), logmag(-13, -2), st.sampled_from([-1.0, 1.0])).map(lambda t: 10.0 ** (-t[0]) * (1.0 + t[2] * t[1]))


def direction3():
    gauss = st.tuples(fl(-1, 1), fl(-1, 1), fl(-1, 1)).map(list).map(_fix_dir)
    coord = st.sampled_from([[1.0, 0.0, 0.0], [0.0, 1.0, 0.0], [0.0, 0.0, 1.0],
                             [-1.0, 0.0, 0.0], [0.0, -1.0, 0.0], [0.0, 0.0, -1.0]])
    near = st.tuples(st.integers(0, 2), st.integers(0, 2), st.integers(1, 15), st.sampled_from([-1.0, 1.0])).map(_near_axis)
    return st.one_of(gauss, gauss, coord, near)


def _fix_dir(v):
    n = math.sqrt(sum(x * x for x in v))
    if n < 1e-3:
        return [1.0, 0.0, 0.0]
    return [x / n for x in v]


def _near_axis(t):
    i, j, k, sgn = t
    v = [0.0, 0.0, 0.0]
    v[i] = 1.0
    if j != i:
        v[j] = sgn * 10.0 ** (-k)
    return v


def axis3(lo_exp=-3, hi_exp=6):
    """direction x length log-uniform"""
    near_unit = st.tuples(st.sampled_from([-1.0, 1.0]), st.integers(3, 12)).map(lambda t: 1.0 + t[0] * 10.0 ** (-t[1]))
    return st.tuples(direction3(), st.one_of(st.just(1.0), logmag(lo_exp, hi_exp), near_unit)).map(
        lambda t: [x * t[1] for x in t[0]])


def direction2():
    return st.one_of(fl(-PI, PI).map(lambda a: [math.cos(a), math.sin(a)]),
                     st.sampled_from([[1.0, 0.0], [0.0, 1.0], [-1.0, 0.0], [0.0, -1.0]]))


def trans(dim=3, lo_exp=-6, hi_exp=6, zero=True, tiny=False):
    d = direction3() if dim == 3 else direction2()
    mags = [logmag(lo_exp, hi_exp), logmag(-1, 1)]
    if tiny:
        mags.append(logmag(-12, -6))
    if hi_exp > 3:
        mags.append(logmag(3, hi_exp))
    if zero:
        mags.append(st.just(0.0))
    return st.tuples(d, st.one_of(*mags)).map(lambda t: [x * t[1] for x in t[0]])


def _cube_rotations():
    """the 24 proper rotations with entries in {0, 1, -1} (axis relabellings): exact quarter / half / third turns whose matrices
    have exactly tied or exactly zero entries -- [axis, angle] such that rounding Rodrigues' formula recovers the integer matrix"""
    import itertools
    import numpy as np
    from . import refs
    out = []
    for perm in itertools.permutations(range(3)):
        for signs in itertools.product([1.0, -1.0], repeat=3):
            R = np.zeros((3, 3))
            for i in range(3):
                R[i, perm[i]] = signs[i]
            if abs(np.linalg.det(R) - 1.0) > 1e-9:
                continue
            ax, th = refs.axis_angle(R)
            out.append({"axis": [1.0, 0.0, 0.0] if ax is None else [float(x) for x in ax], "angle": float(th), "via": "cube"})
    return out


CUBE = None


def cube_rot():
    global CUBE
    if CUBE is None:
        CUBE = _cube_rotations()
    return st.sampled_from(CUBE)


def rot3(lo_exp=-15, via=True):
    vias = st.sampled_from(["rod", "rod", "quat", "conj"]) if via else st.just("rod")
    generic = st.fixed_dictionaries({"axis": direction3(), "angle": rot_angles(lo_exp), "via": vias})
    if not via:
        return generic
    noisy = st.fixed_dictionaries({"axis": direction3(), "angle": rot_angles(lo_exp), "via": vias, "noise": rounding_noise()})
    return st.one_of(generic, generic, generic, generic, generic, generic, noisy, cube_rot())


def rounding_noise():
    """1-8 eps times a pattern in [-1,1]^9 (symmetric or general) added to a rotation matrix"""
    return st.fixed_dictionaries({"k": st.sampled_from([1.0, 3.0, 8.0]), "sym": st.booleans(),
                                  "pat": st.lists(st.one_of(fl(-1, 1), st.sampled_from([0.0, 1.0, -1.0])), min_size=9, max_size=9)})


def pose3(t_hi=6, lo_exp=-15, tiny=False):
    return st.fixed_dictionaries({"rot": rot3(lo_exp), "t": trans(3, -6, t_hi, tiny=tiny)})


def angle2():
    """planar rotation angle in (-pi, pi] with special values"""
    return st.one_of(st.sampled_from([0.0, PI / 2, -PI / 2, PI]),
                     st.tuples(st.sampled_from([0.0, PI / 2, -PI / 2]), offsets()).map(lambda t: t[0] + t[1]),
                     logmag(-15, 0.0).map(lambda d: PI - d),
                     logmag(-15, 0.0).map(lambda d: -PI + d),
                     fl(-PI, PI), fl(-PI, PI))


def pose2(t_hi=6):
    return st.fixed_dictionaries({"angle": angle2(), "t": trans(2, -6, t_hi)})


FORMS = ["list", "tuple", "array", "row", "col"]


def as_form(v, form, np):
    """realise a vector in one of the five container forms (ints kept when given ints)"""
    if form == "list":
        return list(v)
    if form == "tuple":
        return tuple(v)
    a = np.array(v)
    if form == "array":
        return a
    if form == "row":
        return a.reshape(1, -1)
    if form == "col":
        return a.reshape(-1, 1)
    raise ValueError(form)
