"""
Trusted base: small reference formulas independent of the code under test
(NumPy + mpmath only).  selftest() cross-checks them against mpmath.
"""
import math

import numpy as np

EPS = np.finfo(float).eps
I3 = np.eye(3)


def skew3(v):
    return np.array([[0.0, -v[2], v[1]], [v[2], 0.0, -v[0]], [-v[1], v[0], 0.0]])


def vex3(S):
    return np.array([S[2, 1] - S[1, 2], S[0, 2] - S[2, 0], S[1, 0] - S[0, 1]]) / 2.0


def unit(v):
    v = np.asarray(v, dtype=float)
    # scale first so that huge / tiny vectors do not overflow
    m = np.max(np.abs(v))
    v = v / m
    return v / math.sqrt(float(np.dot(v, v)))


def polish(R):
    """Newton step(s) towards the nearest orthonormal matrix (keeps det sign)."""
    for _ in range(2):
        R = R @ (3.0 * np.eye(R.shape[0]) - R.T @ R) / 2.0
    return R


def rodrigues(axis, angle):
    k = unit(axis)
    K = skew3(k)
    # 1 - cos computed as 2 sin^2(x/2) for accuracy near 0
    s = math.sin(angle)
    c1 = 2.0 * math.sin(angle / 2.0) ** 2
    return polish(I3 + s * K + c1 * (K @ K))


def rot_via_quat(axis, angle):
    k = unit(axis)
    q = np.r_[math.cos(angle / 2.0), math.sin(angle / 2.0) * k]
    return polish(q2r(q))


def rotx(a):
    c, s = math.cos(a), math.sin(a)
    return np.array([[1, 0, 0], [0, c, -s], [0, s, c]], dtype=float)


def roty(a):
    c, s = math.cos(a), math.sin(a)
    return np.array([[c, 0, s], [0, 1, 0], [-s, 0, c]], dtype=float)


def rotz(a):
    c, s = math.cos(a), math.sin(a)
    return np.array([[c, -s, 0], [s, c, 0], [0, 0, 1]], dtype=float)


def rot2(a):
    c, s = math.cos(a), math.sin(a)
    return np.array([[c, -s], [s, c]])


def rt(R, t):
    n = R.shape[0]
    T = np.eye(n + 1)
    T[:n, :n] = R
    T[:n, n] = t
    return T


def rot_of(spec):
    """rotation spec {'axis':[3], 'angle':a, 'via': 'rod'|'quat'|'xyz'|'conj'|'cube'[, 'noise': {...}]} -> 3x3 float matrix"""
    nz = spec.get("noise")
    if nz:
        # rounding-size perturbation (what composition of valid members leaves behind; far inside every membership test)
        R = rot_of({k: v for k, v in spec.items() if k != "noise"})
        N = np.array(nz["pat"], dtype=float).reshape(3, 3)
        if nz.get("sym"):
            N = (N + N.T) / 2
        return R + nz["k"] * np.finfo(float).eps * N
    via = spec.get("via", "rod")
    if via == "quat":
        return rot_via_quat(spec["axis"], spec["angle"])
    if via == "xyz":
        a = spec["axis"]
        return polish(rotz(a[2]) @ roty(a[1]) @ rotx(a[0]))
    if via == "conj":
        # the same rotation computed as A R(A'k, angle) A': equal to rounding, but no longer exactly orthonormal / trace <= 3
        # (what products of valid rotations look like)
        A = rodrigues([0.36, -0.48, 0.8], 1.1)
        return A @ rodrigues(A.T @ unit(spec["axis"]), spec["angle"]) @ A.T
    if via == "cube":
        return np.rint(rodrigues(spec["axis"], spec["angle"])) + 0.0      # exact signed-permutation matrix (no -0.0)
    return rodrigues(spec["axis"], spec["angle"])


def pose3_of(spec):
    return rt(rot_of(spec["rot"]), np.array(spec["t"], dtype=float))


def pose2_of(spec):
    return rt(rot2(spec["angle"]), np.array(spec["t"], dtype=float))


def angle_of(R):
    """rotation angle: [0, pi] for 3x3 (robust at both ends), signed (-pi, pi] for 2x2"""
    if R.shape == (3, 3):
        return math.atan2(float(np.linalg.norm(vex3(R))), (np.trace(R) - 1.0) / 2.0)
    return math.atan2((R[1, 0] - R[0, 1]) / 2.0, (R[0, 0] + R[1, 1]) / 2.0)


def axis_angle(R):
    """(unit axis, angle in [0,pi]); axis undefined (None) for angle < 1e-300"""
    w = vex3(R)
    s = np.linalg.norm(w)
    c = (np.trace(R) - 1.0) / 2.0
    th = math.atan2(s, c)
    if s > 1e-3 or (c > 0 and s > 0):
        return w / s, th
    if c > 0:
        return None, 0.0
    # near pi: use the symmetric part  (R + R^T)/2 = I + (1-c)(kk^T - I)... -> kk^T = (Rs - c I)/(1-c)
    Rs = (R + R.T) / 2.0
    M = (Rs - c * I3) / (1.0 - c)
    i = int(np.argmax(np.diag(M)))
    k = M[:, i] / math.sqrt(M[i, i])
    if s > 0 and np.dot(k, w) < 0:
        k = -k
    return k / np.linalg.norm(k), th


# ---------------------------------------------------------------- quaternions

def qmul(p, q):
    s1, x1, y1, z1 = p
    s2, x2, y2, z2 = q
    return np.array([s1 * s2 - x1 * x2 - y1 * y2 - z1 * z2,
                     s1 * x2 + x1 * s2 + y1 * z2 - z1 * y2,
                     s1 * y2 - x1 * z2 + y1 * s2 + z1 * x2,
                     s1 * z2 + x1 * y2 - y1 * x2 + z1 * s2])


def qconj(q):
    return np.array([q[0], -q[1], -q[2], -q[3]])


def q2r(q):
    q = np.asarray(q, dtype=float)
    q = q / np.linalg.norm(q)
    s, x, y, z = q
    return np.array([[1 - 2 * (y * y + z * z), 2 * (x * y - s * z), 2 * (x * z + s * y)],
                     [2 * (x * y + s * z), 1 - 2 * (x * x + z * z), 2 * (y * z - s * x)],
                     [2 * (x * z - s * y), 2 * (y * z + s * x), 1 - 2 * (x * x + y * y)]])


def q_of_R(R):
    """unit quaternion (scalar first, s >= 0) of a rotation matrix: Shepperd's method, pivoting on the largest of the four
    squared components so that no small number is ever divided by"""
    R = np.asarray(R, dtype=float)
    t = np.trace(R)
    d = [t, R[0, 0], R[1, 1], R[2, 2]]
    i = int(np.argmax(d))
    if i == 0:
        s = math.sqrt(max(0.0, 1 + t)) / 2
        q = np.array([s, (R[2, 1] - R[1, 2]) / (4 * s), (R[0, 2] - R[2, 0]) / (4 * s), (R[1, 0] - R[0, 1]) / (4 * s)])
    else:
        j, k, l = [(1, 2, 3), (2, 3, 1), (3, 1, 2)][i - 1]
        a, b_, c_ = j - 1, k - 1, l - 1
        x = math.sqrt(max(0.0, 1 + R[a, a] - R[b_, b_] - R[c_, c_])) / 2
        q = np.zeros(4)
        q[j] = x
        q[0] = (R[c_, b_] - R[b_, c_]) / (4 * x)
        q[k] = (R[b_, a] + R[a, b_]) / (4 * x)
        q[l] = (R[a, c_] + R[c_, a]) / (4 * x)
    q = q / np.linalg.norm(q)
    return q if q[0] >= 0 else -q


def q_of(spec):
    k = unit(spec["axis"])
    a = spec["angle"]
    return np.r_[math.cos(a / 2.0), math.sin(a / 2.0) * k]


# ---------------------------------------------------------------- exp / log

def _mp():
    import mpmath
    mpmath.mp.dps = 50
    return mpmath


def mp_expm(M):
    mpm = _mp()
    A = mpm.matrix(M.tolist())
    # scaling and squaring keeps the Taylor series short and exact at 50 digits
    nrm = max(1.0, float(np.max(np.sum(np.abs(M), axis=1))))
    k = max(0, int(math.ceil(math.log2(nrm))) + 1)
    A = A / (2 ** k)
    n = M.shape[0]
    E = mpm.eye(n)
    term = mpm.eye(n)
    for j in range(1, 40):
        term = term * A / j
        E = E + term
    for _ in range(k):
        E = E * E
    return np.array([[float(E[i, j]) for j in range(n)] for i in range(n)])


def mp_inv(M):
    mpm = _mp()
    A = mpm.matrix(M.tolist())
    B = mpm.inverse(A)
    n = M.shape[0]
    return np.array([[float(B[i, j]) for j in range(n)] for i in range(n)])


def mp_eval(f, *mats):
    """evaluate f on mpmath matrices built from numpy float matrices, return numpy"""
    mpm = _mp()
    res = f(mpm, *[mpm.matrix(m.tolist()) for m in mats])
    return np.array([[float(res[i, j]) for j in range(res.cols)] for i in range(res.rows)])


def expm_so3(w):
    w = np.asarray(w, dtype=float)
    th = float(np.linalg.norm(w))
    K = skew3(w)
    if th < 1e-4:
        a = 1.0 - th * th / 6.0
        b = 0.5 - th * th / 24.0
    else:
        a = math.sin(th) / th
        b = 2.0 * math.sin(th / 2.0) ** 2 / (th * th)
    return I3 + a * K + b * (K @ K)


def expm_se3(v, w):
    """closed-form exp of the se(3) element (v, w) with series near 0"""
    v = np.asarray(v, dtype=float)
    w = np.asarray(w, dtype=float)
    th = float(np.linalg.norm(w))
    K = skew3(w)
    if th < 1e-4:
        b = 0.5 - th * th / 24.0
        c = 1.0 / 6.0 - th * th / 120.0
    else:
        b = 2.0 * math.sin(th / 2.0) ** 2 / (th * th)
        c = (th - math.sin(th)) / th ** 3
    Vm = I3 + b * K + c * (K @ K)
    return rt(expm_so3(w), Vm @ v)


def expm_se2(v, w):
    v = np.asarray(v, dtype=float)
    w = float(w)
    if abs(w) < 1e-4:
        a = 1.0 - w * w / 6.0
        b = w / 2.0 - w ** 3 / 24.0
    else:
        a = math.sin(w) / w
        b = 2.0 * math.sin(w / 2.0) ** 2 / w
    Vm = np.array([[a, -b], [b, a]])
    return rt(rot2(w), Vm @ v)


def hat6(v, w):
    S = np.zeros((4, 4))
    S[:3, :3] = skew3(w)
    S[:3, 3] = v
    return S


def hat3(v, w):
    return np.array([[0.0, -w, v[0]], [w, 0.0, v[1]], [0.0, 0.0, 0.0]])


def adjoint(T):
    R = T[:3, :3]
    t = T[:3, 3]
    A = np.zeros((6, 6))
    A[:3, :3] = R
    A[:3, 3:] = skew3(t) @ R
    A[3:, 3:] = R
    return A


# ---------------------------------------------------------------- validity

def so_residual(R):
    """max(orthogonality residual, |det-1|) of a square matrix"""
    R = np.asarray(R, dtype=float)
    n = R.shape[0]
    return float(max(np.max(np.abs(R.T @ R - np.eye(n))), abs(np.linalg.det(R) - 1.0)))


def se_residual(T):
    T = np.asarray(T, dtype=float)
    n = T.shape[0] - 1
    last = np.zeros(n + 1)
    last[n] = 1.0
    return float(max(so_residual(T[:n, :n]), np.max(np.abs(T[n, :] - last))))


def err(A, B, scale=1.0):
    A = np.asarray(A, dtype=float)
    B = np.asarray(B, dtype=float)
    if A.shape != B.shape:
        return float("inf")
    if A.size == 0:
        return 0.0
    d = np.abs(A - B)
    if not np.all(np.isfinite(d)):
        return float("inf")
    return float(np.max(d)) / scale


def selftest():
    rng = np.random.RandomState(12345)  # fixed: self test of the trusted base, not part of any property
    for _ in range(5):
        w = rng.randn(3) * rng.choice([1e-6, 0.3, 1.0])
        w = w * min(1.0, 3.0 / np.linalg.norm(w))
        v = rng.randn(3) * 10
        assert err(expm_se3(v, w), mp_expm(hat6(v, w))) < 1e-12, "expm_se3"
        assert err(expm_so3(w), mp_expm(skew3(w))) < 1e-13, "expm_so3"
        assert err(expm_se2(v[:2], w[0]), mp_expm(hat3(v[:2], w[0]))) < 1e-12, "expm_se2"
        th = float(np.linalg.norm(w))
        assert err(rodrigues(w, th), mp_expm(skew3(w))) < 1e-13, "rodrigues"
        assert err(rot_via_quat(w, th), rodrigues(w, th)) < 1e-13, "quat route"
        k, a = axis_angle(rodrigues(w, th))
        assert abs(a - th) < 1e-9 and err(k * a, w) < 1e-8, "axis_angle"
        T = rt(rodrigues(w, th), v)
        assert err(mp_inv(T) @ T, np.eye(4)) < 1e-12
    for a in (math.pi, math.pi - 1e-9, math.pi - 1e-5, 1e-9, 3.0):
        ax = rng.randn(3)
        R = rodrigues(ax, a)
        assert so_residual(R) < 1e-14
        k, th = axis_angle(R)
        assert abs(th - a) < 1e-7, ("axis_angle angle", a, th)
        assert min(err(k, unit(ax)), err(-k, unit(ax))) < 1e-6, ("axis_angle axis", a)
        assert err(rodrigues(k, th), R) < 1e-7
    p, q, r = rng.randn(4), rng.randn(4), rng.randn(4)
    assert err(qmul(qmul(p, q), r), qmul(p, qmul(q, r))) < 1e-12
    assert err(q2r(qmul(p, q) / np.linalg.norm(qmul(p, q))), q2r(p) @ q2r(q)) < 1e-12
