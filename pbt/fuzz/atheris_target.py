"""
Coverage-guided second engine (atheris / libFuzzer), thorough tier only.

    python -m pbt.fuzz.atheris_target <Cxx> <result.json> [libFuzzer flags]

libFuzzer's byte buffer is decoded into a JSON case (FuzzedDataProvider ->
structured arguments, DECODERS below), so the fuzzer reaches the logic instead
of dying in input validation; the oracle is the property's own check_case().
Branch coverage of the instrumented spatialmath package guides the mutation.
The first unknown violation is written to <result.json> with the execution
counts; the parent re-checks it with check_case and writes the replay file.
"""
import json
import os
import sys
import time

PI = 3.141592653589793


def dec_c10(fdp):
    from ..props import c10_list as m
    cls = m.CLASSES[fdp.ConsumeIntInRange(0, len(m.CLASSES) - 1)]
    sk = fdp.ConsumeIntInRange(0, 3)
    start = [["alloc", fdp.ConsumeIntInRange(0, 4)], ["list", fdp.ConsumeIntInRange(1, 4)], ["empty", 0], ["default", 1]][sk]
    names = ["nested_iter", "get", "slice", "iter", "append", "extend", "insert", "pop", "del", "set", "reverse", "clear", "ctor_list", "copy",
             "append_other", "append_multi", "extend_other", "append_array", "insert_other", "insert_multi", "set_other", "set_multi",
             "ctor_list_other", "ctor_list_other_first", "append_empty", "insert_empty", "set_empty", "ctor_list_multi", "ctor_list_empty_elem"]
    ops = []
    n = fdp.ConsumeIntInRange(1, 40)

    def idx():
        return fdp.ConsumeIntInRange(-7, 7)

    def optidx():
        return None if fdp.ConsumeBool() else idx()
    for _ in range(n):
        if fdp.remaining_bytes() == 0:
            break
        o = names[fdp.ConsumeIntInRange(0, len(names) - 1)]
        if o in ("get", "insert", "del", "set", "insert_other", "insert_multi", "set_other", "set_multi", "insert_empty", "set_empty"):
            ops.append([o, idx()])
        elif o == "slice":
            ops.append([o, optidx(), optidx(), [None, 1, -1, 2, -2, 3, -3][fdp.ConsumeIntInRange(0, 6)]])
        elif o == "extend":
            ops.append([o, fdp.ConsumeIntInRange(0, 3)])
        elif o == "pop":
            ops.append([o, optidx()])
        else:
            ops.append([o])
    if not ops:
        ops = [["iter"]]
    return {"kind": "ops", "cls": cls, "start": start, "ops": ops}


def _unitf(fdp, lo, hi):
    return fdp.ConsumeFloatInRange(lo, hi)


def _dir3(fdp):
    v = [_unitf(fdp, -1, 1) for _ in range(3)]
    n = sum(x * x for x in v) ** 0.5
    return [x / n for x in v] if n > 1e-3 else [1.0, 0.0, 0.0]


def dec_c07(fdp):
    from ..props import c07_reject as m
    return {
        "kind": "ctor", "cls": m.CLASSES[fdp.ConsumeIntInRange(0, len(m.CLASSES) - 1)],
        "defect": m.DEFECTS[fdp.ConsumeIntInRange(0, len(m.DEFECTS) - 1)],
        "container": m.CONTAINERS[fdp.ConsumeIntInRange(0, len(m.CONTAINERS) - 1)],
        "m3": {"rot": {"axis": _dir3(fdp), "angle": _unitf(fdp, 0.0, PI), "via": "rod"}, "t": [_unitf(fdp, -1e3, 1e3) for _ in range(3)]},
        "m2": {"angle": _unitf(fdp, -PI, PI), "t": [_unitf(fdp, -1e3, 1e3) for _ in range(2)]},
        "mag": 10.0 ** _unitf(fdp, -12, 0),
        "pattern": [_unitf(fdp, -1, 1) for _ in range(16)],
        "i": fdp.ConsumeIntInRange(0, 3), "j": fdp.ConsumeIntInRange(0, 3),
        "src": ["ref", "lib"][fdp.ConsumeIntInRange(0, 1)],
    }


def dec_c17(fdp):
    from ..props import c17_nomutate as m
    names = sorted(m.optable())
    n = fdp.ConsumeIntInRange(1, 30)
    steps = []
    for _ in range(n):
        if fdp.remaining_bytes() == 0:
            break
        steps.append([names[fdp.ConsumeIntInRange(0, len(names) - 1)], fdp.ConsumeIntInRange(0, 99), fdp.ConsumeIntInRange(0, 99)])
    if not steps:
        steps = [[names[0], 0, 0]]
    return {"kind": "history", "seeds": m.DEFAULT_SEEDS, "steps": steps}


def dec_c08(fdp):
    from ..props import c08_types as m
    cells = list(m.cells())
    op, lk, rk, nl, nr = cells[fdp.ConsumeIntInRange(0, len(cells) - 1)]
    return {"kind": "cell", "op": op, "L": lk, "R": rk, "nl": nl, "nr": nr, "vals": m.DEFAULT_VALS}


DECODERS = {"C10": dec_c10, "C07": dec_c07, "C17": dec_c17, "C08": dec_c08}


def main():
    pid, result_path = sys.argv[1], sys.argv[2]
    fuzz_args = [sys.argv[0]] + sys.argv[3:]
    import atheris
    from .. import runner
    os.environ.setdefault("MPLBACKEND", "Agg")
    sys.path.insert(0, runner.REPO)
    with atheris.instrument_imports(include=["spatialmath"]):
        import spatialmath  # noqa
        import spatialmath.base  # noqa
    runner.setup_repo()
    mod = runner.load_module(pid)
    decode = DECODERS[pid]
    ctx = runner.Ctx(mod, runner.load_findings(pid))
    state = {"execs": 0, "violation": None, "t0": time.time()}

    def dump():
        with open(result_path, "w") as f:
            json.dump({"execs": state["execs"], "evals": ctx.evals, "distinct_nontrivial": len(ctx.hashes), "labels": ctx.labels,
                       "sample": ctx.samples.get("nontrivial"), "violation": state["violation"], "wall_s": time.time() - state["t0"]}, f)

    def one(data):
        fdp = atheris.FuzzedDataProvider(data)
        case = decode(fdp)
        state["execs"] += 1
        vs = ctx.evaluate(case)
        if vs:
            v = vs[0]
            state["violation"] = {"site": v["site"], "features": v["features"], "msg": v["msg"], "case": case}
            dump()
            raise AssertionError(v["site"])
        if state["execs"] % 500 == 0:
            dump()

    dump()
    atheris.Setup(fuzz_args, one)
    atheris.Fuzz()


if __name__ == "__main__":
    main()
