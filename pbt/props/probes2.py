"""
Value-representation probes shared by several properties (kind "variant").

Every property about what a method or operator returns is a statement about the *values* an object holds.  The same
values can be held in different representations, and the result must not depend on which:

  inttype    pose matrices typed with integers (SE3(1, 2, 3), transl(1, 2, 3) and hand-typed axis relabellings are int64
             in this library) versus the same values as float64; also a multi-valued object whose FIRST value is
             integer-typed and the others float
  long       an object holding 70 or 300 values (5 distinct values repeated): element i of every per-value result equals
             the single-valued result for value i mod 5  (vectorised paths that switch with the length)
  drift      operands carrying the coherent rounding of a long product chain, ((X**8)**8)**8 (off the group by ~1e-13,
             a member to 1e-9): every operation that does not validate user input must accept them and agree (1e-9)
             with the same operation on the re-orthonormalised operand
  identity   writing through the array returned by .A of a default-constructed object (or of one Alloc slot) must not
             change what the default constructor / the other slots give afterwards
  chain      3000 consecutive products q = q * r (and q *= r): no exception, still a member to 1e-9

The calls are those of probes.catalogue tagged with the property, plus base functions taking a matrix.
"""
import contextlib
import io

import numpy as np
from hypothesis import strategies as st

from .. import gens, refs
from . import probes
from .common import L

KINDS = ["inttype", "inttype_mixed", "long", "drift", "identity", "chain", "layout"]
POSES = ["SO2", "SE2", "SO3", "SE3"]

CLASSES_BY_PROP = dict(probes.CLASSES_BY_PROP)


_CUBE15 = None


def _cube(k):
    """k-th axis relabelling with rotation angle < pi (identity, 6 quarter turns, 8 third turns): at a half turn the sign of
    the extracted axis / of an angle of +-pi legitimately depends on the sign of a zero, which integers do not have"""
    global _CUBE15
    if _CUBE15 is None:
        _CUBE15 = [s_ for s_ in gens._cube_rotations() if s_["angle"] < 3.0]
    return refs.rot_of(_CUBE15[k % len(_CUBE15)])


ANGLE_CALLS = {"rpy", "rpy/deg/xyz", "eul", "theta", "theta/deg", "xyt", "tr2rpy", "tr2rpy/xyz", "tr2eul", "tr2xyt", "tr2xyt/deg"}


def same_mod_turn(name, a, b_, tol):
    """equality of outcomes; for angle-valued calls angles are compared modulo a full turn (+pi and -pi are the same angle)"""
    if probes.same(a, b_, tol):
        return True
    if name not in ANGLE_CALLS or a[0] != "ok" or b_[0] != "ok":
        return False
    try:
        A, B = np.asarray(a[1], dtype=float), np.asarray(b_[1], dtype=float)
    except Exception:  # noqa
        return False
    if A.shape != B.shape:
        return False
    turn = 360.0 if "deg" in name or name == "tr2rpy/xyz" else 2 * np.pi
    D = np.abs(A - B)
    if name.startswith("xyt") or name.startswith("tr2xyt"):
        return bool(np.all(D[..., :2] <= tol * max(1.0, float(np.max(np.abs(B))))) and np.all(np.minimum(D[..., 2] % turn, turn - D[..., 2] % turn) <= 1e-9))
    return bool(np.all(np.minimum(D % turn, turn - D % turn) <= 1e-9))


def _quarter(k):
    return np.rint(refs.rot2((k % 4) * np.pi / 2)) + 0.0


def int_value(cn, k, t):
    """exact integer-valued element of a pose class: k-th axis relabelling / quarter turn, integer translation t"""
    t = [int(x) for x in t]
    if cn == "SO3":
        return _cube(k)
    if cn == "SE3":
        return refs.rt(_cube(k), np.array(t[:3], dtype=float))
    if cn == "SO2":
        return _quarter(k)
    return refs.rt(_quarter(k), np.array(t[:2], dtype=float))


def base_calls(cn):
    """[(name, tags, f(T))] base functions taking one matrix of the class's shape"""
    b = L.base
    C = []

    def add(name, tags, f):
        C.append((name, set(tags.split()), f))
    if cn == "SE3":
        add("trinv", "C02 C06 C13", lambda T: b.trinv(T))
        add("trlog", "C03", lambda T: b.trlog(T))
        add("trlog/twist", "C03", lambda T: b.trlog(T, twist=True))
        add("trnorm", "C14 C01", lambda T: b.trnorm(T))
        add("trinterp", "C11 C01", lambda T: b.trinterp(None, T, 0.3))
        add("trinterp/start", "C11 C01", lambda T: b.trinterp(T, refs.rt(refs.rodrigues([0.3, -0.5, 0.8], 0.7), [0.5, 1.5, -2.0]), 0.25))
        add("tr2delta", "C13", lambda T: b.tr2delta(T))
        # two-pose forms with the OTHER pose a general float matrix (element types of the two operands differ)
        add("tr2delta(T,F)", "C13", lambda T: b.tr2delta(T, refs.rt(refs.rodrigues([0.3, -0.5, 0.8], 0.01), np.array([1.001, 2.002, 2.999]))))
        add("tr2delta(F,T)", "C13", lambda T: b.tr2delta(refs.rt(refs.rodrigues([0.3, -0.5, 0.8], 0.01), np.array([1.001, 2.002, 2.999])), T))
        add("trinterp(T,F)", "C11 C01", lambda T: b.trinterp(T, refs.rt(refs.rodrigues([0.3, -0.5, 0.8], 0.7), [0.5, 1.5, -2.0]), 0.25))
        add("tr2jac", "C13", lambda T: b.tr2jac(T))
        add("adjoint", "C13", lambda T: b.adjoint(T))
        add("tr2rpy", "C05", lambda T: b.tr2rpy(T))
        add("tr2eul", "C05", lambda T: b.tr2eul(T))
        add("tr2angvec", "C05", lambda T: tuple(b.tr2angvec(T)))
        add("t2r", "C04", lambda T: b.t2r(T))
        add("tr2rt", "C04 C06", lambda T: tuple(b.tr2rt(T)))
        add("transl", "C06", lambda T: b.transl(T))
        add("homtrans", "C06", lambda T: b.homtrans(T, np.array([[1.5, 2.0], [-2.0, 0.5], [0.75, 3.0]])))
        add("ishom", "C07", lambda T: b.ishom(T, check=True))
    elif cn == "SO3":
        add("r2q", "C04 C11", lambda R: b.r2q(R))
        add("trlog", "C03", lambda R: b.trlog(R))
        add("trlog/twist", "C03", lambda R: b.trlog(R, twist=True))
        add("trnorm", "C14 C01", lambda R: b.trnorm(R))
        add("trinterp", "C11 C01", lambda R: b.trinterp(None, R, 0.3))
        add("tr2rpy", "C05", lambda R: b.tr2rpy(R))
        add("tr2rpy/xyz", "C05 C15", lambda R: b.tr2rpy(R, order="xyz", unit="deg"))
        add("tr2eul", "C05", lambda R: b.tr2eul(R))
        add("tr2angvec", "C05", lambda R: tuple(b.tr2angvec(R)))
        add("r2t", "C04", lambda R: b.r2t(R))
        add("adjoint", "C13", lambda R: b.adjoint(R))
        add("isrot", "C07", lambda R: b.isrot(R, check=True))
    elif cn == "SE2":
        add("trinv2", "C02 C06", lambda T: b.trinv2(T))
        add("trlog2", "C03", lambda T: b.trlog2(T))
        add("trlog2/twist", "C03", lambda T: b.trlog2(T, twist=True))
        add("trnorm2", "C14", lambda T: b.trnorm2(T))
        add("trinterp2", "C11 C01", lambda T: b.trinterp2(None, T, 0.3))
        add("tr2xyt", "C05", lambda T: b.tr2xyt(T))
        add("tr2xyt/deg", "C05 C15", lambda T: b.tr2xyt(T, "deg"))
        add("transl2", "C06", lambda T: b.transl2(T))
        add("ishom2", "C07", lambda T: b.ishom2(T, check=True))
    elif cn == "SO2":
        add("trlog2", "C03", lambda R: b.trlog2(R))
        add("trlog2/twist", "C03", lambda R: b.trlog2(R, twist=True))
        add("trnorm2", "C14", lambda R: b.trnorm2(R))
        add("trinterp2", "C11 C01", lambda R: b.trinterp2(None, R, 0.3))
        add("isrot2", "C07", lambda R: b.isrot2(R, check=True))
    return C


# calls that do not validate their operands as user input (drift probe)
DRIFT_OK = {"inv", "X*P", "P*X", "X/P", "P/X", "X**3", "X**-2", "prod", "X*p", "X*Pm", "inv*p", "X==P", "X!=P", "X+P", "X-P", "X*2.5",
            "det", "R", "t", "A", "X*vel", "X*force", "X*line", "Ad", "jacob", "norm", "interp(s)", "interp(P,s)", "X*SE3", "X*SE2"}


def strategy(pid):
    classes = [c for c in CLASSES_BY_PROP[pid] if c in POSES + ["UnitQuaternion", "Quaternion", "Twist3", "Twist2", "SpatialVelocity", "SpatialForce",
                                                                 "SpatialAcceleration", "SpatialMomentum", "Plucker"]]
    return st.fixed_dictionaries({
        "kind": st.just("variant"), "what": st.sampled_from(KINDS), "cls": st.sampled_from(classes),
        "k": st.lists(st.integers(0, 14), min_size=3, max_size=3), "t": st.lists(st.integers(-9, 9), min_size=9, max_size=9),
        "us": st.lists(probes.U6, min_size=5, max_size=5), "p": probes.U6, "aux": st.lists(probes.U6, min_size=3, max_size=3),
        "n": st.sampled_from([6, 70, 300, 1200, 1200, 9000])})


def cells(pid):
    us = [[0.3, -0.5, 0.8, 0.2, 0.7, -0.4], [-0.6, 0.2, 0.4, -0.9, 0.1, 0.5], [0.1, 0.9, -0.3, 0.6, -0.8, 0.25], [0.7, 0.3, -0.2, -0.5, 0.4, 0.9], [-0.2, 0.6, 0.5, 0.3, -0.7, 0.1]]
    aux = [[0.4, -0.3, 0.9, 0.5, 0.2, -0.6], [0.8, 0.1, -0.5, -0.2, 0.6, 0.3], [-0.7, 0.5, 0.2, 0.9, -0.1, 0.4]]
    for cn in CLASSES_BY_PROP[pid]:
        for what in KINDS:
            for kk in ([1, 7, 13], [4, 2, 10], [6, 3, 9], [0, 14, 5], [8, 11, 12]) if what.startswith("inttype") else ([1, 7, 13],):
                for n in ((6, 70, 300, 1200, 9000) if what == "long" else (70,)):
                    yield {"kind": "variant", "what": what, "cls": cn, "k": kk, "t": [1, 2, 3, -4, 5, 0, 7, -2, 6], "us": us, "p": [0.25, -0.4, 0.6, 0.5, 0.3, -0.7],
                           "aux": aux, "n": n}


LAYOUTS = ["column-major", "transposed-view", "strided-view", "negative-strides"]


def relayout(A, lay):
    """an array equal to A (same shape, same values, float64) held differently in memory"""
    A = np.asarray(A, dtype=float)
    if A.ndim != 2:
        if lay == "strided-view":
            big = np.zeros(2 * A.shape[0])
            big[::2] = A
            return big[::2]
        if lay == "negative-strides":
            return np.array(A[::-1], copy=True)[::-1]
        return A.copy()
    if lay == "column-major":
        return np.asfortranarray(A.copy())
    if lay == "transposed-view":
        return np.ascontiguousarray(A.T).T
    if lay == "strided-view":
        big = np.full((2 * A.shape[0] + 1, 3 * A.shape[1]), 9.75)
        big[1::2, ::3][:A.shape[0], :A.shape[1]] = A
        return big[1::2, ::3][:A.shape[0], :A.shape[1]]
    B = np.array(A[::-1, ::-1], order="C", copy=True)
    return B[::-1, ::-1]


def _mk(cn, vals, **kw):
    cls = getattr(L, cn)
    keep = kw.pop("keep", False)      # keep: hand the arrays over as they are (memory layout is the point)
    try:
        return cls([v if keep else np.array(v) for v in vals], check=False, **kw)
    except TypeError:
        return cls([v if keep else np.array(v) for v in vals], **kw)


def elem_of(s, i, n):
    """the part of a snapped result that belongs to value i of an n-valued receiver, or None if it cannot be told"""
    if isinstance(s, tuple) and len(s) == 3 and s[0] == "obj" and len(s[2]) == n:
        return ("obj", s[1], [s[2][i]])
    if isinstance(s, tuple) and len(s) == 2 and s[0] in ("list", "tuple") and len(s[1]) == n:
        return s[1][i]
    if isinstance(s, np.ndarray) and s.ndim >= 1:
        axes = [a for a in range(s.ndim) if s.shape[a] == n]
        if len(axes) == 1:
            return np.take(s, i, axis=axes[0])
    return None


def squeeze_single(s):
    """single-valued results come without the leading list / axis"""
    return s


def check(c, case, pid):
    what, cn = case["what"], case["cls"]
    c.feat(what=what, cls=cn)
    aux = probes._aux({"aux": case["aux"]})
    P = probes.make(cn, [case["p"]])
    cat = [(n_, t_, f) for n_, t_, f in probes.catalogue(cn) if pid in t_ or pid == "C17"]
    if what in ("inttype", "inttype_mixed"):
        if cn not in POSES:
            return
        tt = case["t"]
        ivals = [int_value(cn, case["k"][j], tt[3 * j:3 * j + 3]) for j in range(3)]
        if what == "inttype":
            for m in (1, 3):
                Xi = _mk(cn, [v.astype(np.int64) for v in ivals[:m]])
                Xf = _mk(cn, [v.astype(np.float64) for v in ivals[:m]])
                for name, tags, f in cat:
                    oi, _ = probes.outcome(f, Xi, P, aux)
                    of, _ = probes.outcome(f, Xf, P, aux)
                    if not same_mod_turn(name, oi, of, 1e-12):
                        c.fail("%s/inttype" % name, "%s.%s on integer-typed values gives %s, on the same values as float64 %s" % (cn, name, probes._short(oi), probes._short(of)), call=name, m=m)
            for name, tags, f in base_calls(cn):
                if pid not in tags and pid != "C17":
                    continue
                oi, _ = probes.outcome(f, ivals[0].astype(np.int64))
                of, _ = probes.outcome(f, ivals[0].astype(np.float64))
                if not same_mod_turn(name, oi, of, 1e-12):
                    c.fail("base.%s/inttype" % name, "base.%s of an integer-typed matrix gives %s, of the same float64 matrix %s" % (name, probes._short(oi), probes._short(of)), call=name)
        else:
            gen = [probes.value(cn, u) for u in case["us"][:2]]
            Xi = _mk(cn, [ivals[0].astype(np.int64)] + gen)
            Xf = _mk(cn, [ivals[0].astype(np.float64)] + gen)
            for name, tags, f in cat:
                oi, _ = probes.outcome(f, Xi, P, aux)
                of, _ = probes.outcome(f, Xf, P, aux)
                if not same_mod_turn(name, oi, of, 1e-12):
                    c.fail("%s/inttype_first" % name, "%s.%s on [integer-typed, float, float] values gives %s, all-float gives %s" % (cn, name, probes._short(oi), probes._short(of)), call=name)
    elif what == "layout":
        # the same numbers held column-major (what X.inv().A of a rotation, a transposed copy, MATLAB data are), as a
        # strided view of a larger array, or with negative strides: every call must answer as for the row-major copy
        if cn not in POSES:
            return
        vals = [np.array(probes.value(cn, u), dtype=float) for u in case["us"][:3]]
        for lay in LAYOUTS:
            held = [relayout(v, lay) for v in vals]
            for m in (1, 3):
                Xl = _mk(cn, [relayout(v, lay) for v in vals[:m]], keep=True)
                Xc = _mk(cn, [np.array(v, order="C", copy=True) for v in vals[:m]])
                for name, tags, f in cat:
                    ol, _ = probes.outcome(f, Xl, P, aux)
                    oc, _ = probes.outcome(f, Xc, P, aux)
                    if not same_mod_turn(name, ol, oc, 1e-12):
                        c.fail("%s/layout" % name, "%s.%s on %s matrices gives %s, on row-major copies of the same values %s" % (cn, name, lay, probes._short(ol), probes._short(oc)), call=name, m=m, layout=lay)
            for name, tags, f in base_calls(cn):
                if pid not in tags and pid != "C17":
                    continue
                ol, _ = probes.outcome(f, relayout(vals[0], lay))
                oc, _ = probes.outcome(f, np.array(vals[0], order="C", copy=True))
                if not same_mod_turn(name, ol, oc, 1e-12):
                    c.fail("base.%s/layout" % name, "base.%s of a %s matrix gives %s, of a row-major copy %s" % (name, lay, probes._short(ol), probes._short(oc)), call=name, layout=lay)
    elif what == "long":
        n = case["n"]
        vals = [probes.value(cn, u) for u in case["us"]]
        X = _mk(cn, [vals[i % 5] for i in range(n)])
        singles = [_mk(cn, [v]) for v in vals]
        # the object holds the values it was given, in order (indexing and iteration)
        try:
            held = [np.asarray(x.data[0] if hasattr(x, "data") else x, dtype=float) for x in X]
            for i in (0, 1, 5, n // 2, n - 1):
                if i < n and not probes.same(held[i], np.asarray(vals[i % 5], dtype=float), 1e-12 if cn != "UnitQuaternion" else 1e-9):
                    c.fail("ctor/long", "%s built from %d values: value %d is not the one given" % (cn, n, i), n=n, index=i)
                    break
            if len(held) != n:
                c.fail("ctor/long", "%s built from %d values iterates over %d" % (cn, n, len(held)), n=n)
        except Exception as e:  # noqa
            c.fail("ctor/long", "iterating over a %s of %d values raised %r" % (cn, n, e), n=n)
        for name, tags, f in (cat if n <= 2000 else []):          # beyond 2000 values only constructors and binary operators (cost)
            if name in ("prod", "X*Pm", "X*Pm'", "A", "S", "interp(P,s)", "I*a", "I*v", "SE3*X", "cross(vel)", "cross(force)"):
                continue              # single-valued by documentation (inertia / pose times ONE spatial vector, cross of ONE pair)
            oX, _ = probes.outcome(f, X, P, aux)
            o5, _ = probes.outcome(f, _mk(cn, vals), P, aux)
            if oX[0] != o5[0]:
                c.fail("%s/long" % name, "%s.%s on %d values: %s, on 5 values: %s" % (cn, name, n, probes._short(oX), probes._short(o5)), call=name, n=n)
                continue
            if oX[0] != "ok":
                continue
            for i in (0, 1, 4, 5, 63, 64, 69, 255, 256, 257, 999, 1000, n - 1):
                if i >= n:
                    continue
                e = elem_of(oX[1], i, n)
                e5 = elem_of(o5[1], i % 5, 5)
                if e is None or e5 is None:
                    break
                if not probes.same(e, e5, 1e-12):
                    c.fail("%s/long" % name, "%s.%s on %d values: element %d differs from the result for that value in a 5-valued object" % (cn, name, n, i), call=name, n=n, index=i)
                    break
        # reductions over all values: the product of n values is the plain left-to-right matrix product
        if n <= 2000 and cn in POSES and any(nm_ == "prod" and (pid in tg_ or pid == "C17") for nm_, tg_, _f in cat):
            oP, _ = probes.outcome(lambda Z: Z.prod(), X)
            if oP[0] != "ok":
                c.fail("prod/long", "%s.prod() over %d values raised %s" % (cn, n, oP[1]), call="prod", n=n)
            else:
                ref_ = np.eye(np.asarray(vals[0]).shape[0])
                tmax = 1.0
                for i in range(n):
                    ref_ = ref_ @ np.asarray(vals[i % 5], dtype=float)
                    tmax = max(tmax, float(np.max(np.abs(ref_))))
                got_ = oP[1]
                arrs = got_[2] if isinstance(got_, tuple) and len(got_) == 3 and got_[0] == "obj" else None
                if arrs is None or len(arrs) != 1 or np.asarray(arrs[0]).shape != ref_.shape:
                    c.fail("prod/long", "%s.prod() over %d values returned %s" % (cn, n, probes._short(oP)), call="prod", n=n)
                elif not np.all(np.abs(np.asarray(arrs[0], dtype=float) - ref_) <= 1e-9 * tmax * max(1.0, n / 100.0)):
                    c.fail("prod/long", "%s.prod() over %d values differs from the left-to-right matrix product by %.3g" % (
                        cn, n, float(np.max(np.abs(np.asarray(arrs[0], dtype=float) - ref_)))), call="prod", n=n)
        # binary, both long
        if cn in POSES + ["UnitQuaternion", "Quaternion"] or cn.startswith("Spatial"):
            Y = _mk(cn, [vals[(i + 2) % 5] for i in range(n)])
            ops = {"X*Y": lambda a, b_: a * b_} if not cn.startswith("Spatial") else {}
            if cn in POSES + ["UnitQuaternion"]:
                ops["X/Y"] = lambda a, b_: a / b_
            if cn == "Quaternion" or cn.startswith("Spatial"):
                ops["X+Y"] = lambda a, b_: a + b_
                ops["X-Y"] = lambda a, b_: a - b_
            for on, g in ops.items():
                oL, _ = probes.outcome(g, X, Y)
                if oL[0] != "ok":
                    c.fail("%s/long" % on, "%s %s on two %d-valued objects raised %s" % (cn, on, n, oL[1]), call=on, n=n)
                    continue
                for i in (0, 3, 5, 64, 256, 1000, 4097, 8191, 8192, n - 1):
                    if i >= n:
                        continue
                    o1, _ = probes.outcome(g, singles[i % 5], singles[(i + 2) % 5])
                    e = elem_of(oL[1], i, n)
                    if e is None or o1[0] != "ok" or not probes.same(e, o1[1], 1e-12):
                        c.fail("%s/long" % on, "%s %s on two %d-valued objects: element %d differs from the single-valued result" % (cn, on, n, i), call=on, n=n, index=i)
                        break
    elif what == "drift":
        if cn not in POSES + ["UnitQuaternion"]:
            return
        X0 = probes.make(cn, case["us"][:1])
        try:
            Xd = ((X0 ** 8) ** 8) ** 8
            Pd = ((P ** -8) ** 8) ** -8
        except Exception as e:  # noqa
            c.fail("drift/operand", "((X**8)**8)**8 raised %s: %s" % (type(e).__name__, e))
            return
        # the same values re-orthonormalised by the reference (not by the library)
        if cn == "UnitQuaternion":
            pol = lambda Z: _mk(cn, [np.asarray(v, dtype=float) / np.linalg.norm(v) for v in Z.data])  # noqa
        else:
            d = 2 if cn.endswith("2") else 3

            def pol(Z):
                out = []
                for v in Z.data:
                    v = np.array(v, dtype=float)
                    v[:d, :d] = refs.polish(v[:d, :d])
                    out.append(v)
                return _mk(cn, out)
        Xp, Pp = pol(Xd), pol(Pd)
        tsc = 1.0
        if cn in ("SE3", "SE2"):
            tsc = max(1.0, float(np.max(np.abs(np.asarray(Xd.data[0])[:-1, -1]))), float(np.max(np.abs(np.asarray(Pd.data[0])[:-1, -1]))))
        if tsc > 1e6:
            return
        for name, tags, f in cat:
            if name not in DRIFT_OK:
                continue
            od, _ = probes.outcome(f, Xd, Pd, aux)
            op_, _ = probes.outcome(f, Xp, Pp, aux)
            if od[0] != op_[0]:
                c.fail("%s/drift" % name, "%s.%s with operands carrying the rounding of a product chain: %s; with the same operands re-orthonormalised: %s"
                       % (cn, name, probes._short(od), probes._short(op_)), call=name)
            elif od[0] == "ok" and not probes.same(od[1], op_[1], 1e-9 * tsc * tsc):
                c.fail("%s/drift_value" % name, "%s.%s differs by more than 1e-9 between drifted and re-orthonormalised operands" % (cn, name), call=name)
        if cn in ("SE3", "SE2"):
            tw = L.Twist3(np.array([0.3, -0.2, 0.5, 0.1, 0.4, -0.6])) if cn == "SE3" else L.Twist2(np.array([0.3, -0.2, 0.5]))
            od, _ = probes.outcome(lambda: tw * Xd)
            op_, _ = probes.outcome(lambda: tw * Xp)
            if od[0] != op_[0]:
                c.fail("Twist*X/drift", "Twist * %s with a drifted pose: %s; re-orthonormalised: %s" % (cn, probes._short(od), probes._short(op_)))
    elif what == "identity":
        if cn not in POSES + ["UnitQuaternion", "Quaternion", "Twist3", "Twist2"]:
            return
        cls = getattr(L, cn)
        ident = probes.snap(cls())
        Y = probes.value(cn, case["us"][0])
        Z = cls()
        try:
            A = Z.A
            A[...] = Y                       # in-place write through the returned array
        except Exception:  # noqa   (read-only / not an array: nothing to probe)
            return
        if not probes.same(probes.snap(cls()), ident):
            c.fail("identity/shared", "after writing through .A of one default-constructed %s, a new %s() is no longer the identity" % (cn, cn))
        W = cls.Alloc(3)
        before = probes.snap(W[1])
        try:
            W.data[0][...] = Y
        except Exception:  # noqa
            return
        if not probes.same(probes.snap(W[1]), before) or not probes.same(probes.snap(W[2]), before):
            c.fail("identity/alloc_shared", "writing into the array of one slot of %s.Alloc(3) changed the other slots" % cn)
    elif what == "chain":
        if cn not in POSES + ["UnitQuaternion"]:
            return
        q = probes.make(cn, case["us"][:1])
        r = probes.make(cn, case["us"][1:2])
        if cn in ("SE3", "SE2"):
            # keep the translation bounded: conjugate steps r, r^-1 alternately with a rotation-only step
            r = _mk(cn, [refs.rt(np.asarray(r.data[0])[:-1, :-1], np.zeros(2 if cn == "SE2" else 3))])
        try:
            for k in range(1500):
                q = q * r
            for k in range(1500):
                q *= r
        except Exception as e:  # noqa
            c.fail("chain/raised", "a chain of products of valid %s values raised %s: %s at some step" % (cn, type(e).__name__, e))
            return
        v = np.asarray(q.data[0], dtype=float)
        if cn == "UnitQuaternion":
            res = abs(float(np.linalg.norm(v)) - 1.0)
        else:
            d = 2 if cn.endswith("2") else 3
            res = refs.so_residual(v[:d, :d])
        if not res <= 1e-9:
            c.fail("chain/invalid", "after 3000 products the %s value is %.3g away from the group" % (cn, res))


RULE_TEXT = (" Representation probes (sub-checks 'variant_cells', 'variants'): the property's calls must not depend on how the values are held: "
             "integer-typed pose matrices (axis relabellings with integer translations; also integer-typed FIRST value of a multi-valued object) "
             "versus float64; objects of 70 and 300 values versus the single-valued results; operands carrying the coherent rounding of "
             "((X**8)**8)**8 versus the same operands re-orthonormalised (operations that do not validate user input); a write through .A "
             "of a default-constructed object or of one Alloc slot must not change later default objects / other slots; 3000 consecutive "
             "products stay valid and never raise.")


def run(case, pid):
    from .common import Checker
    c = Checker("variant")
    with contextlib.redirect_stdout(io.StringIO()):
        check(c, case, pid)
    return c.out


def classify(case):
    return {"kind:variant": True, "variant:" + case["what"]: True, "variant:" + case["cls"]: True, "nontrivial": True}


def subs(pid, n=(25, 800)):
    from ..runner import Sub
    return [Sub("variant_cells", gen=lambda tier: cells(pid), shards=(4, 8)),
            Sub("variants", strategy=strategy(pid), n=n, shards=(4, 16))]
