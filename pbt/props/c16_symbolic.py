"""
C16  Symbolic results agree with numeric results.
"""
import inspect
import math

import numpy as np
from hypothesis import strategies as st

from .. import gens, refs
from ..runner import Sub, HarnessError
from . import probes
from .common import L, Checker, arr

PROPERTY_ID = "C16"
RULE = ("every base function / class member whose docstring says 'SymPy: supported' (enumerated by reflection and checked "
        "against the entry table at start-up) plus pose operators (* inv *point) on symbolic values; each argument symbolic or "
        "(mask) numeric; substitution points over the numeric range incl. the special angles; oracle: every entry of the "
        "symbolic output evaluated at the point = numeric call at the point (1e-12 relative), entries that are structurally "
        "0 or 1 are exactly 0 / 1, same call forms as numerically. Non-trivial: >= 2 distinct symbols, or mixed "
        "symbolic/numeric, or a special angle.")
RULE = RULE + (" The numbers standing beside the symbols are Python floats / ints, np.float64, np.int64 or np.int32 (numtype), down to "
               "1e-12 in size; vectors are given as lists, tuples, 1-D and column object arrays; symbolic poses obtained as "
               "numeric@symbolic and symbolic@numeric products; simplify() of poses and expressions; symbolic determinants of "
               "4x4 arrays that are not poses; kind symhist: history probe on symbolic pose objects.")
ASSUMPTIONS = ["SymPy evalf at 30 digits is the evaluator of symbolic output", "the structural-constant clause is applied to constructors and accessors, not to composed operator expressions (where e.g. sin^2+cos^2 is a legitimate unsimplified 1)", "only entries marked 'SymPy: supported' are in scope",
               "structural constants are identified from the numeric result at two generic points",
               "numbers beside symbols are Python numbers, np.float64 or NumPy integers; single-precision NumPy scalars beside symbols are not generated (inside object arrays NumPy's own scalar arithmetic keeps them in single precision - observed 1e-8 differences, NumPy semantics rather than a library code path); a NumPy scalar as LEFT operand of a pose is dispatched by NumPy and is not generated"]

PI = math.pi


def entries():
    """name -> (nargs, function(args) -> output).  The same function is called with symbols and with numbers."""
    b = L.base
    E = {}

    def add(name, n, f):
        E[name] = (n, f)
    add("rotx", 1, lambda a: b.rotx(a[0]))
    add("roty", 1, lambda a: b.roty(a[0]))
    add("rotz", 1, lambda a: b.rotz(a[0]))
    add("rotx/deg", 1, lambda a: b.rotx(a[0], "deg"))
    add("trotx", 4, lambda a: b.trotx(a[0], t=[a[1], a[2], a[3]]))
    add("troty", 4, lambda a: b.troty(a[0], t=[a[1], a[2], a[3]]))
    add("trotz", 4, lambda a: b.trotz(a[0], t=[a[1], a[2], a[3]]))
    add("trotz/deg", 1, lambda a: b.trotz(a[0], "deg"))
    # the translation as a NumPy array / tuple (the numeric path takes lists, tuples, 1-D, row and column arrays alike)
    _ar = lambda v: np.array(v, dtype=object if _anysym(v) else float)     # noqa
    add("trotx/t-array", 4, lambda a: b.trotx(a[0], t=_ar([a[1], a[2], a[3]])))
    add("troty/t-array", 4, lambda a: b.troty(a[0], t=_ar([a[1], a[2], a[3]])))
    add("trotz/t-array", 4, lambda a: b.trotz(a[0], t=_ar([a[1], a[2], a[3]])))
    add("trotx/t-column", 4, lambda a: b.trotx(a[0], t=_ar([a[1], a[2], a[3]]).reshape(3, 1)))
    add("trotz/t-tuple", 4, lambda a: b.trotz(a[0], t=(a[1], a[2], a[3])))
    add("SE3.Ry/t-array", 4, lambda a: L.SE3.Ry(a[0], t=_ar([a[1], a[2], a[3]])).A)
    add("transl/array", 3, lambda a: b.transl(_ar([a[0], a[1], a[2]])))
    add("skew/array", 3, lambda a: b.skew(_ar([a[0], a[1], a[2]])))
    add("skewa/array", 6, lambda a: b.skewa(_ar(list(a))))
    add("delta2tr/array", 6, lambda a: b.delta2tr(_ar(list(a))))
    add("transl/scalars", 3, lambda a: b.transl(a[0], a[1], a[2]))
    add("transl/vector", 3, lambda a: b.transl([a[0], a[1], a[2]]))
    add("eul2r/vector", 3, lambda a: b.eul2r([a[0], a[1], a[2]]))
    add("eul2r/scalars", 3, lambda a: b.eul2r(a[0], a[1], a[2]))
    add("eul2r/scalars/deg", 3, lambda a: b.eul2r(a[0], a[1], a[2], unit="deg"))
    add("eul2tr/scalars/deg", 3, lambda a: b.eul2tr(a[0], a[1], a[2], unit="deg"))
    add("eul2r/vector/deg", 3, lambda a: b.eul2r([a[0], a[1], a[2]], unit="deg"))
    add("eul2tr/vector", 3, lambda a: b.eul2tr([a[0], a[1], a[2]]))
    add("eul2tr/scalars", 3, lambda a: b.eul2tr(a[0], a[1], a[2]))
    add("delta2tr", 6, lambda a: b.delta2tr(list(a)))
    add("trinv", 4, lambda a: b.trinv(b.trotx(a[0], t=[a[1], a[2], a[3]])))
    add("trinv2", 3, lambda a: b.trinv2(_trot2(a[0], a[1], a[2])))
    # a symbolic pose matrix obtained by multiplying with a numeric (float) one: its constant entries are Float(1.0) / 0.0,
    # not the integers 1 / 0
    add("trinv2/numeric@sym", 3, lambda a: b.trinv2(refs.rt(refs.rot2(0.3), [0.5, -0.25]) @ _trot2(a[0], a[1], a[2])))
    add("trinv2/sym@numeric", 3, lambda a: b.trinv2(_trot2(a[0], a[1], a[2]) @ refs.rt(refs.rot2(0.3), [0.5, -0.25])))
    add("trinv/numeric@sym", 4, lambda a: b.trinv(refs.rt(refs.rotz(0.3), [0.5, -0.25, 2.0]) @ b.trotx(a[0], t=[a[1], a[2], a[3]])))
    add("trinv/sym@numeric", 4, lambda a: b.trinv(b.trotx(a[0], t=[a[1], a[2], a[3]]) @ refs.rt(refs.rotz(0.3), [0.5, -0.25, 2.0])))
    add("tr2delta/numeric@sym", 4, lambda a: b.tr2delta(refs.rt(refs.rotz(0.3), [0.5, -0.25, 2.0]) @ b.trotz(a[0], t=[a[1], a[2], a[3]])))
    add("tr2jac/numeric@sym", 4, lambda a: b.tr2jac(refs.rt(refs.rotz(0.3), [0.5, -0.25, 2.0]) @ b.troty(a[0], t=[a[1], a[2], a[3]])))
    add("tr2delta", 4, lambda a: b.tr2delta(b.trotz(a[0], t=[a[1], a[2], a[3]])))
    add("tr2delta/2", 4, lambda a: b.tr2delta(b.trotx(a[0]), b.trotz(a[1], t=[a[2], a[3], 1])))
    add("tr2jac", 4, lambda a: b.tr2jac(b.troty(a[0], t=[a[1], a[2], a[3]])))
    add("tr2jac/samebody", 4, lambda a: b.tr2jac(b.troty(a[0], t=[a[1], a[2], a[3]]), True))
    add("skew/3", 3, lambda a: b.skew([a[0], a[1], a[2]]))
    add("skew/1", 1, lambda a: b.skew([a[0]]))
    add("vex", 3, lambda a: b.vex(b.skew([a[0], a[1], a[2]])))
    add("skewa/3", 3, lambda a: b.skewa([a[0], a[1], a[2]]))
    add("skewa/6", 6, lambda a: b.skewa(list(a)))
    add("vexa", 6, lambda a: b.vexa(b.skewa(list(a))))
    add("norm", 3, lambda a: b.norm(np.array([a[0], a[1], a[2]], dtype=object)))
    add("norm/1", 1, lambda a: b.norm(np.array([a[0]], dtype=object)))
    add("norm/axis", 1, lambda a: b.norm(np.array([0, a[0], 0], dtype=object)))
    add("norm/repeated", 1, lambda a: b.norm(np.array([a[0], a[0], 0], dtype=object)))
    add("norm/product", 2, lambda a: b.norm(np.array([a[0] * a[1], 0, 0], dtype=object)))
    add("normsq/1", 1, lambda a: b.normsq(np.array([a[0]], dtype=object)))
    add("normsq", 3, lambda a: b.normsq(np.array([a[0], a[1], a[2]], dtype=object)))
    add("cross", 6, lambda a: b.cross(np.array(a[:3], dtype=object), np.array(a[3:], dtype=object)))
    add("qpow", 4, lambda a: b.qpow(np.array(a, dtype=object), 3))
    add("conj", 4, lambda a: b.conj(np.array(a, dtype=object)))
    # det is marked 'SymPy: supported' and reachable as base.det although it is missing from base.__all__
    add("op/det/2", 4, lambda a: b.det(np.array([[a[0], a[1]], [a[2], a[3]]], dtype=object if _anysym(a) else float)))
    add("op/det/3", 6, lambda a: b.det(np.array([[a[0], a[1], 1], [a[2], a[3], a[4]], [0, a[5], 2]], dtype=object if _anysym(a) else float)))
    # det of 4x4 arrays that are NOT poses (scaled / added / block-triangular with a corner other than 1)
    add("op/det(2*trotx)", 2, lambda a: b.det(b.trotx(a[0], t=[a[1], 1.0, 2.0]) * 2))
    add("op/det(trotx+troty)", 2, lambda a: b.det(b.trotx(a[0]) + b.troty(a[1])))
    add("op/det(trotz*s)", 2, lambda a: b.det(b.trotz(a[0]) * (a[1] * a[1] + 0.5)))
    add("op/det(skewa)", 3, lambda a: b.det(b.skewa([a[0], a[1], a[2], 0.5, 1.5, 2.5])))
    # integer powers of symbolic poses (negative powers need a matrix inverse of an object array and are not supported)
    add("op/SE3**0", 2, lambda a: ((L.SE3.Rx(a[0]) * L.SE3.Ty(a[1])) ** 0).A)
    add("op/SE3**1", 2, lambda a: ((L.SE3.Rx(a[0]) * L.SE3.Ty(a[1])) ** 1).A)
    add("op/SE3**2", 2, lambda a: ((L.SE3.Rx(a[0]) * L.SE3.Ty(a[1])) ** 2).A)
    add("op/SO3**0", 1, lambda a: (L.SO3.Ry(a[0]) ** 0).A)
    add("op/SO3**3", 1, lambda a: (L.SO3.Ry(a[0]) ** 3).A)
    add("op/det(rotx)", 1, lambda a: b.det(b.rotx(a[0])))       # sin^2 + cos^2: a composed expression, value only (pose.det() is marked 'not supported')
    # class members
    add("SE3.Rx", 1, lambda a: L.SE3.Rx(a[0]).A)
    add("SE3.Ry", 1, lambda a: L.SE3.Ry(a[0]).A)
    add("SE3.Rz", 1, lambda a: L.SE3.Rz(a[0]).A)
    add("SE3.Rx/t", 4, lambda a: L.SE3.Rx(a[0], t=[a[1], a[2], a[3]]).A)
    add("SE3.Tx", 1, lambda a: L.SE3.Tx(a[0]).A)
    add("SE3.Ty", 1, lambda a: L.SE3.Ty(a[0]).A)
    add("SE3.Tz", 1, lambda a: L.SE3.Tz(a[0]).A)
    add("SE3.Eul", 3, lambda a: L.SE3.Eul([a[0], a[1], a[2]]).A)
    add("SE3.RPY", 3, lambda a: L.SE3.RPY([a[0], a[1], a[2]]).A)
    add("SE3.Delta", 6, lambda a: L.SE3.Delta(list(a)).A)
    add("SE3.inv", 2, lambda a: (L.SE3.Rx(a[0]) * L.SE3.Tx(a[1])).inv().A)
    add("SE3.t", 2, lambda a: (L.SE3.Rx(a[0]) * L.SE3.Tx(a[1])).t)
    add("SO3.R", 1, lambda a: L.SO3.Rx(a[0]).R)
    add("SE3.Ad", 2, lambda a: (L.SE3.Rx(a[0]) * L.SE3.Ty(a[1])).Ad())
    add("SE3.jacob", 2, lambda a: (L.SE3.Rz(a[0]) * L.SE3.Ty(a[1])).jacob())
    add("Twist3.Rx", 1, lambda a: L.Twist3.Rx(a[0]).S)
    add("Twist3.Ry", 1, lambda a: L.Twist3.Ry(a[0]).S)
    add("Twist3.Rz", 1, lambda a: L.Twist3.Rz(a[0]).S)
    # the same vector arguments as tuples and as object / column arrays
    add("transl/tuple", 3, lambda a: b.transl((a[0], a[1], a[2])))
    add("transl/array", 3, lambda a: b.transl(np.array([a[0], a[1], a[2]], dtype=object if _anysym(a) else float)))
    add("trotz/t-tuple", 4, lambda a: b.trotz(a[0], t=(a[1], a[2], a[3])))
    add("eul2r/tuple", 3, lambda a: b.eul2r((a[0], a[1], a[2])))
    add("skew/tuple", 3, lambda a: b.skew((a[0], a[1], a[2])))
    add("skewa/tuple", 6, lambda a: b.skewa(tuple(a)))
    add("delta2tr/tuple", 6, lambda a: b.delta2tr(tuple(a)))
    add("cross/tuple", 6, lambda a: b.cross(tuple(a[:3]), tuple(a[3:])))
    add("normsq/tuple", 3, lambda a: b.normsq((a[0], a[1], a[2])))
    add("norm/list", 3, lambda a: b.norm([a[0], a[1], a[2]]))
    add("SE3.Rx/t-tuple", 4, lambda a: L.SE3.Rx(a[0], t=(a[1], a[2], a[3])).A)
    add("SE3.RPY/tuple", 3, lambda a: L.SE3.RPY((a[0], a[1], a[2])).A)
    add("SE3.Eul/tuple", 3, lambda a: L.SE3.Eul((a[0], a[1], a[2])).A)
    add("SE3.Rx/2", 2, lambda a: np.stack([np.asarray(x) for x in L.SE3.Rx([a[0], a[1]]).data]))
    add("SE3.Tx/2", 2, lambda a: np.stack([np.asarray(x) for x in L.SE3.Tx((a[0], a[1])).data]))
    # long angle sequences (vectorised constructors may switch code path with the length), both units
    def longseq(a, n):
        base_ = [a[0], a[1], a[2], a[0] + a[1] + 0.125, 2 * a[2] + 0.25, a[1] + 2 * a[0] + 0.375, 0.5, a[2] + 1, -a[0] - 0.0625]
        return [base_[i % len(base_)] + (i // len(base_)) for i in range(n)]
    for cname in ("SE3", "SO3"):
        for ax in ("Rx", "Ry", "Rz"):
            for n_ in (10, 33):
                for unit in ("rad", "deg"):
                    add("%s.%s/%d/%s" % (cname, ax, n_, unit), 3,
                        (lambda cname, ax, n_, unit: lambda a: np.stack([np.asarray(x) for x in getattr(getattr(L, cname), ax)(longseq(a, n_), unit).data]))(cname, ax, n_, unit))
    for ax in ("Tx", "Ty", "Tz"):
        add("SE3.%s/12" % ax, 3, (lambda ax: lambda a: np.stack([np.asarray(x) for x in getattr(L.SE3, ax)(longseq(a, 12)).data]))(ax))
    # a scalar combined with a pose
    add("op/SE3*s", 2, lambda a: L.SE3.Rx(a[0]) * a[1])
    add("op/s*SE3", 2, lambda a: a[1] * L.SE3.Rx(a[0]))
    add("op/SE3+s", 2, lambda a: L.SE3.Rx(a[0]) + a[1])
    add("op/s+SE3", 2, lambda a: a[1] + L.SE3.Rx(a[0]))
    add("op/SE3-s", 2, lambda a: L.SE3.Rx(a[0]) - a[1])
    add("op/s-SE3", 2, lambda a: a[1] - L.SE3.Rx(a[0]))
    add("op/SE3/s", 2, lambda a: L.SE3.Rx(a[0]) / (a[1] * a[1] + 1.5))
    add("op/SO3*s/num", 1, lambda a: L.SO3.Rx(0.3) * a[0])
    add("op/SE3*point/tuple", 3, lambda a: L.SE3.Rz(a[0]) * (a[1], a[2], 3.0))
    add("op/SE3*point/sym", 3, lambda a: (L.SE3.Rz(0.4) * L.SE3.Tx(1.5)) * [a[0], a[1], a[2]])
    # pose operators on symbolic values
    add("op/SE3*SE3", 3, lambda a: (L.SE3.Rx(a[0]) * L.SE3.Tz(a[1]) * L.SE3.Ry(a[2])).A)
    add("op/SE3*inv", 2, lambda a: (L.SE3.Rx(a[0]) * L.SE3.Tx(a[1]) * (L.SE3.Rx(a[0]) * L.SE3.Tx(a[1])).inv()).A)
    add("op/SE3*point", 2, lambda a: (L.SE3.Rz(a[0]) * L.SE3.Tx(a[1])) * [1.0, 2.0, 3.0])
    add("op/SO3*SO3", 2, lambda a: (L.SO3.Rx(a[0]) * L.SO3.Ry(a[1])).A)
    add("op/SO3*point", 1, lambda a: L.SO3.Rz(a[0]) * [1.0, 2.0, 3.0])
    add("op/SO3.inv", 1, lambda a: L.SO3.Rx(a[0]).inv().A)
    # simplification is cosmetic: the simplified object still evaluates to the numeric result (small constants are numbers too)
    add("op/SE3.simplify", 3, lambda a: (lambda E: E.simplify().A if _anysym(a) else E.A)(L.SE3.Rx(a[0]) * L.SE3(a[1], a[2], 0.0) * L.SE3.Ry(0.3)))
    add("op/SE3.simplify/T", 3, lambda a: (lambda E: E.simplify().A if _anysym(a) else E.A)(L.SE3.Tx(a[0]) * L.SE3(a[1], 0.0, a[2])))
    add("op/SO3.simplify", 2, lambda a: (lambda E: E.simplify().A if _anysym(a) else E.A)(L.SO3.Rx(a[0]) * L.SO3.Rz(a[1])))
    add("op/sym.simplify", 3, lambda a: np.array([b.sym.simplify(a[0] * a[1] + a[2]) if _anysym(a) else a[0] * a[1] + a[2]]))
    return E


def _anysym(a):
    import sympy
    return any(isinstance(v, sympy.Expr) for v in a)


def _trot2(th, x, y):
    import sympy
    b = L.base
    if any(isinstance(v, sympy.Expr) for v in (th, x, y)):
        c, s = b.sym.cos(th), b.sym.sin(th)
        return np.array([[c, -s, x], [s, c, y], [0, 0, 1]], dtype=object)
    return refs.rt(refs.rot2(th), [x, y])


_E = None


def table():
    global _E
    if _E is None:
        _E = entries()
    return _E


MARKED_BASE = None


def marked():
    b = L.base
    out = []
    for n in sorted(set(b.__all__) | {n for n in dir(b) if getattr(getattr(b, n), "__module__", "").startswith("spatialmath.base")}):
        if "SymPy: supported" in (inspect.getdoc(getattr(b, n)) or ""):
            out.append(n)
    return out


def extra_evidence(tier):
    names = {k.split("/")[0] for k in table()}
    return {"marked_base_functions": len(marked()), "entry_table": len(table()),
            "marked_but_not_in_table": [n for n in marked() if n not in names]}


def s_sym():
    names = sorted(table())
    pt = st.one_of(gens.fl(-3, 3), st.sampled_from([0.0, PI / 2, -PI / 2, PI, 1.0, -1.0]), gens.signed_logmag(-3, 3), gens.signed_logmag(-12, -4))
    return st.fixed_dictionaries({"kind": st.just("sym"), "entry": st.sampled_from(names), "point": st.lists(pt, min_size=6, max_size=6),
                                  "mask": st.lists(st.booleans(), min_size=6, max_size=6),
                                  "numtype": st.sampled_from(["float", "float", "np.float64", "np.int64", "np.int32", "int"]),
                                  "alt": st.lists(gens.fl(0.3, 1.3), min_size=6, max_size=6)})


def gen_all(tier):
    pts = [[0.3, -0.7, 1.1, 0.5, -1.3, 0.9], [PI / 2, 0.0, PI, -PI / 2, 1.0, 2.0], [0.4, 3e-11, -2e-12, 5e-11, 0.8, -7e-12]]
    for name in sorted(table()):
        for pt in pts:
            for mask in ([True] * 6, [True, False, True, False, True, False], [False, True, True, True, False, True]):
                yield {"kind": "sym", "entry": name, "point": pt, "mask": mask, "alt": [0.37, 0.91, 1.23, 0.58, 0.77, 1.09]}
        for nt in ("np.float64", "np.int64", "np.int32", "int"):
            for mask in ([True, False, True, False, True, False], [False, True, True, True, False, True], [False, True, False, False, True, False]):
                yield {"kind": "sym", "entry": name, "point": [0.3, -0.7, 1.1, 2.5, -1.3, 0.9], "mask": mask, "alt": [0.37, 0.91, 1.23, 0.58, 0.77, 1.09], "numtype": nt}


SYMHIST = {
    "SE3": (lambda a, b: L.SE3.Rx(a) * L.SE3.Ty(b), lambda a, b: L.SE3.Rz(a) * L.SE3.Tx(b)),
    "SO3": (lambda a, b: L.SO3.Rx(a) * L.SO3.Ry(b), lambda a, b: L.SO3.Rz(a) * L.SO3.Rx(b)),
}


def gen_symhist(tier):
    for cn in sorted(SYMHIST):
        for mut in probes.MUTATIONS:
            for numeric_partner in (True, False):
                yield {"kind": "symhist", "cls": cn, "mutation": mut, "numeric_partner": numeric_partner, "point": [0.3, -0.7, 1.1, 0.5]}


def _symhist(case):
    """symbolic pose objects are mutable lists too: a symbolic result may not depend on what the object held earlier"""
    import sympy
    cn = case["cls"]
    c = Checker("symhist", cls=cn, mutation=case["mutation"])
    a, b_, cc, d = sympy.symbols("a b c d", real=True)
    mkx, mky = SYMHIST[cn]
    X, Y = mkx(a, b_), mky(cc, d)
    P = mky(0.4, 0.6) if case["numeric_partner"] else mky(d, a)
    p3 = [1.0, 2.0, 3.0]
    calls = [("inv", lambda Z: Z.inv().A), ("X*P", lambda Z: (Z * P).A), ("P*X", lambda Z: (P * Z).A), ("X/P", lambda Z: (Z / P).A),
             ("P/X", lambda Z: (P / Z).A), ("inv*X", lambda Z: (Z.inv() * Z).A), ("X*p", lambda Z: Z * p3), ("inv*p", lambda Z: Z.inv() * p3), ("R", lambda Z: Z.R)]
    if cn == "SE3":
        calls += [("t", lambda Z: Z.t), ("Ad", lambda Z: Z.Ad())]
    first = {n_: probes.outcome(f, X) for n_, f in calls}
    try:
        probes.mutate(X, Y, case["mutation"])
    except Exception as e:  # noqa
        c.fail("mutation", "%s on a symbolic %s raised %s: %s" % (case["mutation"], cn, type(e).__name__, e))
        return c.out
    F = getattr(L, cn)([np.array(v, copy=True) for v in X.data], check=False)
    subs = dict(zip((a, b_, cc, d), [sympy.Float(v, 30) for v in case["point"]]))

    def num(o):
        if o[0] != "ok":
            return o
        return ("ok", np.array(sympy.Matrix(np.atleast_2d(np.asarray(o[1], dtype=object))).subs(subs).evalf(20), dtype=float))
    for n_, f in calls:
        oX, oF = probes.outcome(f, X)[0], probes.outcome(f, F)[0]
        if not probes.same(num(oX), num(oF), 1e-12):
            c.fail("%s/stale" % n_, "symbolic %s.%s after %s differs (at a=%.2f, ...) from the same call on a new object holding the same values" % (cn, n_, case["mutation"], case["point"][0]), call=n_)
    return c.out


def check_case(case):
    if case.get("kind") == "symhist":
        return _symhist(case)
    import sympy
    n, f = table()[case["entry"]]
    name = case["entry"]
    c = Checker("sym", entry=name)
    pt = case["point"][:n]
    mask = case["mask"][:n]
    if not any(mask):
        mask = [True] + mask[1:]
    syms = sympy.symbols("x0:%d" % n, real=True)
    # the numbers standing next to the symbols may be Python numbers or NumPy scalars (an element of an array is one)
    nt = case.get("numtype", "float")
    if name.startswith("op/s") and nt.startswith("np."):
        nt = "int" if "int" in nt else "float"     # a NumPy scalar as LEFT operand is dispatched by NumPy, not by the library
    if nt != "float":
        conv = {"np.float64": np.float64, "np.int64": np.int64, "np.int32": np.int32, "int": int}[nt]
        pt = [pt[i] if mask[i] else float(conv(round(pt[i]) if "int" in nt else pt[i])) for i in range(n)]
        typed = [None if mask[i] else conv(round(pt[i]) if "int" in nt else pt[i]) for i in range(n)]
        c.feat(numtype=nt)
    else:
        typed = pt
    args = [syms[i] if mask[i] else typed[i] for i in range(n)]
    subs = {syms[i]: sympy.Float(pt[i], 30) for i in range(n) if mask[i]}
    try:
        want = f(list(pt))
    except Exception:  # noqa
        return c.out                 # the numeric path itself rejects this point (not this property's business)
    ok, out = c.lib(name + "/symbolic_call", f, args)
    if not ok:
        return c.out
    try:
        W = np.asarray(want, dtype=float)
    except Exception as e:  # noqa
        raise HarnessError("numeric result of %s is not numeric: %r (%s)" % (name, want, e))
    O = np.asarray(out, dtype=object)
    if not c.true(name + "/shape", O.shape == W.shape, "symbolic result has shape %s, numeric %s" % (O.shape, W.shape)):
        return c.out
    # structural constants: exactly 0 / 1 at two generic points
    try:
        W2 = np.asarray(f(list(case["alt"][:n])), dtype=float)
        W3 = np.asarray(f([x + 0.123 for x in case["alt"][:n]]), dtype=float)
    except Exception:  # noqa
        W2 = W3 = None
    sc = max(1.0, float(np.max(np.abs(W))) if W.size else 1.0)
    flatO, flatW = O.ravel(), W.ravel()
    for idx in range(flatO.size):
        e = flatO[idx]
        try:
            val = float(sympy.sympify(e).subs(subs).evalf(30))
        except Exception as ex:  # noqa
            c.fail(name + "/evaluate", "entry %d = %r cannot be evaluated at the point (%s)" % (idx, e, ex))
            break
        if not abs(val - flatW[idx]) <= 1e-12 * sc:
            c.fail(name + "/value", "entry %d: symbolic %r evaluates to %.17g, numeric call gives %.17g" % (idx, e, val, flatW[idx]), err=abs(val - flatW[idx]))
            break
        if W2 is not None and W2.shape == W.shape and not name.startswith("op/"):
            for const in (0.0, 1.0):
                if W2.ravel()[idx] == const and W3.ravel()[idx] == const and all(mask):
                    okc = False
                    try:
                        okc = bool(sympy.sympify(e) == sympy.Integer(int(const))) or (isinstance(e, (int, float)) and e == const)
                    except Exception:  # noqa
                        pass
                    if not okc:
                        # numerically zero-valued expressions such as 1.0*x - 1.0*x do not count; floats like 0.0 do
                        try:
                            okc = sympy.simplify(sympy.sympify(e) - const) == 0 and not sympy.sympify(e).free_symbols
                        except Exception:  # noqa
                            okc = False
                    if not okc:
                        c.fail(name + "/structural", "entry %d is structurally %g but the symbolic result has %r" % (idx, const, e))
                        return c.out
    return c.out


def classify(case):
    if case.get("kind") == "symhist":
        return {"kind:symhist": True, "symhist:" + case["cls"]: True, "nontrivial": True}
    n, _ = table()[case["entry"]]
    mask = case["mask"][:n]
    pt = case["point"][:n]
    nsym = sum(mask) or 1
    special = any(abs(abs(x) - s) < 1e-12 for x in pt for s in (0.0, PI / 2, PI))
    lab = {"entry:" + case["entry"]: True, "mixed": 0 < sum(mask) < n, "special_point": special, ">=2 symbols": nsym >= 2}
    lab["nontrivial"] = bool(nsym >= 2 or lab["mixed"] or special)
    return lab


def subchecks(tier):
    return [
        Sub("all_entries", gen=gen_all, shards=(8, 16)),
        Sub("symbolic_history", gen=gen_symhist, shards=(4, 8)),
        Sub("sym", strategy=s_sym(), n=(150, 1500), shards=(16, 16), shrink=False),
    ]
