"""
C01  Closure: every constructed or composed value is a valid group member.
"""
import math

import numpy as np
from hypothesis import strategies as st

from .. import gens, refs
from ..runner import Sub
from . import probes
from .common import L, Checker, arr

PROPERTY_ID = "C01"
RULE = ("a case = (entry point, arguments): every public constructor of base functions and of SO2/SE2/SO3/SE3/UnitQuaternion "
        "(axis rotations, RPY x 3 orders + aliases, Euler, axis-angle, Euler vector, two-vector frame, exp, q2r, unit, trnorm, "
        "interp, random with the seed in the case) with angles from the special-biased generator incl. many turns and values "
        "within 1e-12 of 0, +-pi/2, +-pi, axes / axis pairs of length 1e-3..1e6 (pairs >= 1e-3 rad apart), translations 0..1e6, "
        "both units, scalar and vector angle arguments; plus expression trees over {*, /, inv, **n, prod, interp, norm} on "
        "objects built by those constructors. Oracle: every element of every result is orthonormal with det +1, last row "
        "[0..0 1], unit quaternion norm, finite, correct shape, never None - to 1e-9. Non-trivial: angle within 1e-6 of a "
        "special value, or axis length outside [0.5,2], or |t|>1e3, or deg, or non-default order, or tree depth>=2, or "
        "multi-valued.")
RULE = RULE + probes.RULE_TEXT + (probes.AUG_TEXT if PROPERTY_ID in probes.AUG_PROPS else "") + probes.VARIANT_TEXT + probes.OWN_TEXT + probes.EXTRA_RULES.get(PROPERTY_ID, "")
ASSUMPTIONS = ["validity predicate only (class identity of results is C08's business)",
               "axis lengths in (2e-15, 1e-3) are not generated: the statement acknowledges the absolute zero threshold",
               "trnorm input is a member perturbed by at most 1e-2"]

PI = math.pi
ORDERS = ["zyx", "xyz", "yxz", "vehicle", "arm", "camera"]
TOL = 1e-9


def params():
    return st.fixed_dictionaries({
        "a": st.lists(gens.angles(), min_size=3, max_size=3),
        "avec": st.lists(gens.angles(), min_size=1, max_size=4),
        "axis": st.one_of(gens.axis3(-3, 6), gens.axis3(-3, 6), gens.axis3(-3, -2)),          # extra weight on short axes (products of two short lengths)
        "sep": st.one_of(gens.logmag(-3, 0.49), gens.fl(1e-3, PI - 1e-3),
                         # at and next to a right angle: pi/2 +- 10^-k
                         st.tuples(st.sampled_from([-1.0, 0.0, 1.0]), st.integers(1, 13)).map(lambda t: PI / 2 + t[0] * 10.0 ** (-t[1]))),
        "len2": st.one_of(st.just(1.0), gens.logmag(-3, 6), gens.logmag(-3, -1)),
        "perp": gens.direction3(),
        "t": gens.trans(3, -6, 6),
        "unit": st.sampled_from(["rad", "deg"]),
        "order": st.sampled_from(ORDERS),
        "s": st.one_of(st.sampled_from([0.0, 1.0]), gens.fl(0, 1)),
        "seed": st.integers(0, 2 ** 31 - 1),
        "nvals": st.integers(1, 4),
        "rotvec_mag": st.one_of(gens.rot_angles(-15), gens.angles()),
        # four components of any size, or (one case in four) scaled to a length of 1 +- m x 10^-k: nearly unit already, which a
        # normalising constructor must still normalise
        "q": st.one_of(st.lists(gens.signed_logmag(-3, 3), min_size=4, max_size=4), st.lists(gens.signed_logmag(-3, 3), min_size=4, max_size=4),
                       st.lists(gens.signed_logmag(-3, 3), min_size=4, max_size=4),
                       st.tuples(st.lists(gens.signed_logmag(-1, 1), min_size=4, max_size=4), st.sampled_from([-1.0, 1.0]), st.sampled_from([1.0, 2.0, 3.0, 5.0, 8.0]),
                                 st.integers(3, 12)).map(lambda t: [x / math.sqrt(sum(y * y for y in t[0])) * (1.0 + t[1] * t[2] * 10.0 ** (-t[3])) for x in t[0]])),
        "X": gens.pose3(t_hi=6), "Y": gens.pose3(t_hi=6),
        "X2": gens.pose2(t_hi=6), "Y2": gens.pose2(t_hi=6),
        "noise": gens.logmag(-15, -2), "pattern": st.lists(gens.fl(-1, 1), min_size=9, max_size=9),
        "n": st.integers(-8, 8),
        "close": gens.logmag(-9, 0),
        "vform": st.sampled_from(VFORMS),
    })


# --------------------------------------------------------------------------- #
# entry points: name -> function(p) returning a list of (value, kind)
#   kind in {"SO3","SE3","SO2","SE2","q"}; value may be an array, a list of arrays or a library object

def _k(p):
    return 180.0 / PI if p["unit"] == "deg" else 1.0


def _second_axis(p):
    """a vector at angle p['sep'] from p['axis'] with length p['len2'] (non-parallel by construction)"""
    a = refs.unit(p["axis"])
    perp = np.cross(a, refs.unit(p["perp"]))
    if np.linalg.norm(perp) < 1e-3:
        perp = np.cross(a, [1.0, 0, 0]) if abs(a[0]) < 0.9 else np.cross(a, [0, 1.0, 0])
    perp = perp / np.linalg.norm(perp)
    return (math.cos(p["sep"]) * a + math.sin(p["sep"]) * perp) * p["len2"]


def _rotvec(p):
    return refs.unit(p["axis"]) * p["rotvec_mag"]


def _noisy(p, se):
    T = refs.pose3_of(p["X"])
    M = T.copy() if se else T[:3, :3].copy()
    M[:3, :3] += np.array(p["pattern"]).reshape(3, 3) * p["noise"]
    return M


def _qsmall(p):
    """unit quaternion of the small rotation p['close'] about p['axis']"""
    h = 0.5 * p["close"]
    return np.r_[math.cos(h), math.sin(h) * refs.unit(p["axis"])]


def _uq_interp_close(p):
    """UnitQuaternion(R0).interp(s, UnitQuaternion(R1)) for two close rotations; next to a half turn the two extracted
    quaternions can be antipodal (q and -q of nearly the same rotation): the long way round between them is a full turn about
    no particular axis, which the library may refuse - only then is an exception not judged"""
    U0 = L.UnitQuaternion(refs.pose3_of(p["X"])[:3, :3].copy())
    U1 = L.UnitQuaternion(_close_to(p, False))
    if float(np.dot(np.asarray(U0.vec, dtype=float), np.asarray(U1.vec, dtype=float))) < -1.0 + 1e-6:
        return _maybe(lambda: U0.interp(p["s"], U1), "q")
    return [(U0.interp(p["s"], U1), "q")]


def _close_to(p, se):
    """a pose whose rotation differs from X by the small angle p['close'] about p['axis']"""
    T = refs.pose3_of(p["X"])
    R = refs.polish(T[:3, :3] @ refs.rodrigues(p["axis"], p["close"]))
    return refs.rt(R, arr(p["t"])) if se else R


def _seed(p):
    np.random.seed(p["seed"])


B = lambda: L.base  # noqa


def _maybe(f, kind):
    """[(value, kind)] or [] when the call raises (for inputs whose documented answer is an exception)"""
    try:
        return [(f(), kind)]
    except Exception:  # noqa
        return []

VFORMS = ["list", "list", "list", "tuple", "array", "float32", "float32"]


def V(p, v, default="list"):
    """a vector argument in the container / element type chosen for this case (closure must not depend on it).  float32 /
    float16 / int32 arrays hold the value rounded to that type (that rounded vector is then the argument); a vector that
    becomes zero, non-finite or leaves the stated length range is passed in the default form instead."""
    form = p.get("vform") or default
    if form == "list" and default == "array":
        form = "array"
    a = np.array(v, dtype=float)
    if form == "list":
        return [float(x) for x in a]
    if form == "tuple":
        return tuple(float(x) for x in a)
    if form in ("float32", "float16", "int32"):
        with np.errstate(all="ignore"):
            b_ = np.rint(a).astype(np.int32) if form == "int32" else a.astype(np.dtype(form))
        n0, n1 = float(np.linalg.norm(a)), float(np.linalg.norm(b_.astype(float)))
        if np.all(np.isfinite(b_.astype(float))) and n1 > 0 and 0.5 * n0 <= n1 <= 2 * n0 and n1 >= 1e-3:
            return b_
    return a

ENTRIES = {
    # --- base, 3D
    "rotx": lambda p: [(B().rotx(p["a"][0] * _k(p), p["unit"]), "SO3")],
    "roty": lambda p: [(B().roty(p["a"][0] * _k(p), p["unit"]), "SO3")],
    "rotz": lambda p: [(B().rotz(p["a"][0] * _k(p), p["unit"]), "SO3")],
    "trotx": lambda p: [(B().trotx(p["a"][0] * _k(p), p["unit"], t=V(p, p["t"])), "SE3")],
    "troty": lambda p: [(B().troty(p["a"][0] * _k(p), p["unit"], t=V(p, p["t"])), "SE3")],
    "trotz": lambda p: [(B().trotz(p["a"][0] * _k(p), p["unit"], t=V(p, p["t"])), "SE3")],
    "rpy2r": lambda p: [(B().rpy2r([x * _k(p) for x in p["a"]], unit=p["unit"], order=p["order"]), "SO3"),
                        (B().rpy2r(*[x * _k(p) for x in p["a"]], unit=p["unit"], order=p["order"]), "SO3")],
    "rpy2tr": lambda p: [(B().rpy2tr([x * _k(p) for x in p["a"]], unit=p["unit"], order=p["order"]), "SE3")],
    "eul2r": lambda p: [(B().eul2r([x * _k(p) for x in p["a"]], unit=p["unit"]), "SO3"),
                        (B().eul2r(*[x * _k(p) for x in p["a"]], unit=p["unit"]), "SO3")],
    "eul2tr": lambda p: [(B().eul2tr([x * _k(p) for x in p["a"]], unit=p["unit"]), "SE3")],
    "angvec2r": lambda p: [(B().angvec2r(p["a"][0] * _k(p), V(p, p["axis"]), unit=p["unit"]), "SO3")],
    "angvec2tr": lambda p: [(B().angvec2tr(p["a"][0] * _k(p), V(p, p["axis"]), unit=p["unit"]), "SE3")],
    "oa2r": lambda p: [(B().oa2r(V(p, _second_axis(p)), V(p, p["axis"])), "SO3")],
    "oa2tr": lambda p: [(B().oa2tr(V(p, _second_axis(p)), V(p, p["axis"])), "SE3")],
    "trexp/so3": lambda p: [(B().trexp(V(p, _rotvec(p))), "SO3"), (B().trexp(refs.skew3(_rotvec(p))), "SO3")],
    "trexp/se3": lambda p: [(B().trexp(V(p, np.r_[arr(p["t"]), _rotvec(p)], "array")), "SE3"), (B().trexp(refs.hat6(arr(p["t"]), _rotvec(p))), "SE3")],
    "trexp/theta": lambda p: [(B().trexp(refs.unit(p["axis"]), p["a"][0]), "SO3"),
                              (B().trexp(np.r_[arr(p["t"]), refs.unit(p["axis"])], p["a"][0]), "SE3")],
    # theta given with a twist that is NOT a unit twist (translational part of unit length, rotational part of any length):
    # the documented answer is an exception; whatever is returned instead must still be a group member
    "trexp/theta/nonunit": lambda p: (_maybe(lambda: B().trexp(np.r_[refs.unit(p["perp"]), arr(p["axis"])], p["a"][0]), "SE3")
                                      + _maybe(lambda: B().trexp(refs.hat6(refs.unit(p["perp"]), arr(p["axis"])), p["a"][0]), "SE3")
                                      + _maybe(lambda: B().trexp(np.r_[arr(p["t"]), arr(p["axis"])], p["a"][0]), "SE3")
                                      + _maybe(lambda: B().trexp(arr(p["axis"]), p["a"][0]), "SO3")
                                      + _maybe(lambda: B().trexp2(np.r_[refs.unit(p["perp"])[:2] if any(p["perp"][:2]) else [1.0, 0.0], p["len2"]], p["a"][0]), "SE2")),
    "rodrigues": lambda p: [(B().rodrigues(V(p, _rotvec(p))), "SO3"), (B().rodrigues(refs.unit(p["axis"]), p["a"][0]), "SO3"),
                            (B().rodrigues([p["a"][0]]), "SO2")],
    "q2r(unit)": lambda p: [(B().q2r(B().unit(V(p, p["q"], "array"))), "SO3")],
    "unit": lambda p: [(B().unit(V(p, p["q"], "array")), "q")],
    "trnorm": lambda p: [(B().trnorm(_noisy(p, False)), "SO3"), (B().trnorm(_noisy(p, True)), "SE3")],
    "trinterp": lambda p: [(B().trinterp(refs.pose3_of(p["X"]), refs.pose3_of(p["Y"]), p["s"]), "SE3"),
                           (B().trinterp(None, refs.pose3_of(p["Y"]), p["s"]), "SE3"),
                           (B().trinterp(refs.pose3_of(p["X"])[:3, :3].copy(), refs.pose3_of(p["Y"])[:3, :3].copy(), p["s"]), "SO3")],
    "interp/close": lambda p: [(B().trinterp(refs.pose3_of(p["X"]), _close_to(p, True), p["s"]), "SE3"),
                               (B().trinterp(refs.pose3_of(p["X"])[:3, :3].copy(), _close_to(p, False), p["s"]), "SO3"),
                               (B().slerp(refs.q_of(p["X"]["rot"]), B().r2q(_close_to(p, False)), p["s"], True), "q"),
                               (L.SE3(_close_to(p, True)).interp(p["s"], L.SE3(refs.pose3_of(p["X"]))), "SE3"),
                               (L.SO3(_close_to(p, False)).interp(p["s"], L.SO3(refs.pose3_of(p["X"])[:3, :3].copy())), "SO3"),
                               ] + _uq_interp_close(p) + [
                               
                               (L.SO3(refs.rodrigues(p["axis"], p["close"])).interp(p["s"]), "SO3"),
                               (L.UnitQuaternion(refs.rodrigues(p["axis"], p["close"])).interp(p["s"]), "q")],
    # nearly opposite quaternions (the same or nearly the same rotation written with the other sign; a rotation just short of a
    # full turn): the blend weights are ill-conditioned there, whatever comes back must still be of unit length
    "interp/antipodal": lambda p: (_maybe(lambda: L.UnitQuaternion([float(x) for x in refs.q_of(p["X"]["rot"])]).interp(
                                       p["s"], L.UnitQuaternion([float(-x) for x in refs.qmul(refs.q_of(p["X"]["rot"]), _qsmall(p))])), "q")
                                   + _maybe(lambda: L.UnitQuaternion([float(x) for x in refs.q_of(p["X"]["rot"])]).interp(
                                       p["s"], L.UnitQuaternion([float(-x) for x in refs.qmul(refs.q_of(p["X"]["rot"]), _qsmall(p))]), shortest=True), "q")
                                   + _maybe(lambda: L.UnitQuaternion([float(-x) for x in _qsmall(p)]).interp(p["s"]), "q")
                                   + _maybe(lambda: B().slerp(refs.q_of(p["X"]["rot"]), -refs.qmul(refs.q_of(p["X"]["rot"]), _qsmall(p)), p["s"]), "q")),
    "slerp": lambda p: [(B().slerp(refs.q_of(p["X"]["rot"]), refs.q_of(p["Y"]["rot"]), p["s"], True), "q")],
    "rand": lambda p: (_seed(p), [(B().rand(), "q"), (B().q2r(B().rand()), "SO3")])[1],
    "transl": lambda p: [(B().transl(V(p, p["t"])), "SE3"), (B().transl(*p["t"]), "SE3")],
    # --- base, 2D
    "rot2": lambda p: [(B().rot2(p["a"][0] * _k(p), p["unit"]), "SO2")],
    "trot2": lambda p: [(B().trot2(p["a"][0] * _k(p), p["unit"], t=V(p, p["t"][:2])), "SE2")],
    "xyt2tr": lambda p: [(B().xyt2tr([p["t"][0], p["t"][1], p["a"][0] * _k(p)], p["unit"]), "SE2")],
    "transl2": lambda p: [(B().transl2(V(p, p["t"][:2])), "SE2"), (B().transl2(p["t"][0], p["t"][1]), "SE2")],
    "trexp2": lambda p: [(B().trexp2([p["rotvec_mag"]]), "SO2"), (B().trexp2(np.r_[arr(p["t"][:2]), p["rotvec_mag"]]), "SE2"),
                         (B().trexp2(refs.hat3(arr(p["t"][:2]), p["rotvec_mag"])), "SE2")],
    "trinterp2": lambda p: [(B().trinterp2(refs.pose2_of(p["X2"]), refs.pose2_of(p["Y2"]), p["s"]), "SE2"),
                            (B().trinterp2(None, refs.pose2_of(p["Y2"])[:2, :2].copy(), p["s"]), "SO2")],
    # --- classes
    "SO3.Rx": lambda p: [(L.SO3.Rx(p["a"][0] * _k(p), p["unit"]), "SO3"), (L.SO3.Rx([x * _k(p) for x in p["avec"]], p["unit"]), "SO3")],
    "SO3.Ry": lambda p: [(L.SO3.Ry(p["a"][0] * _k(p), p["unit"]), "SO3"), (L.SO3.Ry([x * _k(p) for x in p["avec"]], p["unit"]), "SO3")],
    "SO3.Rz": lambda p: [(L.SO3.Rz(p["a"][0] * _k(p), p["unit"]), "SO3"), (L.SO3.Rz([x * _k(p) for x in p["avec"]], p["unit"]), "SO3")],
    "SE3.Rx": lambda p: [(L.SE3.Rx(p["a"][0] * _k(p), p["unit"], t=V(p, p["t"])), "SE3"), (L.SE3.Rx([x * _k(p) for x in p["avec"]], p["unit"]), "SE3")],
    "SE3.Ry": lambda p: [(L.SE3.Ry(p["a"][0] * _k(p), p["unit"], t=V(p, p["t"])), "SE3"), (L.SE3.Ry([x * _k(p) for x in p["avec"]], p["unit"]), "SE3")],
    "SE3.Rz": lambda p: [(L.SE3.Rz(p["a"][0] * _k(p), p["unit"], t=V(p, p["t"])), "SE3"), (L.SE3.Rz([x * _k(p) for x in p["avec"]], p["unit"]), "SE3")],
    "UQ.Rx": lambda p: [(L.UnitQuaternion.Rx(p["a"][0] * _k(p), p["unit"]), "q"), (L.UnitQuaternion.Rx([x * _k(p) for x in p["avec"]], p["unit"]), "q")],
    "UQ.Ry": lambda p: [(L.UnitQuaternion.Ry(p["a"][0] * _k(p), p["unit"]), "q")],
    "UQ.Rz": lambda p: [(L.UnitQuaternion.Rz(p["a"][0] * _k(p), p["unit"]), "q")],
    "RPY": lambda p: [(getattr(L, c).RPY([x * _k(p) for x in p["a"]], order=p["order"], unit=p["unit"]), k) for c, k in (("SO3", "SO3"), ("SE3", "SE3"), ("UnitQuaternion", "q"))],
    "Eul": lambda p: [(getattr(L, c).Eul([x * _k(p) for x in p["a"]], unit=p["unit"]), k) for c, k in (("SO3", "SO3"), ("SE3", "SE3"), ("UnitQuaternion", "q"))],
    "AngVec": lambda p: [(getattr(L, c).AngVec(p["a"][0] * _k(p), V(p, p["axis"]), unit=p["unit"]), k) for c, k in (("SO3", "SO3"), ("SE3", "SE3"), ("UnitQuaternion", "q"))],
    "EulerVec": lambda p: [(getattr(L, c).EulerVec(V(p, _rotvec(p))), k) for c, k in (("SO3", "SO3"), ("SE3", "SE3"), ("UnitQuaternion", "q"))],
    "OA": lambda p: [(getattr(L, c).OA(V(p, _second_axis(p)), V(p, p["axis"])), k) for c, k in (("SO3", "SO3"), ("SE3", "SE3"), ("UnitQuaternion", "q"))],
    "Exp": lambda p: [(L.SO3.Exp(V(p, _rotvec(p), "array")), "SO3"), (L.SE3.Exp(V(p, np.r_[arr(p["t"]), _rotvec(p)], "array")), "SE3"),
                      (L.SO2.Exp(np.array([p["rotvec_mag"]])), "SO2"), (L.SE2.Exp(np.r_[arr(p["t"][:2]), p["rotvec_mag"]]), "SE2")],
    "Rand": lambda p: (_seed(p), [(L.SO3.Rand(N=p["nvals"]), "SO3"), (L.SE3.Rand(N=p["nvals"]), "SE3"), (L.UnitQuaternion.Rand(N=p["nvals"]), "q"),
                                  (L.SO2.Rand(N=p["nvals"]), "SO2"), (L.SE2.Rand(N=p["nvals"]), "SE2")])[1],
    "SE3(x,y,z)": lambda p: [(L.SE3(*p["t"]), "SE3"), (L.SE3(V(p, p["t"])), "SE3"), (L.SE3.Tx(p["t"][0]), "SE3"), (L.SE3.Ty([p["t"][1], 1.0]), "SE3"), (L.SE3.Tz(p["t"][2]), "SE3")],
    "UQ(s,v)": lambda p: [(L.UnitQuaternion(p["q"][0], V(p, p["q"][1:])), "q"), (L.UnitQuaternion(V(p, p["q"])), "q")],
    "UQ(R)": lambda p: [(L.UnitQuaternion(refs.pose3_of(p["X"])[:3, :3].copy()), "q"), (L.UnitQuaternion(refs.pose3_of(p["X"])), "q"),
                        (L.UnitQuaternion(L.SO3(refs.pose3_of(p["X"])[:3, :3].copy())), "q")],
    "SO2(theta)": lambda p: [(L.SO2(p["a"][0] * _k(p), unit=p["unit"]), "SO2"), (L.SO2([x * _k(p) for x in p["avec"]], unit=p["unit"]), "SO2")],
    "SE2(x,y,theta)": lambda p: [(L.SE2(p["t"][0], p["t"][1], p["a"][0] * _k(p), unit=p["unit"]), "SE2"), (L.SE2([p["t"][0], p["t"][1], p["a"][0] * _k(p)], unit=p["unit"]), "SE2"),
                                 (L.SE2(p["t"][0], p["t"][1]), "SE2")],
    "conversions": lambda p: [(L.UnitQuaternion(refs.pose3_of(p["X"])[:3, :3].copy()).SO3(), "SO3"), (L.UnitQuaternion(refs.pose3_of(p["X"])[:3, :3].copy()).SE3(), "SE3"),
                              (L.SO2(refs.rot2(p["X2"]["angle"])).SE2(), "SE2"), (L.SE2(refs.pose2_of(p["X2"]), check=False).SE3(), "SE3"),
                              (L.SE3.SO3(refs.pose3_of(p["X"])[:3, :3].copy()), "SE3"), (L.Twist3(np.r_[arr(p["t"]), _rotvec(p)]).SE3(), "SE3"),
                              (L.SE3.Delta(np.r_[arr(p["t"]), _rotvec(p)] * 1e-3 / max(1.0, float(np.max(np.abs(p["t"]))), abs(p["rotvec_mag"]))), "SE3")],
}
ENTRY_NAMES = sorted(ENTRIES)


def s_entry():
    return st.fixed_dictionaries({"kind": st.just("entry"), "entry": st.sampled_from(ENTRY_NAMES), "p": params()})


# ---- expression trees over objects built by library constructors -----------

LEAF_CTORS = ["Rx", "Ry", "Rz", "RPY", "Eul", "AngVec", "EulerVec", "Rand", "ref", "RxN", "RandN"]


def tree(depth):
    leaf = st.tuples(st.just("leaf"), st.integers(0, 2), st.sampled_from(LEAF_CTORS)).map(list)

    def ext(ch):
        return st.one_of(
            st.tuples(st.just("mul"), ch, ch).map(list), st.tuples(st.just("mul"), ch, ch).map(list),
            st.tuples(st.just("div"), ch, ch).map(list), st.tuples(st.just("inv"), ch).map(list),
            st.tuples(st.just("pow"), ch, st.integers(-8, 8)).map(list),
            # nested large powers: rounding accumulates coherently (X^64 is ~1e-14 off the group, still a member to 1e-9)
            st.tuples(st.just("pow"), st.tuples(st.just("pow"), ch, st.sampled_from([-8, -7, 7, 8])).map(list), st.sampled_from([-8, -5, 7, 8])).map(list),
            st.tuples(st.just("pow"), st.tuples(st.just("pow"), st.tuples(st.just("pow"), ch, st.sampled_from([-8, 8])).map(list), st.sampled_from([-8, 8])).map(list),
                      st.sampled_from([-8, 6, 8])).map(list),
            st.tuples(st.just("interp"), ch, gens.fl(0, 1)).map(list),
            st.tuples(st.just("norm"), ch).map(list),
            st.tuples(st.just("prod"), ch, ch, ch).map(list))
    return st.recursive(leaf, ext, max_leaves=2 ** depth // 2)


def depth_of(t):
    if t[0] == "leaf":
        return 0
    return 1 + max(depth_of(x) for x in t[1:] if isinstance(x, list))


def s_tree(maxdepth):
    return st.fixed_dictionaries({"kind": st.just("tree"), "cls": st.sampled_from(["SO3", "SE3", "SO2", "SE2", "UnitQuaternion"]),
                                  "p": st.lists(params(), min_size=3, max_size=3),
                                  "tree": tree(maxdepth).filter(lambda t: depth_of(t) <= maxdepth)})


def _leaf(cn, ctor, p):
    cls = getattr(L, cn)
    k = _k(p)
    if cn in ("SO2", "SE2"):
        if ctor in ("RxN", "RandN"):
            angs = [x * k for x in (p["a"] + p["avec"])[:3]]
            if cn == "SO2":
                return L.SO2(angs, unit=p["unit"])
            return L.SE2([refs.rt(refs.rot2(a / k), [p["t"][0], p["t"][1]]) for a in angs], check=False)
        if cn == "SO2":
            return L.SO2(p["a"][0] * k, unit=p["unit"]) if ctor != "ref" else L.SO2(refs.rot2(p["X2"]["angle"]))
        return L.SE2(p["t"][0], p["t"][1], p["a"][0] * k, unit=p["unit"]) if ctor != "ref" else L.SE2(refs.pose2_of(p["X2"]), check=False)
    if ctor == "RxN":       # multi-valued leaf (always three values, so that sequences broadcast)
        X = cls.Rx([x * k for x in (p["a"] + p["avec"])[:3]], p["unit"])
    elif ctor == "RandN":
        np.random.seed(p["seed"])
        return cls.Rand(N=3)
    elif ctor in ("Rx", "Ry", "Rz"):
        X = getattr(cls, ctor)(p["a"][0] * k, p["unit"])
    elif ctor == "RPY":
        X = cls.RPY([x * k for x in p["a"]], order=p["order"], unit=p["unit"])
    elif ctor == "Eul":
        X = cls.Eul([x * k for x in p["a"]], unit=p["unit"])
    elif ctor == "AngVec":
        X = cls.AngVec(p["a"][0] * k, list(p["axis"]), unit=p["unit"])
    elif ctor == "EulerVec":
        X = cls.EulerVec(list(_rotvec(p)))
    elif ctor == "Rand":
        np.random.seed(p["seed"])
        X = cls.Rand()
    else:
        T = refs.pose3_of(p["X"])
        if cn == "UnitQuaternion":
            return L.UnitQuaternion([float(x) for x in refs.q_of(p["X"]["rot"])])
        return cls(T if cn == "SE3" else T[:3, :3].copy(), check=False)
    if cn == "SE3" and ctor not in ("Rand", "RandN"):
        X = L.SE3(list(p["t"])) * X
    return X


def _eval(t, cn, ps, seen):
    k = t[0]
    if k == "leaf":
        r = _leaf(cn, t[2], ps[t[1]])
    elif k == "mul":
        r = _eval(t[1], cn, ps, seen) * _eval(t[2], cn, ps, seen)
    elif k == "div":
        r = _eval(t[1], cn, ps, seen) / _eval(t[2], cn, ps, seen)
    elif k == "inv":
        r = _eval(t[1], cn, ps, seen).inv()
    elif k == "pow":
        r = _eval(t[1], cn, ps, seen) ** t[2]
    elif k == "interp":
        x = _eval(t[1], cn, ps, seen)
        # UnitQuaternion.interp is documented for a single value only
        if cn == "UnitQuaternion" and len(x) == 1 and float(np.asarray(x.vec, dtype=float)[0]) < -1.0 + 1e-9:
            # minus identity: a full turn about no particular axis - the path from the identity to it is not defined (the
            # quaternions are antipodal), the library may refuse; not a case of this property
            r = x
        else:
            r = x.interp(t[2]) if not (cn == "UnitQuaternion" and len(x) > 1) else x
    elif k == "norm":
        x = _eval(t[1], cn, ps, seen)
        r = x.norm() if cn in ("SO3", "SE3") else (x.unit() if cn == "UnitQuaternion" else x)
    else:
        xs = [_eval(u, cn, ps, seen) for u in t[1:]]
        if cn == "UnitQuaternion":
            r = xs[0] * xs[1] * xs[2]
        elif any(len(x) > 1 for x in xs):
            big = [x for x in xs if len(x) > 1][0]
            r = big.prod()                       # product of the values of one multi-valued operand
        else:
            r = getattr(L, cn)(xs).prod()
    seen.append((r, k))
    return r


# --------------------------------------------------------------------------- #

def validate(c, site, val, kind):
    """every element of val must be a valid member of kind"""
    items = None
    if isinstance(getattr(val, "data", None), list):
        items = val.data
        if not c.true(site + "/nonempty", len(items) >= 1, "object holds no value"):
            return
    elif isinstance(val, list):
        items = val
    else:
        items = [val]
    shape = {"SO3": (3, 3), "SE3": (4, 4), "SO2": (2, 2), "SE2": (3, 3), "q": (4,)}[kind]
    for i, a in enumerate(items):
        if a is None:
            c.fail(site + "/none", "element %d is None" % i)
            return
        try:
            A = np.asarray(a, dtype=float)
        except Exception as e:  # noqa
            c.fail(site + "/numeric", "element %d is %r (%s)" % (i, a, e))
            return
        if A.shape != shape:
            c.fail(site + "/shape", "element %d has shape %s, expected %s" % (i, A.shape, shape))
            return
        if not np.all(np.isfinite(A)):
            c.fail(site + "/finite", "element %d is not finite" % i)
            return
        if kind == "q":
            res = abs(float(np.linalg.norm(A)) - 1.0)
        elif kind in ("SO3", "SO2"):
            res = refs.so_residual(A)
        else:
            res = refs.se_residual(A)
        if not res <= TOL:
            c.fail(site + "/invalid", "element %d leaves the group: residual %.3g\n%s" % (i, res, np.array2string(A, precision=17)), residual=res)
            return


def check_case(case):
    if case.get("kind") in ("hist", "aug", "variant", "own"):
        return probes.run(case, PROPERTY_ID)
    if case["kind"] == "entry":
        name = case["entry"]
        p = case["p"]
        c = Checker("entry", entry=name, unit=p["unit"], rotvec_mag=abs(p["rotvec_mag"]), axis_len=float(np.linalg.norm(p["axis"])))
        try:
            outs = ENTRIES[name](p)
        except Exception as e:  # noqa
            c.fail(name + "/raised", "constructor raised %s: %s" % (type(e).__name__, e), exc=type(e).__name__)
            return c.out
        for j, (val, kind) in enumerate(outs):
            validate(c, "%s[%d]" % (name, j), val, kind)
        return c.out
    cn = case["cls"]
    c = Checker("tree", cls=cn, depth=depth_of(case["tree"]))
    seen = []
    try:
        _eval(case["tree"], cn, case["p"], seen)
    except Exception as e:  # noqa
        c.fail("raised", "expression raised %s: %s" % (type(e).__name__, e), exc=type(e).__name__)
    kind = "q" if cn == "UnitQuaternion" else cn
    for r, k in seen:
        validate(c, "node:" + k, r, kind)
        if c.out:
            break
    return c.out


def _near_special(a):
    for s in (0.0, PI / 2, PI):
        if abs(abs(math.remainder(a, 2 * PI)) - s) < 1e-6:
            return True
    return False


def classify(case):
    if case.get("kind") in ("hist", "aug", "variant", "own"):
        return probes.classify(case)
    lab = {"kind:" + case["kind"]: True}
    if case["kind"] == "entry":
        p = case["p"]
        al = math.sqrt(sum(x * x for x in p["axis"]))
        lab.update({"entry:" + case["entry"]: True, "deg": p["unit"] == "deg", "near_special_angle": any(_near_special(a) for a in p["a"]),
                    "axis_len_not_unit": not (0.5 <= al <= 2), "|t|>1e3": max(abs(x) for x in p["t"]) > 1e3,
                    "nondefault_order": p["order"] != "zyx", "many_turns": any(abs(a) > 2 * PI for a in p["a"]),
                    "tiny_rotvec": 0 < abs(p["rotvec_mag"]) < 1e-12})
        lab["nontrivial"] = bool(lab["deg"] or lab["near_special_angle"] or lab["axis_len_not_unit"] or lab["|t|>1e3"] or lab["nondefault_order"])
    else:
        d = depth_of(case["tree"])
        multi = "RxN" in str(case["tree"]) or "RandN" in str(case["tree"])
        lab.update({"cls:" + case["cls"]: True, "depth>=2": d >= 2, "multi_valued_tree": multi})
        lab["nontrivial"] = d >= 2 or multi
    return lab


def s_near_unit_q():
    """the entries that take a quaternion-like 4-vector, always with a vector whose length is 1 +- m x 10^-k"""
    nu = st.tuples(st.lists(gens.signed_logmag(-1, 1), min_size=4, max_size=4), st.sampled_from([-1.0, 1.0]), st.sampled_from([1.0, 2.0, 3.0, 5.0, 8.0]),
                   st.integers(3, 12)).map(lambda t: [x / math.sqrt(sum(y * y for y in t[0])) * (1.0 + t[1] * t[2] * 10.0 ** (-t[3])) for x in t[0]])
    return st.tuples(s_entry(), st.sampled_from(["UQ(s,v)", "unit", "q2r(unit)"]), nu).map(lambda t: dict(t[0], entry=t[1], p=dict(t[0]["p"], q=t[2])))


def subchecks(tier):
    return [
        Sub("entry", strategy=s_entry(), n=(600, 20000), shards=(10, 16)),
        Sub("near_unit_quaternions", strategy=s_near_unit_q(), n=(120, 2000), shards=(2, 4)),
        Sub("tree", strategy=s_tree(3 if tier == "quick" else 5), n=(250, 8000), shards=(6, 16)),
        *probes.subs(PROPERTY_ID),
    ]
