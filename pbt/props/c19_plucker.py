"""
C19  Pluecker lines: incidence, projection and rigid transformation are consistent.
"""
import math

import numpy as np
from hypothesis import strategies as st

from .. import gens, refs
from ..runner import Sub
from . import probes
from .common import L, Checker, arr

PROPERTY_ID = "C19"
RULE = ("lines from two points (coordinates <= 1e3, >= 1e-3 apart), from point + direction (length 1e-3..1e3) and from two planes; "
        "rigid motions; query points; line pairs in general, exactly parallel (w2 = k w1), intersecting (second line through a "
        "point of the first) and coincident position; planes from point + normal with |w.n| >= 1e-2 |w||n|. Oracle: elementary "
        "geometry of the defining data (point-line distance, orthogonal projection, transformed points, constructed ground "
        "truth for predicates) with residuals <= 1e-9 x data magnitude; predicates that take a tolerance are given one scaled "
        "to the data. Non-trivial: line not through the origin, direction not unit, not axis-aligned.")
RULE = RULE + probes.RULE_TEXT + probes.VARIANT_TEXT + probes.OWN_TEXT + probes.EXTRA_RULES.get(PROPERTY_ID, "")
ASSUMPTIONS = ["the intersection predicate ^ / intersects() is not in the statement and is not judged",
               "'different' lines differ by at least 5% of the scale so that no predicate is asked a borderline question",
               "library convention: moment v = w x p for a point p of the line, plane n.x + d = 0"]

TOL = 1e-9


def pt():
    return st.lists(st.one_of(gens.signed_logmag(-3, 3), gens.signed_logmag(-1, 1), st.just(0.0)), min_size=3, max_size=3)


def dirn():
    return st.tuples(gens.direction3(), st.one_of(st.just(1.0), gens.logmag(-3, 3))).map(lambda t: [x * t[1] for x in t[0]])


def s_line():
    return st.fixed_dictionaries({"kind": st.just("line"), "p": pt(), "w": dirn(), "lam": gens.fl(-10, 10), "x": pt(),
                                  "T": gens.pose3(t_hi=3), "k": gens.logmag(-2, 2), "n": dirn(), "tilt": gens.fl(-1.5, 1.5), "q": pt(),
                                  "lams": st.lists(gens.fl(-10, 10), min_size=1, max_size=4),
                                  "kp": st.one_of(st.just(1.0), gens.logmag(-5, 1)), "kp1": st.one_of(st.just(1.0), gens.logmag(-5, 2)),
                                  "kp2": st.one_of(st.just(1.0), gens.logmag(-5, 2))})


def s_pair():
    return st.fixed_dictionaries({"kind": st.just("pair"), "p1": pt(), "w1": dirn(), "p2": pt(), "w2": dirn(),
                                  "rel": st.sampled_from(["general", "parallel", "antiparallel", "intersecting", "coincident", "parallel_close", "nearly_parallel"]),
                                  "angle": gens.logmag(-8, -3), "skewed": st.booleans(),
                                  "gap": gens.logmag(-9, 0),
                                  "k": gens.logmag(-2, 2), "lam": gens.fl(-5, 5), "off": dirn()})


def check_case(case):
    if case.get("kind") in ("hist", "aug", "variant", "own"):
        return probes.run(case, PROPERTY_ID)
    return {"line": _line, "pair": _pair}[case["kind"]](case)


def dist_point_line(x, p, w):
    wh = refs.unit(w)
    d = x - p
    return float(np.linalg.norm(d - wh * np.dot(d, wh)))


def on_line(c, site, x, p, w, S, **kw):
    d = dist_point_line(np.asarray(x, dtype=float), p, w)
    return c.true(site, d <= TOL * S, "point %s is %.3g away from the line" % (x, d), err=d, **kw)


def _line(case):
    p, w = arr(case["p"]), arr(case["w"])
    wn = float(np.linalg.norm(w))
    wh = w / wn
    q2 = p + w
    S = max(1.0, float(np.max(np.abs(p))), float(np.max(np.abs(q2))))
    c = Checker("line", wlen=wn, pmax=float(np.max(np.abs(p))))
    lines = {}
    ok, l1 = c.lib("PointDir", L.Plucker.PointDir, list(p), list(w))
    if ok:
        lines["PointDir"] = l1
    ok, l2 = c.lib("PQ", L.Plucker.PQ, list(q2), list(p))      # direction P - Q = w
    if ok:
        lines["PQ"] = l2
    # two planes containing the line
    n1 = np.cross(wh, refs.unit(case["n"]))
    if np.linalg.norm(n1) < 1e-2:
        n1 = np.cross(wh, [1.0, 0, 0]) if abs(wh[0]) < 0.9 else np.cross(wh, [0, 1.0, 0])
    n1 = refs.unit(n1)
    n2 = np.cross(wh, n1)
    # the same two planes with arbitrarily scaled coefficient vectors (non-unit normals, scaled offsets)
    # (a plane is its coefficient 4-vector up to ANY positive factor: planes through points millimetres apart have tiny ones)
    pl1, pl2 = np.r_[n1, -np.dot(n1, p)] * case["k"], np.r_[n2, -np.dot(n2, p)] * (0.5 + abs(case["tilt"]) * 3.0)
    ok, l3 = c.lib("Planes", L.Plucker.Planes, list(pl1), list(pl2))
    if ok:
        lines["Planes"] = l3
    # a plane is its coefficient 4-vector up to ANY positive factor (a plane through three points millimetres apart has a
    # normal of 1e-5): the line of two such planes exists and has the same direction and the same point closest to the
    # origin (scale-free quantities; the direction LENGTH of that line is outside the quantified range, so nothing that
    # depends on it - contains(), closest() - is judged)
    k1, k2 = case.get("kp1", 1.0), case.get("kp2", 1.0)
    if k1 != 1.0 or k2 != 1.0:
        oks, ls = c.lib("Planes/scaled", L.Plucker.Planes, list(pl1 * k1), list(pl2 * k2))
        if oks and c.true("Planes/scaled/type", type(ls) is L.Plucker and len(ls) == 1, "Planes gave %r" % (type(ls),)):
            ws, vs = np.asarray(ls.w, dtype=float), np.asarray(ls.v, dtype=float)
            nws = float(np.linalg.norm(ws))
            if c.true("Planes/scaled/direction_nonzero", nws > 0 and np.all(np.isfinite(ws)), "direction %r" % (ws,)):
                c.eq("Planes/scaled/direction", np.cross(ws / nws, wh), np.zeros(3), TOL)
                pp_true = p - wh * float(np.dot(p, wh))
                c.eq("Planes/scaled/principal_point", np.cross(vs, ws) / (nws * nws), pp_true, TOL * 10, S)
    x = arr(case["x"])
    Sx = max(S, float(np.max(np.abs(x))))
    for name, ln in lines.items():
        if not c.true(name + "/type", type(ln) is L.Plucker and len(ln) == 1, "%s gave %r" % (name, type(ln))):
            continue
        v, ww = np.asarray(ln.v, dtype=float), np.asarray(ln.w, dtype=float)
        # direction parallel to w, Pluecker constraint
        c.eq(name + "/direction", np.cross(refs.unit(ww), wh), np.zeros(3), TOL)
        c.eq(name + "/constraint", float(np.dot(v, ww)), 0.0, TOL, max(1.0, float(np.linalg.norm(ww)) ** 2) * S)
        c.eq(name + "/moment", v, np.cross(ww, p), TOL, max(1.0, float(np.linalg.norm(ww))) * S)
        # defining points and point(lambda) lie on the line
        for lam in [0.0, case["lam"]] + list(case["lams"]):
            okp, P = c.lib(name + "/point", ln.point, lam)
            if okp:
                P = np.asarray(P, dtype=float)
                if c.true(name + "/point/shape", P.shape == (3, 1), "point(lam) shape %s" % (P.shape,)):
                    on_line(c, name + "/point/on_line", P[:, 0], p, w, max(S, abs(lam)))
        okp, P = c.lib(name + "/point/vector", ln.point, list(case["lams"]))
        if okp:
            P = np.asarray(P, dtype=float)
            if c.true(name + "/point/vector/shape", P.shape == (3, len(case["lams"])), "point(list) shape %s" % (P.shape,)):
                for j, lam in enumerate(case["lams"]):
                    c.eq(name + "/point/vector=scalar", P[:, j], np.asarray(ln.point(lam), dtype=float)[:, 0], 1e-12, max(S, abs(lam)))
        okc, r = c.lib(name + "/contains", lambda: ln.contains(list(p), tol=TOL * S * max(1.0, float(np.linalg.norm(ww)))))
        if okc:
            c.true(name + "/contains/defining", bool(r), "line does not contain its defining point")
        off = p + 0.05 * S * n1
        okc, r = c.lib(name + "/contains", lambda: ln.contains(list(off), tol=TOL * S * max(1.0, float(np.linalg.norm(ww)))))
        if okc:
            c.true(name + "/contains/offline", not bool(r), "line contains a point 5%% of the scale away from it")
        # 3xN array form: one boolean per column, equal to the single-point answers
        ctol = TOL * S * max(1.0, float(np.linalg.norm(ww)))
        allcols = [p, off, p + wh * case["lam"], off + wh * case["lam"], p - wh * 0.5 * case["lam"]]
        allwant = [True, False, True, False, True]
        for ncol in (2, 3, 4, 5):                          # every column count (a 3x1 column is a single point), the square 3x3 case included
            cols = np.stack(allcols[:ncol], axis=1)
            okc, r = c.lib(name + "/contains/matrix", lambda: ln.contains(cols.copy(), tol=ctol * max(1.0, abs(case["lam"]))))
            if okc:
                try:
                    got = [bool(b) for b in r]
                except Exception:  # noqa
                    got = None
                c.true(name + "/contains/matrix", got == allwant[:ncol],
                       "contains(3x%d array of on/off/on/off/on-line points) gave %r" % (ncol, r), ncol=ncol)
        # principal point: on the line, orthogonal to the direction, closest to the origin
        okpp, pp = c.lib(name + "/pp", lambda: ln.pp)
        if okpp:
            pp = np.asarray(pp, dtype=float)
            on_line(c, name + "/pp/on_line", pp, p, w, S)
            c.eq(name + "/pp/orthogonal", float(np.dot(pp, wh)), 0.0, TOL, S)
            c.eq(name + "/pp/value", pp, p - wh * np.dot(p, wh), TOL, S)
            okd, ppd = c.lib(name + "/ppd", lambda: ln.ppd)
            if okd:
                c.eq(name + "/ppd", ppd, dist_point_line(np.zeros(3), p, w), TOL, S)
        # closest point = orthogonal projection
        okc, cl = c.lib(name + "/closest", ln.closest, list(x))
        if okc:
            try:
                cp, cd, clam = np.asarray(cl.p, dtype=float), float(cl.d), float(cl.lam)
            except Exception as e:  # noqa
                c.fail(name + "/closest/fields", "closest() returned %r (%s)" % (cl, e))
            else:
                proj = p + wh * np.dot(x - p, wh)
                c.eq(name + "/closest/p", cp.ravel(), proj, TOL, Sx)
                c.eq(name + "/closest/d", cd, dist_point_line(x, p, w), TOL, Sx)
                okq, Pl = c.lib(name + "/closest/point(lam)", ln.point, clam)
                if okq:
                    c.eq(name + "/closest/lam", np.asarray(Pl, dtype=float)[:, 0], proj, TOL, Sx)
        # query points ON the line (its defining point, point(lambda)) and a hair off it: the reported distance is the
        # distance (0, or the tiny offset), to the stated relative 1e-9 - not the root of a difference of squares
        for qn, xq in (("defining", p.copy()), ("point(lam)", p + wh * case["lam"]), ("hair_off", p + wh * case["lam"] + n1 * 3e-7 * S)):
            okc2, cl2 = c.lib(name + "/closest/on_line", ln.closest, list(xq))
            if okc2:
                try:
                    c.eq(name + "/closest/on_line/d", float(cl2.d), dist_point_line(xq, p, w), TOL, max(S, float(np.max(np.abs(xq)))), query=qn)
                    c.eq(name + "/closest/on_line/p", np.asarray(cl2.p, dtype=float).ravel(), p + wh * np.dot(xq - p, wh), TOL, max(S, float(np.max(np.abs(xq)))), query=qn)
                except Exception as e:  # noqa
                    c.fail(name + "/closest/fields", "closest() returned %r (%s)" % (cl2, e))
        # rigid transformation: T*L passes through T*P and T*Q
        T = refs.pose3_of(case["T"])
        okt, lt = c.lib(name + "/SE3*L", lambda: L.SE3(T.copy(), check=False) * ln)
        if okt and c.true(name + "/SE3*L/type", type(lt) is L.Plucker and len(lt) == 1, "SE3*Plucker gave %s" % type(lt).__name__):
            St = max(S, float(np.max(np.abs(T[:3, 3]))))
            tv, tw = np.asarray(lt.v, dtype=float), np.asarray(lt.w, dtype=float)
            Tp, Tq = T[:3, :3] @ p + T[:3, 3], T[:3, :3] @ q2 + T[:3, 3]
            c.eq(name + "/SE3*L/direction", tw, T[:3, :3] @ ww, TOL, max(1.0, float(np.linalg.norm(ww))))
            c.eq(name + "/SE3*L/moment", tv, np.cross(tw, Tp), TOL, max(1.0, float(np.linalg.norm(ww))) * St)
            c.eq(name + "/SE3*L/through_TQ", np.cross(tw, Tq), tv, TOL, max(1.0, float(np.linalg.norm(ww))) * St)
        # equality under positive rescaling, inequality for reversed / displaced lines
        k = case["k"]
        oke, same = c.lib(name + "/rescaled", L.Plucker.PointDir, list(p), list(w * k))
        if oke:
            okq, e = c.lib(name + "/==", lambda: ln == same)
            if okq:
                c.true(name + "/==/rescaled", bool(e) is True, "line != the same line with direction scaled by %.3g" % k, k=k)
            okq, e = c.lib(name + "/!=", lambda: ln != same)
            if okq:
                c.true(name + "/!=/rescaled", bool(e) is False, "!= is True for the same line with direction scaled by %.3g" % k, k=k)
        oke, rev = c.lib(name + "/reversed", L.Plucker.PointDir, list(p), list(-w))
        if oke:
            okq, e = c.lib(name + "/==", lambda: ln == rev)
            if okq:
                c.true(name + "/==/reversed", bool(e) is False, "line == its reversal")
        oke, dis = c.lib(name + "/displaced", L.Plucker.PointDir, list(p + 0.05 * S * n1), list(w))
        if oke:
            okq, e = c.lib(name + "/==", lambda: ln == dis)
            if okq:
                c.true(name + "/==/displaced", bool(e) is False, "line == a parallel line 5% of the scale away")
        # line / plane intersection
        nrm = refs.unit(math.cos(case["tilt"]) * wh + math.sin(case["tilt"]) * n1) * float(np.linalg.norm(case["n"])) * case.get("kp", 1.0)
        if abs(np.dot(refs.unit(nrm), wh)) >= 1e-2:
            qq = arr(case["q"])
            Sq = max(S, float(np.max(np.abs(qq))))
            okp, plane = c.lib("Plane.PN", L.Plane.PN, list(qq), list(nrm))
            if okp:
                nn = float(np.linalg.norm(nrm))
                okc, r = c.lib("Plane.contains", lambda: plane.contains(qq.copy(), tol=TOL * Sq * nn))
                if okc:
                    c.true("Plane.contains/defining", bool(r), "plane does not contain the point it was built from")
                okc, r = c.lib("Plane.contains", lambda: plane.contains(qq + 0.05 * Sq * refs.unit(nrm), tol=TOL * Sq * nn))
                if okc:
                    c.true("Plane.contains/offplane", not bool(r), "plane contains a point 5%% of the scale off it")
                c.eq("Plane.PN/normal", np.cross(np.asarray(plane.n, dtype=float), nrm), np.zeros(3), TOL, max(1.0, nn * nn))
                coeff = np.r_[nrm, -np.dot(nrm, qq)]
                for pform, parg in (("Plane", plane), ("list", [float(x) for x in coeff]), ("array", coeff.copy())):
                  oki, ip = c.lib(name + "/intersect_plane", ln.intersect_plane, parg)
                  c.feat(plane_form=pform)
                  if oki and c.true(name + "/intersect_plane/notnone", ip is not None, "intersect_plane returned None for a non-parallel plane"):
                      ipp = np.asarray(ip.p, dtype=float)
                      t_true = np.dot(qq - p, nrm) / np.dot(wh, nrm)
                      want = p + wh * t_true
                      Si = max(Sq, float(np.max(np.abs(want))))
                      c.eq(name + "/intersect_plane/p", ipp, want, TOL * 10, Si / abs(np.dot(refs.unit(nrm), wh)))
                      okl, Pl = c.lib(name + "/intersect_plane/point(lam)", ln.point, float(ip.lam))
                      if okl:
                          c.eq(name + "/intersect_plane/lam", np.asarray(Pl, dtype=float)[:, 0], want, TOL * 10, Si / abs(np.dot(refs.unit(nrm), wh)))
    # a plane exactly parallel to the line (normal along a coordinate axis on which the direction has no component): no intersection
    zero_axes = [j for j in range(3) if w[j] == 0.0]
    if zero_axes and "PointDir" in lines:
        e = np.zeros(3)
        e[zero_axes[0]] = 1.0
        okn, r = c.lib("PointDir/intersect_plane/parallel", lines["PointDir"].intersect_plane, [float(e[0]), float(e[1]), float(e[2]), 1.0 + float(abs(p[zero_axes[0]]))])
        if okn:
            c.true("PointDir/intersect_plane/parallel", r is None, "intersect_plane with an exactly parallel plane returned %r instead of None" % (r,))
    # plane through three points
    a, b_, cc = p, p + w, p + n1 * max(1.0, wn)
    okp, pl3 = c.lib("Plane.P3", L.Plane.P3, np.stack([a, b_, cc], axis=1))
    if okp:
        S3 = max(S, float(np.max(np.abs(cc))))
        nn = max(1.0, float(np.linalg.norm(np.asarray(pl3.n, dtype=float))))
        for j, X in enumerate((a, b_, cc)):
            okc, r = c.lib("Plane.P3/contains", lambda: pl3.contains(X.copy(), tol=TOL * S3 * nn * 10))
            if okc:
                c.true("Plane.P3/contains", bool(r), "plane through three points does not contain point %d" % j)
    return c.out


def _pair(case):
    p1, w1 = arr(case["p1"]), arr(case["w1"])
    rel = case["rel"]
    k = case["k"]
    u1 = refs.unit(w1)
    p2, w2 = arr(case["p2"]), arr(case["w2"])
    if rel == "parallel":
        w2 = w1 * k
    elif rel == "parallel_close":
        # parallel lines a small distance apart: gap x data magnitude, 1e-9 .. 1 (distinct lines, however close)
        w2 = w1 * k
        perp = np.cross(u1, refs.unit(case["off"]))
        if np.linalg.norm(perp) < 1e-2:
            perp = np.cross(u1, [1.0, 0, 0]) if abs(u1[0]) < 0.9 else np.cross(u1, [0, 1.0, 0])
        perp = refs.unit(perp)
        p2 = p1 + perp * case.get("gap", 1e-3) * max(1.0, float(np.max(np.abs(p1)))) + u1 * case["lam"]
    elif rel == "nearly_parallel":
        # directions 1e-8 .. 1e-3 rad apart (10 .. 1e6 times the stated tolerance): NOT parallel, whichever sense; the
        # values of distance / common perpendicular are ill-conditioned there and are not judged, only the predicates
        perp = np.cross(u1, refs.unit(case["off"]))
        if np.linalg.norm(perp) < 1e-2:
            perp = np.cross(u1, [1.0, 0, 0]) if abs(u1[0]) < 0.9 else np.cross(u1, [0, 1.0, 0])
        perp = refs.unit(perp)
        th = case.get("angle", 1e-6)
        w2 = (u1 * math.cos(th) + perp * math.sin(th)) * float(np.linalg.norm(w1)) * k * (-1.0 if case["lam"] < 0 else 1.0)
        if not case.get("skewed", True):
            p2 = p1 + u1 * case["lam"]
    elif rel == "antiparallel":
        w2 = -w1 * k
    elif rel == "intersecting":
        p2 = p1 + u1 * case["lam"]
    elif rel == "coincident":
        p2 = p1 + u1 * case["lam"]
        w2 = w1 * k
    u2 = refs.unit(w2)
    sinang = float(np.linalg.norm(np.cross(u1, u2)))
    if rel in ("general", "intersecting") and sinang < 5e-2:
        return []                         # not a borderline question: generic pairs are at least ~3 degrees apart
    S = max(1.0, float(np.max(np.abs(p1))), float(np.max(np.abs(p2))))
    c = Checker("pair", rel=rel, sin_angle=sinang)
    ok1, l1 = c.lib("PointDir", L.Plucker.PointDir, list(p1), list(w1))
    ok2, l2 = c.lib("PointDir", L.Plucker.PointDir, list(p2), list(w2))
    if not (ok1 and ok2):
        return c.out
    par = rel in ("parallel", "antiparallel", "coincident", "parallel_close")
    n1, n2 = float(np.linalg.norm(w1)), float(np.linalg.norm(w2))
    if rel == "nearly_parallel":
        c.feat(angle=case.get("angle", 1e-6))
        for site, f in (("isparallel", lambda: l1.isparallel(l2)), ("|", lambda: l1 | l2), ("|/swapped", lambda: l2 | l1)):
            okp, r = c.lib(site, f)
            if okp:
                c.true("nearly_parallel/" + site, bool(r) is False, "%s says parallel for directions %.3g rad apart" % (site, case.get("angle", 1e-6)))
        okc, cp = c.lib("commonperp", l1.commonperp, l2)
        if okc:
            c.true("nearly_parallel/commonperp", cp is not None, "commonperp returned None for directions %.3g rad apart" % case.get("angle", 1e-6))
        okx, rx = c.lib("^", lambda: l1 ^ l2)
        if okx:
            c.true("^/bool", isinstance(rx, (bool, np.bool_)), "l1 ^ l2 gave %r (%s)" % (rx, type(rx).__name__))
        return c.out
    # parallelism
    okp, r = c.lib("isparallel", lambda: l1.isparallel(l2, tol=TOL * max(1.0, n1 * n2)))
    if okp:
        c.true("isparallel", bool(r) == par, "isparallel gave %r for %s lines" % (r, rel))
    okp, r = c.lib("|", lambda: l1 | l2)
    if okp:
        c.true("|", bool(r) == par, "l1 | l2 gave %r for %s lines (|w1|=%.3g |w2|=%.3g)" % (r, rel, n1, n2), w1len=n1, w2len=n2)
    # the intersection predicate answers with a bool for every relation (its value is not judged here)
    okx, rx = c.lib("^", lambda: l1 ^ l2)
    if okx:
        c.true("^/bool", isinstance(rx, (bool, np.bool_)), "l1 ^ l2 gave %r (%s) for %s lines" % (rx, type(rx).__name__, rel))
    # distance
    if par:
        dtrue = float(np.linalg.norm(np.cross(u1, p2 - p1)))
    else:
        nrm = np.cross(u1, u2)
        dtrue = abs(float(np.dot(p2 - p1, nrm))) / float(np.linalg.norm(nrm))
    okd, d = c.lib("distance", l1.distance, l2)
    if okd:
        try:
            df = float(d)
        except Exception:  # noqa
            c.fail("distance/scalar", "distance returned %r" % (d,))
        else:
            c.eq("distance/value", df, dtrue, TOL * (2 if par else 10), S / (1.0 if par else max(sinang, 1e-300)))
    # common perpendicular
    okc, cp = c.lib("commonperp", l1.commonperp, l2)
    if okc:
        if par:
            c.true("commonperp/parallel", cp is None, "commonperp of parallel lines returned %r" % (cp,))
        elif c.true("commonperp/type", type(cp) is L.Plucker and len(cp) == 1, "commonperp gave %r" % (cp,)):
            cw, cv = np.asarray(cp.w, dtype=float), np.asarray(cp.v, dtype=float)
            cu = refs.unit(cw)
            c.eq("commonperp/constraint", float(np.dot(cv, cw)), 0.0, TOL * 10, max(1.0, float(np.dot(cw, cw))) * S / sinang)
            c.eq("commonperp/orthogonal1", float(np.dot(cu, u1)), 0.0, TOL)
            c.eq("commonperp/orthogonal2", float(np.dot(cu, u2)), 0.0, TOL)
            # feet of the true common perpendicular
            nrm = np.cross(u1, u2)
            A = np.stack([u1, -u2, nrm], axis=1)
            sol = np.linalg.solve(A, p2 - p1)
            f1 = p1 + u1 * sol[0]
            f2 = p2 + u2 * sol[1]
            cpp = np.cross(cv, cw) / np.dot(cw, cw)            # a point of the returned line
            Sf = max(S, float(np.max(np.abs(f1))), float(np.max(np.abs(f2))))
            c.true("commonperp/meets1", dist_point_line(f1, cpp, cw) <= TOL * 10 * Sf / sinang, "common perpendicular misses line 1 by %.3g" % dist_point_line(f1, cpp, cw))
            c.true("commonperp/meets2", dist_point_line(f2, cpp, cw) <= TOL * 10 * Sf / sinang, "common perpendicular misses line 2 by %.3g" % dist_point_line(f2, cpp, cw))
    # equality; != is its negation for every pair
    okn, ne = c.lib("!=", lambda: l1 != l2)
    oke, e = c.lib("==", lambda: l1 == l2)
    if okn and oke:
        c.true("!=/negates==", bool(ne) is (not bool(e)), "%s lines: == gives %r and != gives %r" % (rel, e, ne))
    # the same line with the opposite orientation is a different oriented line
    okr, lrev = c.lib("PointDir/reversed", L.Plucker.PointDir, list(p1 + u1 * case["lam"]), list(-w1 * k))
    if okr:
        for opn, f_, want_ in (("==", lambda: l1 == lrev, False), ("!=", lambda: l1 != lrev, True), ("==/swapped", lambda: lrev == l1, False), ("!=/swapped", lambda: lrev != l1, True)):
            oko, r_ = c.lib("reversed/" + opn, f_)
            if oko:
                c.true("reversed/" + opn, bool(r_) is want_, "line %s the same line reversed gave %r" % (opn, r_))
    if oke:
        if rel == "coincident":
            c.true("==/coincident", bool(e) is True, "coincident lines (second built from another point, direction x %.3g) compare unequal" % k, k=k, lam=case["lam"])
        elif rel in ("general", "antiparallel") or (rel == "parallel" and dtrue > 0.05 * S) or (rel == "intersecting"):
            c.true("==/different", bool(e) is False, "%s lines compare equal" % rel)
    return c.out


def classify(case):
    if case.get("kind") in ("hist", "aug", "variant", "own"):
        return probes.classify(case)
    if case["kind"] == "line":
        p, w = case["p"], case["w"]
        wl = math.sqrt(sum(x * x for x in w))
        lab = {"kind:line": True, "through_origin": not any(p), "unit_dir": abs(wl - 1) < 1e-9, "axis_aligned": sum(1 for x in w if x != 0) == 1}
        lab["nontrivial"] = bool(any(p) and abs(wl - 1) > 1e-9 and not lab["axis_aligned"])
        return lab
    lab = {"kind:pair": True, "rel:" + case["rel"]: True}
    lab["nontrivial"] = any(case["p1"]) and any(case["p2"])
    return lab


def subchecks(tier):
    return [
        Sub("line", strategy=s_line(), n=(300, 10000), shards=(8, 16)),
        Sub("pair", strategy=s_pair(), n=(400, 10000), shards=(6, 16)),
        *probes.subs(PROPERTY_ID),
    ]
