"""
C13  Lie-algebra maps, adjoint and differential motion are consistent.
"""
import math
from fractions import Fraction

import numpy as np
import scipy.linalg
from hypothesis import strategies as st

from .. import gens, refs
from ..runner import Sub
from . import probes
from .common import L, Checker, arr, tmag

PROPERTY_ID = "C13"
RULE = ("kinds: hatvee (vectors of length 1/3/6 incl. exact integers: vex(skew v)=v, vexa(skewa v)=v, linearity, "
        "skew(a)b=a x b, cross/norm/normsq/colvec vs definitions), adjoint (T, T1, T2 over SE(3), |t|<=1e3, twist S: "
        "homomorphism, inverse, Ad(T)S=vee(T[S]T^-1), exp(ad S)=Ad(exp S), tr2jac), delta (|d| in 1e-9..1e-2: "
        "tr2delta/delta2tr round trip, two-argument form, first-order agreement with log, SE3.delta/Delta). "
        "Non-trivial: |t|>10 and rotation about a non-coordinate axis (adjoint), all components non-zero (hatvee), "
        "rotational and translational parts both non-zero (delta).")
RULE = RULE + probes.RULE_TEXT + (probes.AUG_TEXT if PROPERTY_ID in probes.AUG_PROPS else "") + probes.VARIANT_TEXT + probes.OWN_TEXT + probes.EXTRA_RULES.get(PROPERTY_ID, "")
ASSUMPTIONS = ["scipy.linalg.expm (6x6) and NumPy linear algebra are trusted; reference adjoint/exponential formulas in pbt/refs.py are cross-checked against mpmath at start-up",
               "tolerance 1e-9 (1e-7 where a twist exponential is involved) relative to max(1,|t|) and to the magnitude of the twist operand"]


def selftest():
    refs.selftest()
    rng = np.random.RandomState(7)
    A = rng.randn(6, 6) * 0.3
    assert refs.err(scipy.linalg.expm(A), refs.mp_expm(A)) < 1e-12


def _vec(n):
    ints = st.lists(st.integers(-1000, 1000), min_size=n, max_size=n).map(lambda v: [float(x) for x in v])
    flts = st.lists(gens.signed_logmag(-6, 6), min_size=n, max_size=n)
    mixed = st.lists(st.one_of(gens.signed_logmag(-3, 3), st.just(0.0)), min_size=n, max_size=n)
    return st.one_of(ints, flts, mixed)


def s_hatvee():
    def small(n):      # small non-negative / signed integers: representable in every element type, products far from overflow... of float64
        return st.one_of(st.lists(st.integers(0, 11), min_size=n, max_size=n), st.lists(st.integers(-11, 11), min_size=n, max_size=n)).map(lambda v: [float(x) for x in v])
    return st.fixed_dictionaries({
        "kind": st.just("hatvee"),
        "n": st.sampled_from([1, 3, 6]),
        "form": st.sampled_from(["list", "tuple", "array"] * 2 + DT_FORMS + ["round:float32", "round:float32", "round:float16"]),
    }).flatmap(lambda d: st.fixed_dictionaries({
        "kind": st.just("hatvee"), "n": st.just(d["n"]), "form": st.just(d["form"]),
        "u": small(d["n"]) if ":" in d["form"] and not d["form"].startswith("round:") else _vec(d["n"]),
        "v": small(d["n"]) if ":" in d["form"] and not d["form"].startswith("round:") else _vec(d["n"]),
        "a": st.integers(-50, 50).map(float), "b": st.integers(-50, 50).map(float),
        "zero": st.sampled_from([None, None, None, None, "rot", "trans", "all"])}))


def gen_hatvee_dtypes(tier):
    for n in (1, 3, 6):
        for form in DT_FORMS:
            for u, v in (([1.0, 2.0, 3.0, 4.0, 5.0, 6.0], [6.0, 4.0, 1.0, 3.0, 2.0, 5.0]), ([3.0, -2.0, 7.0, -4.0, 1.0, -6.0], [-5.0, 4.0, 1.0, 9.0, -2.0, 8.0]),
                         ([100.0, 90.0, 110.0, 7.0, 120.0, 3.0], [101.0, 5.0, 99.0, 125.0, 2.0, 80.0])):
                yield {"kind": "hatvee", "n": n, "form": form, "u": u[:n], "v": v[:n], "a": 2.0, "b": -3.0}


def s_adjoint():
    return st.fixed_dictionaries({
        "kind": st.just("adjoint"),
        "T1": gens.pose3(t_hi=3, tiny=True), "T2": gens.pose3(t_hi=3, tiny=True),
        "S": st.fixed_dictionaries({"v": gens.trans(3, -3, 1), "w": st.tuples(gens.direction3(), gens.rot_angles(-12)).map(lambda t: [x * t[1] for x in t[0]])}),
    })


def s_delta():
    dvec = st.tuples(gens.direction3(), gens.logmag(-9, -2), gens.direction3(), st.one_of(gens.logmag(-9, -2), st.just(0.0))).map(
        lambda t: [x * t[1] for x in t[0]] + [x * t[3] for x in t[2]])
    return st.fixed_dictionaries({"kind": st.just("delta"), "d": dvec, "T0": gens.pose3(t_hi=3), "T1": gens.pose3(t_hi=3)})


DT_FORMS = ["array:float32", "array:int32", "array:int16", "array:int8", "array:uint8", "array:uint16",
            "nplist:uint8", "nplist:int8", "nplist:float32", "nptuple:uint16"]        # list / tuple of NumPy scalars (what list(arr) gives)


def _form(v, form):
    if form == "list":
        return list(v)
    if form == "tuple":
        return tuple(v)
    if form.startswith(("nplist:", "nptuple:")):
        dt = np.dtype(form.split(":")[1])
        with np.errstate(all="ignore"):
            try:
                a = np.array(v, dtype=dt)
                if np.array_equal(a.astype(float), np.array(v, dtype=float)):
                    return list(a) if form.startswith("nplist") else tuple(a)
            except (OverflowError, ValueError):
                pass
        return list(v)
    if form.startswith("array:"):
        # 'for all real vectors': the same numbers in an array of another real element type (when exactly representable)
        with np.errstate(all="ignore"):
            try:
                a = np.array(v, dtype=np.dtype(form[6:]))
                if np.array_equal(a.astype(float), np.array(v, dtype=float)):
                    return a
            except (OverflowError, ValueError):
                pass
    return np.array(v)


def check_case(case):
    if case.get("kind") in ("hist", "aug", "variant", "own"):
        return probes.run(case, PROPERTY_ID)
    return {"hatvee": _hatvee, "adjoint": _adjoint, "delta": _delta}[case["kind"]](case)


def _hatvee(case):
    b = L.base
    n = case["n"]
    c = Checker("hatvee", n=n)
    if case["form"].startswith("round:"):
        # arbitrary real numbers held in single / half precision: the rounded vector IS the argument, and the functions
        # must treat it like the same numbers in double precision
        dt = np.dtype(case["form"][6:])
        with np.errstate(all="ignore"):
            ru, rv = np.array(case["u"], dtype=dt), np.array(case["v"], dtype=dt)
        if not (np.all(np.isfinite(ru.astype(float))) and np.all(np.isfinite(rv.astype(float)))):
            dt = np.dtype("float32")
            ru, rv = np.array(case["u"], dtype=dt), np.array(case["v"], dtype=dt)
        case = dict(case, u=[float(x) for x in ru], v=[float(x) for x in rv], form="array:" + dt.name)
        c.feat(rounded=dt.name)
    z = case.get("zero")
    if z:
        # exactly zero rotational / translational part or the zero element: valid members of the algebra like any other
        uu = list(case["u"])
        for i in range(n):
            rot_i = i >= (n // 2 if n == 6 else n - 1)
            if z == "all" or (z == "rot" and rot_i) or (z == "trans" and not rot_i):
                uu[i] = 0.0
        case = dict(case, u=uu)
        c.feat(zero=z)
    u, v = arr(case["u"]), arr(case["v"])
    fu = _form(case["u"], case["form"])
    # the documented check option accepts every exactly skew-symmetric (augmented) matrix and returns the same vector
    if n in (1, 3):
        for site, f in (("vex(check=True)", lambda: b.vex(b.skew(np.array(u)), check=True)), ("vex(check,positional)", lambda: b.vex(b.skew(np.array(u)), True))):
            okk, rk = c.lib(site, f)
            if okk:
                c.eq(site + "/value", rk, u, 0)
    if n in (3, 6):
        for site, f in (("vexa(check=True)", lambda: b.vexa(b.skewa(np.array(u)), check=True)), ("vexa(check,positional)", lambda: b.vexa(b.skewa(np.array(u)), True))):
            okk, rk = c.lib(site, f)
            if okk:
                c.eq(site + "/value", rk, u, 0)
    if n in (1, 3):
        ok, S = c.lib("skew", b.skew, fu)
        if ok:
            S = np.asarray(S, dtype=float)
            c.true("skew/shape", S.shape == ((2, 2) if n == 1 else (3, 3)), "shape %s" % (S.shape,))
            c.eq("skew/antisym", S + S.T, np.zeros_like(S), 0)
            ok2, r = c.lib("vex", b.vex, S)
            if ok2:
                c.eq("vex(skew)", r, u, 0)
            # linearity (exact for the integer cases; rounding-bounded otherwise)
            a_, b_ = case["a"], case["b"]
            ok3, S2 = c.lib("skew", b.skew, _form(list(a_ * u + b_ * v), case["form"]))
            okv, Sv = c.lib("skew", b.skew, _form(case["v"], case["form"]))
            if ok3 and okv:
                mag = max(1.0, float(np.max(np.abs(a_ * u)) + np.max(np.abs(b_ * v))))
                c.eq("skew/linear", S2, a_ * S + b_ * np.asarray(Sv, dtype=float), 4e-16, mag)
            if n == 3:
                c.eq("skew(a)b", S @ v, np.cross(u, v), 1e-14, max(1.0, float(np.max(np.abs(u)) * np.max(np.abs(v)))))
                okc, cr = c.lib("cross", b.cross, _form(case["u"], case["form"]), _form(case["v"], case["form"]))
                if okc:
                    c.eq("cross", cr, np.cross(u, v), 1e-14, max(1.0, float(np.max(np.abs(u)) * np.max(np.abs(v)))))
            else:
                # so(2): skew(w) rotates by 90 degrees scaled by w
                c.eq("skew1", S, np.array([[0.0, -u[0]], [u[0], 0.0]]), 0)
    if n in (3, 6):
        ok, S = c.lib("skewa", b.skewa, fu)
        if ok:
            S = np.asarray(S, dtype=float)
            m = 3 if n == 3 else 4
            c.true("skewa/shape", S.shape == (m, m), "shape %s" % (S.shape,))
            if S.shape == (m, m):
                c.eq("skewa/lastrow", S[-1, :], np.zeros(m), 0)
                c.eq("skewa/rot", S[:-1, :-1] + S[:-1, :-1].T, np.zeros((m - 1, m - 1)), 0)
                c.eq("skewa/trans", S[:-1, -1], u[:m - 1], 0)
                want = refs.hat3(u[:2], u[2]) if n == 3 else refs.hat6(u[:3], u[3:])
                c.eq("skewa/value", S, want, 0)
                ok2, r = c.lib("vexa", b.vexa, S)
                if ok2:
                    c.eq("vexa(skewa)", r, u, 0)
    # vector helpers against their definitions
    okn, nr = c.lib("norm", b.norm, _form(case["u"], case["form"]) if ":" in case["form"] or case["form"] == "array" else np.array(u))
    exact = math.sqrt(float(sum(Fraction(x) * Fraction(x) for x in case["u"]))) if all(abs(x) < 1e150 for x in case["u"]) else None
    if okn and exact is not None:
        c.eq("norm", nr, exact, 1e-14, max(exact, 1e-300))
    okq, nq = c.lib("normsq", b.normsq, _form(case["u"], case["form"]) if ":" in case["form"] or case["form"] == "array" else np.array(u))
    if okq and exact is not None:
        c.eq("normsq", nq, float(sum(Fraction(x) * Fraction(x) for x in case["u"])), 1e-14, max(exact * exact, 1e-300))
    okc, cv = c.lib("colvec", b.colvec, fu)
    if okc:
        c.true("colvec/shape", getattr(cv, "shape", None) == (n, 1), "colvec shape %s" % (getattr(cv, "shape", None),))
        if getattr(cv, "shape", None) == (n, 1):
            c.eq("colvec/value", cv[:, 0], u, 0)
    return c.out


def _adjoint(case):
    b = L.base
    T1, T2 = refs.pose3_of(case["T1"]), refs.pose3_of(case["T2"])
    v, w = arr(case["S"]["v"]), arr(case["S"]["w"])
    S6 = np.r_[v, w]
    smag = max(1.0, float(np.max(np.abs(S6))))
    T12 = T1 @ T2
    sc = tmag(T1[:3, 3], T2[:3, 3], T12[:3, 3])
    c = Checker("adjoint", tmax=sc, angle1=case["T1"]["rot"]["angle"], angle2=case["T2"]["rot"]["angle"])
    ok1, A1 = c.lib("adjoint", b.adjoint, T1)
    ok2, A2 = c.lib("adjoint", b.adjoint, T2)
    ok12, A12 = c.lib("adjoint", b.adjoint, T12)
    if not (ok1 and ok2 and ok12):
        return c.out
    c.eq("Ad/value", A1, refs.adjoint(T1), 1e-9, sc)
    c.eq("Ad/homomorphism", A12, A1 @ A2, 1e-9, sc)
    Ti = refs.rt(T1[:3, :3].T, -T1[:3, :3].T @ T1[:3, 3])
    oki, Ai = c.lib("adjoint", b.adjoint, Ti)
    if oki:
        c.eq("Ad/inverse", Ai @ A1, np.eye(6), 1e-9, sc * sc)
    # Ad(T) S = vee(T [S] T^-1)
    M = T1 @ refs.hat6(v, w) @ Ti
    okv, r = c.lib("vexa", b.vexa, M)
    if okv:
        c.eq("Ad/conjugation", A1 @ S6, r, 1e-9, sc * smag * sc)
    # class level
    okc, Ac = c.lib("SE3.Ad", lambda: L.SE3(T1, check=False).Ad())
    if okc:
        c.eq("SE3.Ad", Ac, refs.adjoint(T1), 1e-9, sc)
    # the same object re-used after its value was replaced must give the adjoint of the new value
    okr, Ar = c.lib("SE3.Ad/reused", lambda: _reused_ad(T2, T1))
    if okr:
        c.eq("SE3.Ad/reused", Ar, refs.adjoint(T1), 1e-9, sc)
    # rotation-only adjoint
    okr, Ar = c.lib("adjoint(R)", b.adjoint, T1[:3, :3].copy())
    if okr:
        want = np.zeros((6, 6))
        want[:3, :3] = T1[:3, :3]
        want[3:, 3:] = T1[:3, :3]
        c.eq("adjoint(R)", Ar, want, 1e-12)
    # exp(ad S) = Ad(exp S)
    tw = L.Twist3(S6.copy())
    oka, ad = c.lib("Twist3.ad", tw.ad)
    if oka:
        want_ad = np.zeros((6, 6))
        want_ad[:3, :3] = refs.skew3(w)
        want_ad[:3, 3:] = refs.skew3(v)
        want_ad[3:, 3:] = refs.skew3(w)
        c.eq("Twist3.ad/value", ad, want_ad, 0)
        E = refs.expm_se3(v, w)
        sE = tmag(E[:3, 3])
        c.eq("exp(ad)=Ad(exp)", scipy.linalg.expm(np.asarray(ad, dtype=float)), refs.adjoint(E), 1e-7, sE)
        okA, AdS = c.lib("Twist3.Ad", tw.Ad)
        if okA:
            c.eq("Twist3.Ad", AdS, refs.adjoint(E), 1e-7, sE)
    # Jacobians
    okj, J = c.lib("tr2jac", b.tr2jac, T1)
    R = T1[:3, :3]
    if okj:
        want = np.zeros((6, 6))
        want[:3, :3] = R.T
        want[3:, 3:] = R.T
        c.eq("tr2jac", J, want, 1e-12)
    # the flag in every truthy / falsy carrier a caller may compute it with (bool, NumPy bool, int), by position and keyword
    for carrier, flag in (("np.True_", np.True_), ("1", 1), ("np.bool_(True)", np.bool_(True)), ("np.int64(1)", np.int64(1))):
        okf, Jf = c.lib("tr2jac/samebody/" + carrier, b.tr2jac, T1, flag)
        if okf:
            c.eq("tr2jac/samebody/flag=" + carrier, Jf, refs.adjoint(Ti), 1e-9, sc)
    for carrier, flag in (("np.False_", np.False_), ("0", 0)):
        okf, Jf = c.lib("tr2jac/" + carrier, lambda: b.tr2jac(T1, samebody=flag))
        if okf and okj:
            c.eq("tr2jac/flag=" + carrier, Jf, J, 0)
    okj2, J2 = c.lib("tr2jac/samebody", b.tr2jac, T1, True)
    if okj2:
        c.eq("tr2jac/samebody", J2, refs.adjoint(Ti), 1e-9, sc)
    okj3, J3 = c.lib("SE3.jacob", lambda: L.SE3(T1, check=False).jacob())
    if okj3 and okj:
        c.eq("SE3.jacob", J3, J, 0)
    return c.out


def _reused_ad(Ta, Tb):
    X = L.SE3(Ta.copy(), check=False)
    A = X.Ad()
    try:
        A *= 2.0                      # the caller's own use of the returned matrix must not matter
    except Exception:  # noqa
        pass
    X[0] = L.SE3(Tb.copy(), check=False)
    return X.Ad()


def _delta(case):
    b = L.base
    d = arr(case["d"])
    dn = float(np.linalg.norm(d))
    T0, T1 = refs.pose3_of(case["T0"]), refs.pose3_of(case["T1"])
    c = Checker("delta", dnorm=dn)
    ok, D = c.lib("delta2tr", b.delta2tr, d.copy())
    if ok:
        c.eq("delta2tr/value", D, np.eye(4) + refs.hat6(d[:3], d[3:]), 0)
        ok2, r = c.lib("tr2delta", b.tr2delta, np.asarray(D))
        if ok2:
            c.eq("tr2delta(delta2tr)", r, d, 1e-9, max(dn, 1e-300) / max(dn, 1e-300) * max(1.0, dn))
            c.eq("tr2delta(delta2tr)/rel", r, d, 1e-7, dn)
    # two-argument form
    T0i = refs.rt(T0[:3, :3].T, -T0[:3, :3].T @ T0[:3, 3])
    sc = tmag(T0[:3, 3], T1[:3, 3])
    oka, r2 = c.lib("tr2delta/2", b.tr2delta, T0, T1)
    okb, r1 = c.lib("tr2delta/1", b.tr2delta, T0i @ T1)
    if oka and okb:
        c.eq("tr2delta(T0,T1)", r2, r1, 1e-9, sc)
    okc, r3 = c.lib("SE3.delta", lambda: L.SE3(T0, check=False).delta(L.SE3(T1, check=False)))
    if okc and oka:
        c.eq("SE3.delta", r3, r2, 0)
    # first order agreement with the logarithm: tr2delta(exp(d)) = d + O(|d|^2)
    E = refs.expm_se3(d[:3], d[3:])
    oke, r4 = c.lib("tr2delta/exp", b.tr2delta, E)
    if oke:
        c.eq("tr2delta(exp d)", r4, d, 2.0, dn * dn + 1e-16)
    # T0 * Delta(tr2delta(T0, T0 exp d)) reproduces T0 exp d to first order
    okd, X = c.lib("SE3.Delta", L.SE3.Delta, d.copy())
    if okd:
        A = np.asarray(X.A, dtype=float)
        c.true("SE3.Delta/valid", A.shape == (4, 4) and refs.se_residual(A) < 1e-9, "SE3.Delta(d) not a valid SE(3): residual %.3g" % (refs.se_residual(A) if A.shape == (4, 4) else -1))
        if A.shape == (4, 4):
            c.eq("SE3.Delta/firstorder", A, E, 2.0, dn * dn + 1e-15)
    return c.out


def classify(case):
    if case.get("kind") in ("hist", "aug", "variant", "own"):
        return probes.classify(case)
    k = case["kind"]
    lab = {"kind:" + k: True}
    if k == "hatvee":
        lab["nontrivial"] = all(x != 0 for x in case["u"]) and len(set(case["u"])) == len(case["u"])
        lab["n=%d" % case["n"]] = True
        lab["integer"] = all(float(x).is_integer() for x in case["u"])
    elif k == "adjoint":
        t = max(abs(x) for x in case["T1"]["t"])
        ax = case["T1"]["rot"]["axis"]
        noncoord = sum(1 for x in ax if abs(x) > 1e-3) >= 2
        lab["nontrivial"] = bool(t > 10 and noncoord and case["T1"]["rot"]["angle"] > 1e-3)
        lab["|t|>10"] = t > 10
        lab["near_pi"] = case["T1"]["rot"]["angle"] > math.pi - 1e-4
    else:
        d = case["d"]
        lab["nontrivial"] = any(d[:3]) and any(d[3:])
        lab["|d|<1e-6"] = sum(x * x for x in d) < 1e-12
    return lab


def subchecks(tier):
    return [
        Sub("hatvee", strategy=s_hatvee(), n=(800, 20000), shards=(4, 16)),
        Sub("hatvee_element_types", gen=gen_hatvee_dtypes, shards=(2, 4)),
        Sub("adjoint", strategy=s_adjoint(), n=(500, 12000), shards=(6, 16)),
        Sub("delta", strategy=s_delta(), n=(500, 12000), shards=(4, 16)),
        *probes.subs(PROPERTY_ID),
    ]
