"""
C14  Normalisation projects onto the group and is idempotent.
"""
import math

import numpy as np
from hypothesis import strategies as st

from .. import gens, refs
from ..runner import Sub
from . import probes
from .common import L, Checker, arr

PROPERTY_ID = "C14"
RULE = ("kinds: trnorm / trnorm2 (valid SO(n)/SE(n) member + entry noise 1e-15..1e-2, or no noise; base functions and SO2/SE2/SO3/SE3.norm()), "
        "unitvec (2..6-vectors, norm 1e-6..1e6), unitq (4-vectors, base.unit / Quaternion.unit / UnitQuaternion ctor), "
        "unittwist (3D and 2D twists, rotational part exactly 0, below (1e-17..1e-15) or above (>=1e-13) the zero threshold; "
        "base functions and Twist3/Twist2.unit), angdiff (angles and differences within +-1e3 incl. exact multiples of pi). "
        "Non-trivial: noise >= 1e-9, or norm outside [0.1,10], or irrotational twist, or |angle| > pi.")
RULE = RULE + probes.RULE_TEXT + (probes.AUG_TEXT if PROPERTY_ID in probes.AUG_PROPS else "") + probes.VARIANT_TEXT + probes.OWN_TEXT + probes.EXTRA_RULES.get(PROPERTY_ID, "")
ASSUMPTIONS = ["tolerance 1e-12 throughout (absolute on unit-norm / orthonormality residuals, relative to the input magnitude for directions)",
               "angdiff congruence residual is evaluated with mpmath at 50 digits; tolerance 1e-12*max(1,|a|,|b|)",
               "planar trnorm2 / SO2.norm / SE2.norm: validity, idempotence, fixed point, translation kept and closeness to the input (the 3-D axis clauses of the statement have no planar analogue)"]

TOL = 1e-12


def s_trnorm():
    noise = st.one_of(st.just(0.0), gens.logmag(-15, -2))
    return st.fixed_dictionaries({
        "kind": st.just("trnorm"), "T": gens.pose3(t_hi=6), "se": st.booleans(),
        "noise": noise, "pattern": st.lists(gens.fl(-1, 1), min_size=9, max_size=9),
        "nvals": st.integers(1, 3),
        # where the noise sits: everywhere, one column, one row, one entry; and (rigid motions) also on the bottom row
        "mask": st.sampled_from(["all", "all", "col0", "col1", "col2", "row0", "row2", "e00", "e01", "e12", "e21"]),
        "rownoise": st.one_of(st.none(), st.none(), st.lists(gens.fl(-1, 1), min_size=4, max_size=4))})


def s_trnorm2():
    noise = st.one_of(st.just(0.0), gens.logmag(-15, -2))
    return st.fixed_dictionaries({
        "kind": st.just("trnorm2"), "T": gens.pose2(t_hi=6), "se": st.booleans(),
        "noise": noise, "pattern": st.lists(gens.fl(-1, 1), min_size=4, max_size=4), "nvals": st.integers(1, 3),
        "mask": st.sampled_from(["all", "all", "col0", "col1", "row0", "e00", "e01", "e10", "e11"]),
        "rownoise": st.one_of(st.none(), st.none(), st.lists(gens.fl(-1, 1), min_size=3, max_size=3))})


def s_unitvec():
    return st.fixed_dictionaries({
        "kind": st.just("unitvec"),
        "dir": st.lists(st.one_of(gens.fl(-1, 1), st.just(0.0), st.just(1.0)), min_size=2, max_size=6),
        "mag": st.one_of(gens.logmag(-6, 6), st.just(1.0))})


def s_unitq():
    return st.fixed_dictionaries({
        "kind": st.just("unitq"),
        "dir": st.lists(st.one_of(gens.fl(-1, 1), st.just(0.0)), min_size=4, max_size=4),
        "mag": st.one_of(gens.logmag(-6, 6), st.just(1.0))})


def s_unittwist():
    wmag = st.one_of(st.just(0.0), gens.logmag(-17, -15), gens.logmag(-13, 6), gens.logmag(-1, 1), st.just(1.0))
    return st.fixed_dictionaries({
        "kind": st.just("unittwist"), "dim": st.sampled_from([3, 2]),
        "wdir": gens.direction3(), "wmag": wmag,
        "vdir": gens.direction3(), "vmag": st.one_of(gens.logmag(-3, 6), st.just(1.0), st.just(0.0)),
        "total": st.one_of(st.none(), st.none(), st.sampled_from([1.0, float(np.nextafter(1.0, 0)), float(np.nextafter(1.0, 2)), 1.0 + 1e-14, 1.0 - 1e-14, 2.0, 0.5]))})


def s_angdiff():
    ang = st.one_of(
        st.integers(-318, 318).map(lambda k: k * math.pi),
        st.tuples(st.integers(-318, 318), gens.offsets(1, 15)).map(lambda t: t[0] * math.pi + t[1]),
        gens.fl(-1e3, 1e3), gens.fl(-10, 10))
    return st.fixed_dictionaries({
        "kind": st.just("angdiff"), "a": ang, "b": st.one_of(st.none(), ang),
        "vec": st.booleans()})


def check_case(case):
    if case.get("kind") in ("hist", "aug", "variant", "own"):
        return probes.run(case, PROPERTY_ID)
    return {"trnorm": _trnorm, "trnorm2": _trnorm2, "unitvec": _unitvec, "unitq": _unitq, "unittwist": _unittwist, "angdiff": _angdiff}[case["kind"]](case)


def _masked(pattern, d, mask):
    N = np.array(pattern, dtype=float).reshape(d, d)
    if mask in (None, "all"):
        return N
    K = np.zeros((d, d))
    if mask.startswith("col"):
        K[:, int(mask[3]) % d] = 1.0
    elif mask.startswith("row"):
        K[int(mask[3]) % d, :] = 1.0
    else:
        K[int(mask[1]) % d, int(mask[2]) % d] = 1.0
    N = N * K
    if not np.any(N):
        N = K * 0.7
    return N


def _trnorm(case):
    b = L.base
    T = refs.pose3_of(case["T"])
    se = case["se"]
    M = T.copy() if se else T[:3, :3].copy()
    N = _masked(case["pattern"], 3, case.get("mask")) * case["noise"]
    M[:3, :3] += N
    if se and case.get("rownoise"):
        M[3, :] += np.array(case["rownoise"], dtype=float) * case["noise"]      # a nearly valid matrix may be off in its bottom row too
    c = Checker("trnorm", noise=case["noise"], se=se)
    ok, R1 = c.lib("call", b.trnorm, M.copy())
    if not ok:
        return c.out
    R1 = np.asarray(R1, dtype=float)
    if not c.true("shape", R1.shape == M.shape, "shape %s" % (R1.shape,)):
        return c.out
    res = refs.se_residual(R1) if se else refs.so_residual(R1)
    c.true("valid", res <= TOL, "trnorm output residual %.3g" % res, residual=res)
    ok2, R2 = c.lib("call2", b.trnorm, R1.copy())
    if ok2:
        c.eq("idempotent", R2, R1, TOL, max(1.0, float(np.max(np.abs(R1)))) if not se else 1.0 * max(1.0, float(np.max(np.abs(R1[:3, :3])))))
        if se:
            c.eq("idempotent/t", np.asarray(R2)[:3, 3], R1[:3, 3], 0)
    if case["noise"] == 0.0:
        c.eq("fixedpoint", R1[:3, :3], M[:3, :3], TOL)
    if se:
        c.eq("keeps_t", R1[:3, 3], M[:3, 3], 0)
        c.eq("lastrow", R1[3, :], [0, 0, 0, 1], 0)
    a_in, o_in = M[:3, 2], M[:3, 1]
    c.eq("keeps_approach_dir", R1[:3, 2], a_in / np.linalg.norm(a_in), TOL)
    nrm = np.cross(o_in, a_in)
    c.true("o_in_plane", abs(float(np.dot(R1[:3, 1], nrm / np.linalg.norm(nrm)))) <= TOL,
           "new second axis leaves the plane of the old second and third axes: %.3g" % float(np.dot(R1[:3, 1], nrm / np.linalg.norm(nrm))))
    c.true("o_same_side", float(np.dot(R1[:3, 1], o_in)) > 0, "second axis flipped")
    # class route, possibly multi-valued
    cls = L.SE3 if se else L.SO3
    k = case["nvals"]
    okc, X = c.lib("class/ctor", cls, [M.copy() for _ in range(k)], check=False)
    if okc:
        okn, Y = c.lib("class/norm", X.norm)
        if okn:
            c.true("class/type", type(Y) is cls and len(Y) == k, "norm() returned %s of length %s" % (type(Y).__name__, len(Y) if hasattr(Y, "__len__") else None))
            if type(Y) is cls and len(Y) == k:
                for A in Y.data:
                    c.eq("class/value", A, R1, 0)
    return c.out


def _trnorm2(case):
    b = L.base
    T = refs.pose2_of(case["T"])
    se = case["se"]
    M = T.copy() if se else T[:2, :2].copy()
    M[:2, :2] += _masked(case["pattern"], 2, case.get("mask")) * case["noise"]
    if se and case.get("rownoise"):
        M[2, :] += np.array(case["rownoise"], dtype=float) * case["noise"]
    c = Checker("trnorm2", noise=case["noise"], se=se)
    ok, R1 = c.lib("call", b.trnorm2, M.copy())
    if not ok:
        return c.out
    R1 = np.asarray(R1, dtype=float)
    if not c.true("shape", R1.shape == M.shape, "shape %s" % (R1.shape,)):
        return c.out
    res = refs.se_residual(R1) if se else refs.so_residual(R1)
    c.true("valid", res <= TOL, "trnorm2 output residual %.3g" % res, residual=res)
    ok2, R2 = c.lib("call2", b.trnorm2, R1.copy())
    if ok2:
        c.eq("idempotent", np.asarray(R2)[:2, :2], R1[:2, :2], TOL)
    if case["noise"] == 0.0:
        c.eq("fixedpoint", R1[:2, :2], M[:2, :2], TOL)
    if se:
        c.eq("keeps_t", R1[:2, 2], M[:2, 2], 0)
        c.eq("lastrow", R1[2, :], [0, 0, 1], 0)
    c.true("close", float(np.max(np.abs(R1[:2, :2] - T[:2, :2]))) <= 4 * case["noise"] + 1e-12, "normalised rotation is far from the nearly valid input")
    cls = L.SE2 if se else L.SO2
    k = case["nvals"]
    okc, X = c.lib("class/ctor", cls, [M.copy() for _ in range(k)], check=False)
    if okc:
        okn, Y = c.lib("class/norm", X.norm)
        if okn:
            c.true("class/type", type(Y) is cls and len(Y) == k, "norm() returned %s" % type(Y).__name__)
            if type(Y) is cls and len(Y) == k:
                for A in Y.data:
                    c.eq("class/value", A, R1, 0)
    return c.out


def _unitvec(case):
    b = L.base
    d = arr(case["dir"])
    if np.max(np.abs(d)) < 1e-3:
        d[0] = 1.0
    v = refs.unit(d) * case["mag"]
    n = float(np.linalg.norm(v))
    c = Checker("unitvec", norm=n, n=len(v))
    ok, u = c.lib("unitvec", b.unitvec, v.copy())
    if ok:
        if c.true("unitvec/notnone", u is not None, "unitvec returned None for norm %.3g" % n):
            u = np.asarray(u, dtype=float)
            c.eq("unitvec/norm", np.linalg.norm(u), 1.0, TOL)
            c.eq("unitvec/direction", u * n, v, TOL, n)
            ok2, u2 = c.lib("unitvec2", b.unitvec, u.copy())
            if ok2 and u2 is not None:
                c.eq("unitvec/idempotent", u2, u, TOL)
    ok, r = c.lib("unitvec_norm", b.unitvec_norm, v.copy())
    if ok:
        if c.true("unitvec_norm/notnone", r is not None and len(r) == 2, "unitvec_norm returned %r" % (r,)):
            c.eq("unitvec_norm/norm", r[1], n, TOL, n)
            c.eq("unitvec_norm/direction", np.asarray(r[0]) * n, v, TOL, n)
    return c.out


def _unitq(case):
    b = L.base
    d = arr(case["dir"])
    if np.max(np.abs(d)) < 1e-3:
        d[0] = 1.0
    q = refs.unit(d) * case["mag"]
    n = float(np.linalg.norm(q))
    qu = q / n
    c = Checker("unitq", norm=n)
    ok, u = c.lib("base.unit", b.unit, q.copy())
    if ok:
        c.eq("base.unit/value", u, qu, TOL)
        ok2, u2 = c.lib("base.unit2", b.unit, np.asarray(u).copy())
        if ok2:
            c.eq("base.unit/idempotent", u2, u, TOL)
    ok, Q = c.lib("Quaternion", L.Quaternion, q.copy())
    if ok:
        ok2, U = c.lib("Quaternion.unit", Q.unit)
        if ok2:
            c.true("Quaternion.unit/type", type(U) is L.UnitQuaternion, "Quaternion.unit() returned %s" % type(U).__name__)
            c.eq("Quaternion.unit/value", U.vec, qu, TOL)
            ok3, U2 = c.lib("UnitQuaternion.unit", U.unit)
            if ok3:
                c.eq("Quaternion.unit/idempotent", U2.vec, U.vec, TOL)
    ok, U = c.lib("UnitQuaternion(list)", L.UnitQuaternion, [float(x) for x in q])
    if ok:
        c.eq("UnitQuaternion(list)/value", U.vec, qu, TOL)
    ok, U = c.lib("UnitQuaternion(s,v)", L.UnitQuaternion, float(q[0]), [float(x) for x in q[1:]])
    if ok:
        c.eq("UnitQuaternion(s,v)/value", U.vec, qu, TOL)
    for nrows in (1, 2, 3, 4, 5):          # 4: the stack has the shape of a pose matrix and is still a stack of quaternions
        arr2 = np.stack([q * (k + 1.0) * (-1.0) ** k for k in range(nrows)])
        ok, U = c.lib("UnitQuaternion(Nx4)", L.UnitQuaternion, arr2)
        if ok and c.true("UnitQuaternion(Nx4)/len", len(U) == nrows, "N x 4 array of %d rows gave %d values" % (nrows, len(U))):
            for k, a in enumerate(U.data):
                c.eq("UnitQuaternion(Nx4)/value", a, qu * (-1.0) ** k, TOL)
    # the documented norm=False option stores the value as given: unit() of such an object is still a normalisation of
    # a non-zero quaternion
    for site, mk in (("norm=False(s,v)", lambda: L.UnitQuaternion(float(q[0]), [float(x) for x in q[1:]], norm=False)),
                     ("norm=False(array)", lambda: L.UnitQuaternion(q.copy(), norm=False)),
                     ("norm=False(Nx4)", lambda: L.UnitQuaternion(np.stack([q, -2.0 * q]), norm=False))):
        ok, Un = c.lib(site, mk)
        if ok and np.allclose(Un.data[0], q, rtol=1e-12, atol=0):   # stored as given (else the option normalised: nothing to test)
            ok2, U2 = c.lib(site + ".unit", Un.unit)
            if ok2 and c.true(site + ".unit/type", type(U2) is L.UnitQuaternion and len(U2) == len(Un), "unit() gave %s of %d" % (type(U2).__name__, len(U2))):
                for k, a in enumerate(U2.data):
                    c.eq(site + ".unit/value", a, qu * (-1.0) ** k, TOL)
                ok3, U3 = c.lib(site + ".unit.unit", U2.unit)
                if ok3:
                    c.eq(site + ".unit/idempotent", U3.data[0], U2.data[0], TOL)
    ok, U = c.lib("UnitQuaternion(unit array)", L.UnitQuaternion, qu.copy())
    if ok:
        c.eq("UnitQuaternion(unit array)/fixedpoint", U.vec, qu, TOL)
    return c.out


def _unittwist(case):
    b = L.base
    dim = case["dim"]
    c = Checker("unittwist%d" % dim, wmag=case["wmag"], vmag=case["vmag"], dim=dim)
    nd0 = 3 if dim == 3 else 2
    if dim == 3:
        w = arr(case["wdir"]) * case["wmag"]
        v = arr(case["vdir"]) * case["vmag"]
    else:
        w = np.array([-case["wmag"] if case["wdir"][0] < 0 else case["wmag"]])
        v = arr(case["vdir"][:2])
        v = refs.unit(v) * case["vmag"] if np.max(np.abs(v)) > 1e-3 else np.array([case["vmag"], 0.0])
    S = np.r_[v, w]
    if case.get("total") is not None and np.linalg.norm(S) > 1e-300:
        # the whole vector scaled to a given length (exactly 1, one step either side, ...): the overall length of a twist
        # vector says nothing about whether it is a unit twist
        S = S / np.linalg.norm(S) * case["total"]
        v, w = S[:nd0], S[nd0:]
        if 1e-17 < float(np.linalg.norm(w)) < 1e-12:
            return c.out     # rescaling moved the rotational part into the band around the zero threshold: not generated
    wn, vn = float(np.linalg.norm(w)), float(np.linalg.norm(v))
    if wn < 1e-14:
        if vn < 1e-3:
            return c.out     # zero twist / ill-posed band: not in the domain
        th_want = vn
        irrot = True
    else:
        th_want = wn
        irrot = False
    c.feat(irrotational=irrot)
    nd = 3 if dim == 3 else 2
    f1, f2 = (b.unittwist, b.unittwist_norm) if dim == 3 else (b.unittwist2, b.unittwist2_norm)

    def judge(site, U):
        U = np.asarray(U, dtype=float)
        if not c.true(site + "/shape", U.shape == S.shape, "shape %s" % (U.shape,)):
            return
        uw, uv = float(np.linalg.norm(U[nd:])), float(np.linalg.norm(U[:nd]))
        if irrot:
            c.true(site + "/unit", abs(uv - 1) <= TOL and uw <= TOL, "irrotational unit twist must have |v|=1 (|v|=%.17g, |w|=%.3g)" % (uv, uw))
        else:
            c.true(site + "/unit", abs(uw - 1) <= TOL, "unit twist must have |w|=1, got %.17g" % uw)
        c.eq(site + "/direction", U * th_want, S, TOL, float(np.max(np.abs(S))))

    ok, U = c.lib("unittwist", f1, S.copy())
    if ok and c.true("unittwist/notnone", U is not None, "returned None for a non-zero twist"):
        judge("unittwist", U)
        ok2, U2 = c.lib("unittwist/again", f1, np.asarray(U, dtype=float).copy())
        if ok2 and U2 is not None:
            c.eq("unittwist/idempotent", U2, U, TOL, max(1.0, float(np.max(np.abs(np.asarray(U, dtype=float))))))
    ok, r = c.lib("unittwist_norm", f2, S.copy())
    if ok and c.true("unittwist_norm/notnone", r is not None and r[0] is not None, "returned %r for a non-zero twist" % (r,)):
        judge("unittwist_norm", r[0])
        c.eq("unittwist_norm/theta", r[1], th_want, TOL, th_want)
    # class property
    cls = L.Twist3 if dim == 3 else L.Twist2
    okc, tw = c.lib("Twist/ctor", cls, S.copy())
    if okc:
        def getunit():
            u = tw.unit
            return u() if callable(u) else u
        oku, U = c.lib("Twist.unit", getunit)
        if oku:
            if c.true("Twist.unit/type", type(U) is cls and len(U) == 1, "Twist%d.unit gave %s" % (dim, type(U).__name__)):
                judge("Twist.unit", U.S)
    return c.out


def _angdiff(case):
    import mpmath
    mpmath.mp.dps = 50
    b = L.base
    a, bb = case["a"], case["b"]
    c = Checker("angdiff", two=bb is not None, vec=case["vec"])
    if case["vec"]:
        A = np.array([a, a + 1.0, -a])
        B = None if bb is None else np.array([bb, bb - 0.5, bb])
    else:
        A, B = a, bb
    ok, r = c.lib("call", (lambda: b.angdiff(A)) if B is None else (lambda: b.angdiff(A, B)))
    if not ok:
        return c.out
    rs = np.atleast_1d(np.asarray(r, dtype=float))
    As = np.atleast_1d(np.asarray(A, dtype=float))
    Bs = np.zeros_like(As) if B is None else np.atleast_1d(np.asarray(B, dtype=float))
    if not c.true("shape", rs.shape == As.shape, "shape %s for input %s" % (rs.shape, As.shape)):
        return c.out
    for x, y, z in zip(As, Bs, rs):
        scale = max(1.0, abs(x), abs(y))
        c.true("range", -math.pi - 1e-15 <= z <= math.pi + 1e-15, "angdiff = %.17g outside [-pi, pi]" % z)
        d = (mpmath.mpf(float(x)) - mpmath.mpf(float(y)) - mpmath.mpf(float(z))) / (2 * mpmath.pi)
        resid = float(abs(d - mpmath.nint(d)) * 2 * mpmath.pi)
        c.true("congruent", resid <= TOL * scale, "angdiff(%r,%r)=%.17g not congruent mod 2pi: residual %.3g" % (x, y, z, resid), residual=resid)
    return c.out


def classify(case):
    if case.get("kind") in ("hist", "aug", "variant", "own"):
        return probes.classify(case)
    k = case["kind"]
    lab = {"kind:" + k: True}
    if k in ("trnorm", "trnorm2"):
        lab["nontrivial"] = case["noise"] >= 1e-9
        lab["valid_input"] = case["noise"] == 0.0
        lab["multi"] = case["nvals"] > 1
    elif k in ("unitvec", "unitq"):
        lab["nontrivial"] = not (0.1 <= case["mag"] <= 10)
    elif k == "unittwist":
        lab["nontrivial"] = case["wmag"] < 1e-14 and case["vmag"] >= 1e-3
        lab["w_exact_zero"] = case["wmag"] == 0.0
        lab["w_below_threshold"] = 0 < case["wmag"] < 1e-14
    else:
        lab["nontrivial"] = abs(case["a"]) > math.pi or (case["b"] is not None and abs(case["a"] - case["b"]) > math.pi)
        lab["multiple_of_pi"] = abs(case["a"] / math.pi - round(case["a"] / math.pi)) < 1e-12
    return lab


def subchecks(tier):
    return [
        Sub("trnorm", strategy=s_trnorm(), n=(600, 15000), shards=(4, 16)),
        Sub("trnorm2", strategy=s_trnorm2(), n=(400, 10000), shards=(2, 8)),
        Sub("unitvec", strategy=s_unitvec(), n=(800, 15000), shards=(2, 8)),
        Sub("unitq", strategy=s_unitq(), n=(600, 15000), shards=(3, 8)),
        Sub("unittwist", strategy=s_unittwist(), n=(800, 15000), shards=(4, 16)),
        Sub("angdiff", strategy=s_angdiff(), n=(800, 15000), shards=(3, 8)),
        *probes.subs(PROPERTY_ID),
    ]
