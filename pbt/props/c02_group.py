"""
C02  Group laws: associativity, identity, inverse, division and integer powers.
"""
import math

import numpy as np
from hypothesis import strategies as st

from .. import gens, refs
from ..runner import Sub
from . import probes
from .common import L, Checker, arr

PROPERTY_ID = "C02"
RULE = ("triples (X,Y,Z) per class (SO2, SE2, SO3, SE3, UnitQuaternion, Twist2, Twist3) over the whole group (rotation angle in "
        "[0,pi] with both ends, translations 1e-6..1e6), exponents |n|<=8, and expression trees of depth <= 5 over "
        "{*, /, inv, **}; oracle: both sides of each law evaluated by the library and compared with each other and with a "
        "NumPy reference evaluation; structured inverses vs a 50-digit mpmath inverse; quaternions compared as rotations "
        "(sign-free), twists through the reference exponential. Non-trivial: a non-commuting pair and (|t|>1e3 or angle "
        "within 1e-6 of pi or |n|>=2 or depth>=3).")
RULE = RULE + probes.RULE_TEXT + (probes.AUG_TEXT if PROPERTY_ID in probes.AUG_PROPS else "") + probes.VARIANT_TEXT + probes.OWN_TEXT + probes.EXTRA_RULES.get(PROPERTY_ID, "")
ASSUMPTIONS = ["tolerance 1e-9*max(1,|t|) with |t| the largest translation among operands, intermediates and result (1e-7 for twists)",
               "reference evaluation in float64 NumPy with transposed-rotation inverses; mpmath only for the inverse check"]

POSES = ["SO2", "SE2", "SO3", "SE3"]
ALL = POSES + ["UnitQuaternion", "Twist2", "Twist3"]


def spec(cname):
    if cname in ("SO3", "SE3", "UnitQuaternion", "Twist3"):
        return gens.pose3(t_hi=6, lo_exp=-12)
    return gens.pose2(t_hi=6)


def s_laws():
    return st.sampled_from(ALL).flatmap(lambda cn: st.fixed_dictionaries({
        "kind": st.just("laws"), "cls": st.just(cn), "X": spec(cn), "Y": spec(cn), "Z": spec(cn),
        "n": st.integers(-8, 8),
        # geometric relation between the operands: independent, or rotations about parallel axes (same direction, different
        # points - such motions do NOT commute), or about one common axis (these do)
        # ... or nearly related: Y (and Z) are a multiple of X as exponential coordinates, up to a relative 1e-9 .. 1e-4 (nearly
        # collinear twists, nearly shared rotation centres: these do NOT commute exactly)
        "relate": st.sampled_from(["free", "free", "free", "parallel_axes", "same_axis", "nearly_scaled"]),
        "relk": gens.fl(0.2, 1.0), "releps": gens.logmag(-9, -4)}))


def tree(nleaves, depth):
    leaf = st.integers(0, nleaves - 1).map(lambda i: ["leaf", i])

    def ext(ch):
        return st.one_of(
            st.tuples(st.just("mul"), ch, ch).map(list),
            st.tuples(st.just("mul"), ch, ch).map(list),
            st.tuples(st.just("div"), ch, ch).map(list),
            st.tuples(st.just("inv"), ch).map(list),
            st.tuples(st.just("pow"), ch, st.integers(-8, 8)).map(list),
            # nested large powers: rounding accumulates coherently (X^64 is ~1e-14 off the group, still a member to 1e-9)
            st.tuples(st.just("pow"), st.tuples(st.just("pow"), ch, st.sampled_from([-8, -7, 7, 8])).map(list), st.sampled_from([-8, -5, 7, 8])).map(list),
            st.tuples(st.just("pow"), st.tuples(st.just("pow"), st.tuples(st.just("pow"), ch, st.sampled_from([-8, 8])).map(list), st.sampled_from([-8, 8])).map(list),
                      st.sampled_from([-8, 6, 8])).map(list))
    return st.recursive(leaf, ext, max_leaves=2 ** depth // 2)


def depth_of(t):
    if t[0] == "leaf":
        return 0
    return 1 + max(depth_of(x) for x in t[1:] if isinstance(x, list))


def s_tree(maxdepth):
    return st.sampled_from(POSES + ["UnitQuaternion"]).flatmap(lambda cn: st.fixed_dictionaries({
        "kind": st.just("tree"), "cls": st.just(cn), "leaves": st.lists(spec(cn), min_size=3, max_size=3),
        "tree": tree(3, maxdepth).filter(lambda t: depth_of(t) <= maxdepth)}))


def s_inverse():
    return st.fixed_dictionaries({"kind": st.just("inverse"), "dim": st.sampled_from([2, 3]), "T3": gens.pose3(t_hi=6), "T2": gens.pose2(t_hi=6)})


# ---------------------------------------------------------------------------

def ref_of(cname, s):
    """reference matrix value of a spec in the representation of class cname"""
    if cname == "SO3" or cname == "UnitQuaternion":
        return refs.rot_of(s["rot"])
    if cname in ("SE3", "Twist3"):
        return refs.pose3_of(s)
    if cname == "SO2":
        return refs.rot2(s["angle"])
    return refs.pose2_of(s)


def lib_of(cname, s, M):
    if cname in POSES:
        return getattr(L, cname)(M.copy(), check=False)
    if cname == "UnitQuaternion":
        q = refs.q_of(s["rot"])
        return L.UnitQuaternion([float(x) for x in q])
    if cname == "Twist3":
        ax = refs.unit(s["rot"]["axis"]) * s["rot"]["angle"]
        return L.Twist3(np.r_[arr(s["t"]), ax])
    return L.Twist2(np.r_[arr(s["t"]), s["angle"]])


def twist_ref(cname, s):
    if cname == "Twist3":
        ax = refs.unit(s["rot"]["axis"]) * s["rot"]["angle"]
        return refs.expm_se3(arr(s["t"]), ax)
    return refs.expm_se2(arr(s["t"]), s["angle"])


def mat_of(cname, obj):
    """matrix value of a (single-valued) library object in the comparison representation"""
    if cname in POSES:
        return np.asarray(obj.A, dtype=float)
    if cname == "UnitQuaternion":
        return refs.q2r(np.asarray(obj.vec, dtype=float))
    S = np.asarray(obj.S, dtype=float)
    if cname == "Twist3":
        return refs.expm_se3(S[:3], S[3:])
    return refs.expm_se2(S[:2], S[2])


def inv_ref(M, cname):
    if cname in ("SO2", "SO3", "UnitQuaternion"):
        return M.T.copy()
    n = M.shape[0] - 1
    R = M[:n, :n]
    return refs.rt(R.T, -R.T @ M[:n, n])


def tscale(cname, *Ms):
    if cname in ("SO2", "SO3", "UnitQuaternion"):
        return 1.0
    m = 1.0
    for M in Ms:
        n = M.shape[0] - 1
        m = max(m, float(np.max(np.abs(M[:n, n]))))
    return m


def check_case(case):
    if case.get("kind") in ("hist", "aug", "variant", "own"):
        return probes.run(case, PROPERTY_ID)
    return {"laws": _laws, "tree": _tree, "inverse": _inverse}[case["kind"]](case)


def _single(c, site, obj, cname):
    cls = getattr(L, cname)
    return c.true(site + "/type", type(obj) is cls and len(obj) == 1, "%s: result is %s (len %s), expected single %s" % (
        site, type(obj).__name__, len(obj) if hasattr(obj, "__len__") else "?", cname))


def _laws(case):
    cn = case["cls"]
    twist = cn.startswith("Twist")
    tol = 1e-7 if twist else 1e-9
    c = Checker("laws", cls=cn, n=case["n"])
    sx, sy, sz = case["X"], case["Y"], case["Z"]
    rel = case.get("relate", "free")
    if rel == "nearly_scaled":
        import copy as _copy
        k_, e_ = case.get("relk", 0.7), case.get("releps", 1e-7)
        out_ = []
        for j_, kk in enumerate((k_, -0.6 * k_)):
            s_ = _copy.deepcopy(sx)
            tm = max(1e-3, max(abs(x) for x in sx["t"]))
            s_["t"] = [kk * x for x in sx["t"]]
            s_["t"][j_ % len(s_["t"])] += e_ * tm
            if "rot" in s_:
                ax = list(sx["rot"]["axis"])
                am = max(abs(x) for x in ax)
                ax[(j_ + 1) % 3] += e_ * am
                s_["rot"] = {"axis": [x * (1.0 if kk > 0 else -1.0) for x in ax], "angle": abs(kk) * sx["rot"]["angle"], "via": "rod"}
            else:
                s_["angle"] = kk * sx["angle"] * (1.0 + e_)
            out_.append(s_)
        sy, sz = out_
        if "rot" in sx and sx["rot"].get("via") == "cube":
            sx = dict(sx, rot=dict(sx["rot"], via="rod"))
        if "rot" in sx:
            sx = dict(sx, rot={k2: v2 for k2, v2 in sx["rot"].items() if k2 != "noise"})
    elif rel != "free" and "rot" in sx:
        import copy as _copy
        sy, sz = _copy.deepcopy(sy), _copy.deepcopy(sz)
        for s_ in (sy, sz):
            s_["rot"] = dict(s_["rot"], axis=list(sx["rot"]["axis"]), via="rod")
            s_["rot"].pop("noise", None)
            if rel == "same_axis":
                s_["t"] = [0.0, 0.0, 0.0]
        if rel == "same_axis":
            sx = dict(sx, t=[0.0, 0.0, 0.0])
        if sx["rot"].get("via") == "cube":
            sx = dict(sx, rot=dict(sx["rot"], via="rod"))
    if twist:
        MX, MY, MZ = (twist_ref(cn, s) for s in (sx, sy, sz))
    else:
        MX, MY, MZ = (ref_of(cn, s) for s in (sx, sy, sz))
    X, Y, Z = (lib_of(cn, s, M) for s, M in ((sx, MX), (sy, MY), (sz, MZ)))
    angs = [s["rot"]["angle"] if "rot" in s else abs(s["angle"]) for s in (sx, sy, sz)]
    c.feat(max_angle=max(angs))
    I = np.eye(MX.shape[0])
    cls = getattr(L, cn)

    def cmp(site, f, want, *scale_ms):
        ok, r = c.lib(site, f)
        if not ok:
            return None
        if not _single(c, site, r, cn):
            return None
        M = mat_of(cn, r)
        c.eq(site + "/value", M, want, tol, tscale(cn, want, *scale_ms))
        return M

    XY = MX @ MY
    XYZ = XY @ MZ
    YZ = MY @ MZ
    a = cmp("(X*Y)*Z", lambda: (X * Y) * Z, XYZ, MX, MY, MZ, XY, YZ)
    b_ = cmp("X*(Y*Z)", lambda: X * (Y * Z), XYZ, MX, MY, MZ, XY, YZ)
    if a is not None and b_ is not None:
        c.eq("assoc", a, b_, tol, tscale(cn, MX, MY, MZ, XY, YZ, XYZ))
    cmp("1*X", lambda: cls() * X, MX)
    cmp("X*1", lambda: X * cls(), MX)
    cmp("X*inv(X)", lambda: X * X.inv(), I, MX, inv_ref(MX, cn))
    cmp("inv(X)*X", lambda: X.inv() * X, I, MX, inv_ref(MX, cn))
    cmp("inv(X)", lambda: X.inv(), inv_ref(MX, cn), MX)
    XYi = inv_ref(XY, cn)
    l = cmp("inv(X*Y)", lambda: (X * Y).inv(), XYi, MX, MY, XY)
    r = cmp("inv(Y)*inv(X)", lambda: Y.inv() * X.inv(), XYi, MX, MY, XY, inv_ref(MX, cn), inv_ref(MY, cn))
    if l is not None and r is not None:
        c.eq("inv(XY)=inv(Y)inv(X)", l, r, tol, tscale(cn, MX, MY, XY, XYi, inv_ref(MX, cn), inv_ref(MY, cn)))
    if not twist:
        XdY = MX @ inv_ref(MY, cn)
        l = cmp("X/Y", lambda: X / Y, XdY, MX, MY, inv_ref(MY, cn))
        r = cmp("X*inv(Y)", lambda: X * Y.inv(), XdY, MX, MY, inv_ref(MY, cn))
        if l is not None and r is not None:
            c.eq("X/Y=X*inv(Y)", l, r, tol, tscale(cn, MX, MY, XdY, inv_ref(MY, cn)))
        n = case["n"]
        P = I.copy()
        inter = [MX]
        for _ in range(abs(n)):
            P = P @ MX
            inter.append(P)
        Pn = inv_ref(P, cn) if n < 0 else P
        inter.append(Pn)
        cmp("X**n", lambda: X ** n, Pn, *inter)
        cmp("X**0", lambda: X ** 0, I)
        if n != 0:
            l = cmp("X**-n", lambda: X ** (-n), inv_ref(Pn, cn), *inter)
            r = cmp("inv(X**n)", lambda: (X ** n).inv(), inv_ref(Pn, cn), *inter)
            if l is not None and r is not None:
                c.eq("X**-n=inv(X**n)", l, r, tol, tscale(cn, *inter))

            def fold():
                acc = X
                for _ in range(abs(n) - 1):
                    acc = acc * X
                return acc.inv() if n < 0 else acc
            cmp("n-fold product", fold, Pn, *inter)
    # sequence product
    ok, seq = c.lib("sequence", lambda: cls([X, Y, Z]))
    if ok and hasattr(seq, "prod"):
        cmp("prod", seq.prod, XYZ, MX, MY, MZ, XY)
    return c.out


def _eval_ref(t, leaves, cn, inter):
    k = t[0]
    if k == "leaf":
        M = leaves[t[1]]
    elif k == "mul":
        M = _eval_ref(t[1], leaves, cn, inter) @ _eval_ref(t[2], leaves, cn, inter)
    elif k == "div":
        M = _eval_ref(t[1], leaves, cn, inter) @ inv_ref(_eval_ref(t[2], leaves, cn, inter), cn)
    elif k == "inv":
        M = inv_ref(_eval_ref(t[1], leaves, cn, inter), cn)
    else:
        A = _eval_ref(t[1], leaves, cn, inter)
        n = t[2]
        M = np.eye(A.shape[0])
        for _ in range(abs(n)):
            M = M @ A
            inter.append(M)
        if n < 0:
            M = inv_ref(M, cn)
    inter.append(M)
    return M


def _eval_lib(t, leaves):
    k = t[0]
    if k == "leaf":
        return leaves[t[1]]
    if k == "mul":
        return _eval_lib(t[1], leaves) * _eval_lib(t[2], leaves)
    if k == "div":
        return _eval_lib(t[1], leaves) / _eval_lib(t[2], leaves)
    if k == "inv":
        return _eval_lib(t[1], leaves).inv()
    return _eval_lib(t[1], leaves) ** t[2]


def _tree(case):
    cn = case["cls"]
    c = Checker("tree", cls=cn, depth=depth_of(case["tree"]))
    Ms = [ref_of(cn, s) for s in case["leaves"]]
    objs = [lib_of(cn, s, M) for s, M in zip(case["leaves"], Ms)]
    inter = list(Ms)
    want = _eval_ref(case["tree"], Ms, cn, inter)
    sc = tscale(cn, *inter)
    if not math.isfinite(sc) or sc > 1e12:
        return c.out   # translations beyond 1e12 are outside the stated domain
    c.feat(tscale=sc)
    ok, r = c.lib("eval", _eval_lib, case["tree"], objs)
    if ok and _single(c, "eval", r, cn):
        c.eq("value", mat_of(cn, r), want, 1e-9, sc)
        M = mat_of(cn, r)
        if cn in POSES:
            res = refs.se_residual(M) if cn.startswith("SE") else refs.so_residual(M)
            c.true("valid", res <= 1e-9 * (1 if cn.startswith("SO") else 1), "tree value leaves the group: residual %.3g" % res)
    return c.out


def _inverse(case):
    b = L.base
    c = Checker("inverse", dim=case["dim"])
    if case["dim"] == 3:
        T = refs.pose3_of(case["T3"])
        f, cls = b.trinv, L.SE3
    else:
        T = refs.pose2_of(case["T2"])
        f, cls = b.trinv2, L.SE2
    want = refs.mp_inv(T)
    sc = tscale("SE", T, want)
    ok, Ti = c.lib("trinv", f, T.copy())
    if ok:
        c.eq("trinv=true inverse", Ti, want, 1e-9, sc)
    ok, Xi = c.lib("SE.inv", lambda: cls(T.copy(), check=False).inv())
    if ok:
        c.eq("SE.inv=true inverse", Xi.A, want, 1e-9, sc)
    return c.out


def _noncommuting(case):
    cn = case["cls"]
    if cn in ("SO2",):
        return False
    if cn in ("SE2", "Twist2"):
        return any(case["X"]["t"]) and case["Y"]["angle"] != 0
    ax, ay = case["X"]["rot"], case["Y"]["rot"]
    if ax["angle"] < 1e-9 or ay["angle"] < 1e-9:
        return False
    cr = np.cross(refs.unit(ax["axis"]), refs.unit(ay["axis"]))
    return float(np.linalg.norm(cr)) > 1e-6


def classify(case):
    if case.get("kind") in ("hist", "aug", "variant", "own"):
        return probes.classify(case)
    k = case["kind"]
    lab = {"kind:" + k: True}
    if k == "laws":
        specs = [case["X"], case["Y"], case["Z"]]
        tm = max(abs(x) for s in specs for x in s["t"])
        angs = [s["rot"]["angle"] if "rot" in s else abs(s["angle"]) for s in specs]
        nearpi = any(math.pi - a < 1e-6 for a in angs)
        lab.update({"cls:" + case["cls"]: True, "|t|>1e3": tm > 1e3, "angle_near_pi": nearpi, "|n|>=2": abs(case["n"]) >= 2})
        lab["nontrivial"] = bool(_noncommuting(case) and (tm > 1e3 or nearpi or abs(case["n"]) >= 2))
    elif k == "tree":
        d = depth_of(case["tree"])
        lab.update({"cls:" + case["cls"]: True, "depth>=3": d >= 3, "depth=%d" % d: True})
        lab["nontrivial"] = d >= 3
    else:
        lab["nontrivial"] = True
    return lab


def subchecks(tier):
    return [
        Sub("laws", strategy=s_laws(), n=(350, 12000), shards=(10, 16)),
        Sub("tree", strategy=s_tree(4 if tier == "quick" else 5), n=(300, 6000), shards=(4, 16)),
        Sub("inverse", strategy=s_inverse(), n=(150, 3000), shards=(2, 8)),
        *probes.subs(PROPERTY_ID),
    ]
