"""
C07  Invalid values are rejected: objects never hold non-members.
"""
import math

import numpy as np
from hypothesis import strategies as st

from .. import gens, refs
from ..runner import Sub
from . import probes2
from .common import L, Checker, arr

PROPERTY_ID = "C07"
RULE = ("kind ctor: class in {SO2, SE2, SO3, SE3, UnitQuaternion(3x3/4x4 input), Twist2, Twist3(matrix input)} x defect "
        "{none, entry noise 1e-12..1, reflection (negated / swapped column), scale, last-row corruption, non-algebra matrix, "
        "wrong shape} x container {bare, [a], (a,), [valid,bad], [bad,valid], [valid,bad,valid]}; oracle: distance d from "
        "the group measured independently (a lower bound of it); d > 1.05e-6 => constructor raises and leaves no object, d <= 2e-15 => accepted, and "
        "any returned object holds only finite arrays of the class shape within 1e-6 of the group, never None. kind pred: "
        "membership / unit / zero / skew / identity predicates on members and perturbed members outside a 1e-6 band. "
        "Non-trivial: reflection, or magnitude in [1e-9,1e-3], or a mixed list.")
RULE = RULE + (" Further defects / dimensions: lastrow_pattern (several wrong bottom-row entries whose sum vanishes), zero rows, whole-matrix "
               "scaling, in-place modification after a first validation, float32 copies, memory layout of the array handed over "
               "(column-major, transposed view, strided view, negative strides); kind accept_many: 250 general-axis rotations per "
               "case through each primitive constructor must be accepted by the predicates.")
ASSUMPTIONS = ["distance = lower bound from the orthogonality residual (|R'R-I|/2.5), determinant sign, exact last-row error, algebra-form residual; a value is required to be rejected above 1.05e-6 and accepted below 2e-15, in between either answer is accepted",
               "an invalid 4x4 array given to UnitQuaternion is also a legal N x 4 array of quaternions: there the oracle is 'raises or holds unit quaternions'"]

CLASSES = ["SO2", "SE2", "SO3", "SE3", "UQ3", "UQ4", "Twist2", "Twist3", "SE3.SO3"]
DEFECTS = ["none", "noise", "reflect", "swap", "scale", "tilt", "wholescale", "lastrow", "lastrow_pattern", "zerorow", "algebra", "shape", "inplace"]
CONTAINERS = ["bare", "list1", "tuple1", "valid_bad", "bad_valid", "valid_bad_valid"]
REJECT = 1.05e-6      # the statement: every array whose distance from the group exceeds 1e-6 is rejected
ACCEPT = 2e-15       # (distance lower bound, see group_distance) values produced by primitive constructors are accepted


def s_ctor():
    return st.fixed_dictionaries({
        "kind": st.just("ctor"), "cls": st.sampled_from(CLASSES), "defect": st.sampled_from(DEFECTS),
        "container": st.sampled_from(CONTAINERS), "f32": st.sampled_from([False, False, False, True]),
        "m3": gens.pose3(t_hi=3, lo_exp=-12), "m2": gens.pose2(t_hi=3),
        "mag": st.one_of(gens.logmag(-12, 0), gens.logmag(-9, -3), gens.logmag(-5, 0)),
        "pattern": st.lists(gens.fl(-1, 1), min_size=16, max_size=16),
        "i": st.integers(0, 3), "j": st.integers(0, 3),
        "src": st.sampled_from(["ref", "ref", "lib"]),
        "layout": st.sampled_from([None, None, None] + probes2.LAYOUTS),
    })


def gen_cells(tier):
    """every (class, defect, container) cell once with fixed representative values"""
    m3 = {"rot": {"axis": [0.3, -0.5, 0.8], "angle": 1.1, "via": "rod"}, "t": [1.0, -2.0, 3.0]}
    m2 = {"angle": 0.7, "t": [1.0, -2.0]}
    pat = [0.31, -0.72, 0.55, 0.18, -0.93, 0.44, 0.67, -0.25, 0.81, -0.36, 0.59, 0.12, -0.48, 0.77, -0.64, 0.29]
    for cls in CLASSES:
        for d in DEFECTS:
            for cont in CONTAINERS:
                for mag in (3e-6, 1e-4, 0.3):          # 3e-6: just outside the 1e-6 band the statement allows
                    for src in ("ref", "lib"):
                        for i in (range(4) if d in ("lastrow", "reflect", "algebra") else (range(6) if d == "lastrow_pattern" else (1,))):
                            for f32 in ((False, True) if d in ("noise", "scale", "lastrow", "reflect") and src == "ref" else (False,)):
                                yield {"kind": "ctor", "cls": cls, "defect": d, "container": cont, "m3": m3, "m2": m2, "mag": mag,
                                       "pattern": pat, "i": i, "j": 2, "src": src, "f32": f32}
                                if src == "ref" and not f32 and mag == 1e-4 and cont in ("bare", "valid_bad"):
                                    for lay in probes2.LAYOUTS:      # the same values held differently in memory
                                        yield {"kind": "ctor", "cls": cls, "defect": d, "container": cont, "m3": m3, "m2": m2, "mag": mag,
                                               "pattern": pat, "i": i, "j": 2, "src": src, "f32": f32, "layout": lay}


def gen_pred_cells(tier):
    m3 = {"rot": {"axis": [0.3, -0.5, 0.8], "angle": 1.1, "via": "rod"}, "t": [1.0, -2.0, 3.0]}
    m2 = {"angle": 0.7, "t": [1.0, -2.0]}
    pat = [0.31, -0.72, 0.55, 0.18, -0.93, 0.44, 0.67, -0.25, 0.81, -0.36, 0.59, 0.12, -0.48, 0.77, -0.64, 0.29]
    for d in ["none", "noise", "reflect", "swap", "scale", "tilt", "wholescale", "lastrow", "lastrow_pattern", "zerorow"]:
        for mag in (0.0, 3e-6, 1e-4, 0.3):
            for i in range(4):
                for src in ("ref", "lib"):
                    for f32 in ((False, True) if src == "ref" else (False,)):
                        yield {"kind": "pred", "m3": m3, "m2": m2, "mag": mag, "pattern": pat, "defect": d, "i": i, "j": (i + 1) % 4,
                               "vec": [0.3, -0.2, 0.9, 0.1], "vmag": 1.0 + mag, "src": src, "f32": f32}
                        if src == "ref" and not f32:
                            for lay in probes2.LAYOUTS:
                                yield {"kind": "pred", "m3": m3, "m2": m2, "mag": mag, "pattern": pat, "defect": d, "i": i, "j": (i + 1) % 4,
                                       "vec": [0.3, -0.2, 0.9, 0.1], "vmag": 1.0 + mag, "src": src, "f32": f32, "layout": lay}


def s_pred():
    return st.fixed_dictionaries({
        "kind": st.just("pred"), "m3": gens.pose3(t_hi=3, lo_exp=-12), "m2": gens.pose2(t_hi=3),
        "mag": st.one_of(gens.logmag(-12, 0), gens.logmag(-5, 0), st.just(0.0)),
        "pattern": st.lists(gens.fl(-1, 1), min_size=16, max_size=16),
        "defect": st.sampled_from(["none", "noise", "reflect", "swap", "scale", "tilt", "wholescale", "lastrow", "lastrow_pattern", "zerorow"]),
        "i": st.integers(0, 3), "j": st.integers(0, 3),
        "vec": st.lists(st.one_of(gens.fl(-1, 1), st.just(0.0)), min_size=2, max_size=6),
        "vmag": st.one_of(gens.logmag(-6, 6), st.just(1.0)),
        "src": st.sampled_from(["ref", "lib"]), "f32": st.sampled_from([False, False, False, True]),
        "layout": st.sampled_from([None, None, None] + probes2.LAYOUTS),
    })


# --------------------------------------------------------------------------- #

def member(case, dim, se):
    """valid member matrix from the reference generator or from library primitives"""
    b = L.base
    if dim == 3:
        s = case["m3"]
        if case["src"] == "lib":
            ax = refs.unit(s["rot"]["axis"])
            R = np.asarray(b.angvec2r(s["rot"]["angle"], ax), dtype=float)
            if se:
                return np.asarray(b.rt2tr(R, arr(s["t"])), dtype=float)
            return R
        T = refs.pose3_of(s)
        return T if se else T[:3, :3].copy()
    s = case["m2"]
    if case["src"] == "lib":
        if se:
            return np.asarray(b.trot2(s["angle"], t=list(s["t"])), dtype=float)
        return np.asarray(b.rot2(s["angle"]), dtype=float)
    T = refs.pose2_of(s)
    return T if se else T[:2, :2].copy()


def algebra_member(case, dim):
    if dim == 3:
        s = case["m3"]
        w = refs.unit(s["rot"]["axis"]) * s["rot"]["angle"]
        return refs.hat6(arr(s["t"]), w)
    s = case["m2"]
    return refs.hat3(arr(s["t"]), s["angle"])


def corrupt(M, case, dim, se):
    """apply the defect; returns (matrix, applicable)"""
    d = case["defect"]
    mag = case["mag"]
    M = M.copy()
    n = dim
    P = np.array(case["pattern"]).reshape(4, 4)[:n, :n]
    i, j = case["i"] % n, case["j"] % n
    if d == "none":
        return M, True
    if d == "noise":
        if np.max(np.abs(P)) < 0.1:
            P = P + 0.5
        M[:n, :n] += mag * P
        return M, True
    if d == "reflect":
        M[:n, i] = -M[:n, i]
        return M, True
    if d == "swap":
        if i == j:
            j = (i + 1) % n
        M[:n, [i, j]] = M[:n, [j, i]]
        return M, True
    if d == "scale":
        M[:n, :n] *= (1.0 + mag)
        return M, True
    if d == "tilt":
        # one row (or column) turned towards another by the angle mag, keeping its length: all rows (columns) stay unit
        # vectors, the determinant stays positive, only the right angle between two of them is lost
        if i == j:
            j = (i + 1) % n
        Rb = M[:n, :n]
        if case["i"] % 2:
            Rb[i, :] = math.cos(mag) * Rb[i, :] + math.sin(mag) * Rb[j, :]
        else:
            Rb[:, i] = math.cos(mag) * Rb[:, i] + math.sin(mag) * Rb[:, j]
        return M, True
    if d == "wholescale":
        # the whole array times a factor (homogeneous scale): 2, 1/2, 1 + mag, and -1 where that keeps the determinant positive
        k = [2.0, 0.5, 1.0 + mag, 1.0 + mag, -1.0 if (n % 2 == 0 and not se) else 3.0][case["j"] % 5]
        return M * k, True
    if d == "inplace":
        M[:n, i] = -M[:n, i]            # as 'reflect'; the constructor check first validates the array, then it is changed in place
        return M, True
    if d == "zerorow":
        # one whole row exactly zero (the bottom row for rigid motions, row i otherwise)
        if se:
            M[n, :] = 0.0
        else:
            M[i, :] = 0.0
        return M, True
    if d == "lastrow":
        if not se:
            return M, False
        k = case["i"] % (n + 1)
        M[n, k] += mag
        return M, True
    if d == "lastrow_pattern":
        # several wrong entries in the bottom row at once, in patterns whose sum / signed sum / product vanishes
        if not se:
            return M, False
        pats = [[1, -1, 0], [1, 1, -2], [-1, 0, 1], [2, -1, -1], [1, 1, 1], [1, -1, 1]] if n == 3 else [[1, -1], [-1, 1], [1, 1], [2, -2]]
        pt = np.array(pats[case["i"] % len(pats)], dtype=float) * mag
        M[n, :n] += pt
        if case["j"] % 2:
            M[n, n] = 1.0 + (case["j"] - 2) * mag * 0.0          # corner left exactly 1
        return M, True
    if d == "shape":
        return np.zeros((n + 2, n + 2)) + np.eye(n + 2), True
    return M, False


def group_distance(M, dim, se):
    n = dim
    if M.shape != ((n + 1, n + 1) if se else (n, n)):
        return float("inf")
    if not np.all(np.isfinite(M)):
        return float("inf")
    R = M[:n, :n]
    # |R'R - I| is about twice the distance of R from the nearest rotation (exactly twice for a scaled
    # rotation): r / 2.5 is a safe lower bound of the distance
    d = float(np.max(np.abs(R.T @ R - np.eye(n)))) / 2.5
    if np.linalg.det(R) < 0:
        d = max(d, 1.0)
    if se:
        last = np.zeros(n + 1)
        last[n] = 1.0
        d = max(d, float(np.max(np.abs(M[n, :] - last))))
    return d


def algebra_distance(M, dim):
    n = dim
    if M.shape != (n + 1, n + 1) or not np.all(np.isfinite(M)):
        return float("inf")
    W = M[:n, :n]
    return float(max(np.max(np.abs(W + W.T)) / 2.0, np.max(np.abs(M[n, :]))))


def qdist(q):
    q = np.asarray(q, dtype=float)
    if q.shape != (4,) or not np.all(np.isfinite(q)):
        return float("inf")
    return abs(float(np.linalg.norm(q)) - 1.0)


def s_accept_many():
    return st.fixed_dictionaries({"kind": st.just("accept_many"), "seed": st.integers(0, 2 ** 31 - 1), "n": st.just(250)})


def _accept_many(case):
    """'accept every value produced by the primitive constructors': bulk form - a few hundred general-axis rotations per case
    through each constructor (the rounding residual of such outputs reaches a dozen eps only once in some thousand draws).
    The draws are a pure function of the case (NumPy generator seeded with the case's integer)."""
    b = L.base
    c = Checker("accept_many")
    rng = np.random.default_rng(case["seed"])
    n = case["n"]
    bad = {}

    def note(site, ok, R):
        if not ok and site not in bad:
            bad[site] = R
    for _ in range(n):
        ax = rng.normal(size=3)
        ax = ax / np.linalg.norm(ax)
        th = float(rng.uniform(-np.pi, np.pi))
        t = rng.uniform(-3, 3, size=3)
        q = rng.normal(size=4)
        for nm, f in (("angvec2r", lambda: b.angvec2r(th, ax)), ("trexp", lambda: b.trexp(ax * th)), ("q2r", lambda: b.q2r(b.unit(q))),
                      ("rpy2r", lambda: b.rpy2r(th, float(t[0]), float(t[1]))), ("eul2r", lambda: b.eul2r(th, float(t[0]), float(t[1]))),
                      ("rodrigues", lambda: b.rodrigues(ax, th))):
            try:
                R = np.asarray(f(), dtype=float)
            except Exception:  # noqa  (not this check's business)
                continue
            try:
                note(nm + "->isrot", bool(b.isrot(R, check=True)), R)
                note(nm + "->SO3.isvalid", bool(L.SO3.isvalid(R, check=True)), R)
                T = b.rt2tr(R, t)
                note(nm + "->ishom", bool(b.ishom(T, check=True)), T)
                note(nm + "->SE3.isvalid", bool(L.SE3.isvalid(T, check=True)), T)
            except Exception as e:  # noqa
                note(nm + "->predicate raised %s" % type(e).__name__, False, R)
        try:
            R2 = np.asarray(b.rot2(th), dtype=float)
            note("rot2->isrot2", bool(b.isrot2(R2, check=True)), R2)
            T2 = np.asarray(b.trexp2(np.r_[t[:2], th]), dtype=float)
            note("trexp2->ishom2", bool(b.ishom2(T2, check=True)), T2)
        except Exception as e:  # noqa
            note("2D predicate raised %s" % type(e).__name__, False, None)
    for site, R in bad.items():
        dd = group_distance(np.asarray(R, dtype=float), R.shape[0] - (1 if R.shape[0] in (4,) or site.endswith("ishom2") else 0), R.shape[0] == 4 or site.endswith("ishom2")) if R is not None else 0.0
        c.fail(site + "/rejects_constructor_output", "%s: a matrix produced by the library's own constructor was refused (distance from the group %.3g)" % (site, dd), distance=dd)
    return c.out


def check_case(case):
    if case.get("kind") == "accept_many":
        return _accept_many(case)
    return {"ctor": _ctor, "pred": _pred}[case["kind"]](case)


def _setup(case):
    """-> (constructor, valid element, bad element, d_bad, element judge, applicable)"""
    cn = case["cls"]
    if cn == "SE3.SO3":
        # classmethod constructor: an SE3 from a 3x3 rotation array ("however it is supplied")
        if case["container"] != "bare" or case["defect"] in ("algebra", "lastrow"):
            return None
        good = member(case, 3, False)
        bad, ok = corrupt(good, case, 3, False)
        if not ok:
            return None

        def judge4(a):
            if not isinstance(a, np.ndarray) or a.shape != (4, 4):
                return "element %r is not a 4x4 array" % (a,)
            dd = group_distance(np.asarray(a, dtype=float), 3, True)
            return None if dd <= REJECT else "element at distance %.3g from the group" % dd
        return L.SE3.SO3, good, bad, group_distance(bad, 3, False) if bad.shape == (3, 3) else float("inf"), judge4, "matrix"
    if cn in ("SO2", "SE2", "SO3", "SE3"):
        dim, se = int(cn[2]), cn[1] == "E"
        cls = getattr(L, cn)
        good = member(case, dim, se)
        if case["defect"] == "algebra":
            return None
        bad, ok = corrupt(good, case, dim, se)
        if not ok:
            return None
        shape = good.shape

        def judge(a):
            if not isinstance(a, np.ndarray) or a.shape != shape:
                return "element %r is not an array of shape %s" % (a, shape)
            dd = group_distance(np.asarray(a, dtype=float), dim, se)
            return None if dd <= REJECT else "element at distance %.3g from the group" % dd
        return cls, good, bad, group_distance(bad, dim, se), judge, "matrix"
    if cn in ("UQ3", "UQ4"):
        se = cn == "UQ4"
        good = member(case, 3, se)
        if case["defect"] == "algebra" or (case["defect"] == "shape"):
            return None
        if case["container"] != "bare":
            return None      # lists of matrices are not a documented UnitQuaternion argument form
        bad, ok = corrupt(good, case, 3, se)
        if not ok:
            return None

        def judge(a):
            dd = qdist(a) if isinstance(a, np.ndarray) else float("inf")
            return None if dd <= 1e-6 else "element %r is not a unit quaternion" % (a,)
        return L.UnitQuaternion, good, bad, group_distance(bad, 3, se), judge, "uq4" if se else "uq3"
    # twists given as algebra matrices
    dim = 3 if cn == "Twist3" else 2
    cls = getattr(L, cn)
    good = algebra_member(case, dim)
    d = case["defect"]
    bad = good.copy()
    n = dim
    mag = case["mag"]
    P = np.array(case["pattern"]).reshape(4, 4)[:n, :n]
    i, j = case["i"] % n, case["j"] % n
    if d == "none":
        pass
    elif d in ("noise", "algebra"):
        S = (P + P.T) / 2
        if np.max(np.abs(S)) < 0.1:
            S = S + 0.5
        if d == "algebra":
            S = np.zeros((n, n))
            S[i, i] = 1.0          # non-zero diagonal
        bad[:n, :n] += mag * S
    elif d == "lastrow":
        bad[n, case["i"] % (n + 1)] += mag
    elif d == "shape":
        bad = np.zeros((n + 2, n + 2))
    else:
        return None
    nv = 6 if dim == 3 else 3

    def judge(a):
        if not isinstance(a, np.ndarray) or a.shape != (nv,) or not np.all(np.isfinite(np.asarray(a, dtype=float))):
            return "element %r is not a finite %d-vector" % (a, nv)
        return None
    return cls, good, bad, algebra_distance(bad, dim), judge, "twist"


def _ctor(case):
    cn, cont = case["cls"], case["container"]
    c = Checker("ctor", cls=cn, defect=case["defect"], container=cont, mag=case["mag"])
    st_ = _setup(case)
    if st_ is None:
        return c.out
    cls, good, bad, dbad, judge, kind = st_
    lay = case.get("layout") if kind in ("matrix", "twist", "uq3", "uq4") else None

    def H(a):
        # hand over a copy, row-major or (layout cases) the same values held column-major / as a view
        return probes2.relayout(a, lay).astype(a.dtype, copy=False) if lay and a.ndim == 2 and a.dtype == np.float64 else a.copy()
    if lay:
        c.feat(layout=lay)
    if case.get("f32") and kind == "matrix" and bad.shape == good.shape and cn != "SE3.SO3":
        # the same defective array held in single precision: its distance is that of the rounded values
        bad = bad.astype(np.float32)
        dim_, se_ = int(cn[2]), cn[1] == "E"
        dbad = group_distance(bad.astype(np.float64), dim_, se_)
        if dbad <= REJECT:
            return c.out            # a valid matrix rounded to float32 is 1e-8 from the group: no statement about it
    c.feat(distance=dbad if math.isfinite(dbad) else 1e300, reflection=case["defect"] in ("reflect", "swap"), f32=bool(case.get("f32")))
    if cont == "bare":
        arg, nbad, ngood = H(bad), 1, 0
    elif cont == "list1":
        arg, nbad, ngood = [H(bad)], 1, 0
    elif cont == "tuple1":
        arg, nbad, ngood = (H(bad),), 1, 0
    elif cont == "valid_bad":
        arg, nbad, ngood = [H(good), H(bad)], 1, 1
    elif cont == "bad_valid":
        arg, nbad, ngood = [H(bad), H(good)], 1, 1
    else:
        arg, nbad, ngood = [H(good), H(bad), H(good)], 1, 2
    if case["defect"] == "inplace":
        # history on one array object: it is valid and accepted once, then modified in place and supplied again
        buf = good.copy()
        try:
            cls(buf)
        except Exception:  # noqa
            pass
        buf[...] = bad
        if cont == "bare":
            arg = buf
        elif cont in ("list1", "tuple1"):
            arg = [buf] if cont == "list1" else (buf,)
        elif cont == "valid_bad":
            arg = [good.copy(), buf]
        elif cont == "bad_valid":
            arg = [buf, good.copy()]
        else:
            arg = [good.copy(), buf, good.copy()]
    obj = None
    try:
        obj = cls(arg)
        raised = None
    except Exception as e:  # noqa
        raised = e
    site = "%s/%s" % (cn, "mixed" if ngood else ("list" if cont != "bare" else "bare"))
    if raised is not None:
        if dbad <= ACCEPT:
            c.fail(site + "/rejected_valid", "valid value (distance %.3g) rejected: %r" % (dbad, raised))
        return c.out
    # an object came back: whatever the input, it must hold only group members
    try:
        data = list(obj.data)
    except Exception as e:  # noqa
        c.fail(site + "/nodata", "constructed object has no data: %r" % e)
        return c.out
    for k, a in enumerate(data):
        if a is None:
            c.fail(site + "/none_element", "object holds None at index %d (input distance %.3g)" % (k, dbad))
            return c.out
        msg = judge(a)
        if msg is not None:
            c.fail(site + "/holds_nonmember", "%s (index %d, input distance %.3g)" % (msg, k, dbad))
            return c.out
    if dbad > REJECT and kind != "uq4":
        c.fail(site + "/accepted_invalid", "array at distance %.3g from the group was accepted" % dbad)
    elif dbad <= ACCEPT:
        want = (1 if cont in ("bare", "list1", "tuple1") else len(arg))
        if kind == "uq4" and cont == "bare":
            pass
        else:
            c.true(site + "/len", len(data) == want, "object holds %d values, expected %d" % (len(data), want))
    return c.out


def _pred(case):
    b = L.base
    c = Checker("pred", defect=case["defect"], mag=case["mag"])
    lay = case.get("layout")

    def H(a):
        return probes2.relayout(a, lay) if lay and a.ndim == 2 and a.dtype == np.float64 else a.copy()
    if lay:
        c.feat(layout=lay)
    for dim in (3, 2):
        for se in (False, True):
            good = member(case, dim, se)
            M, ok = corrupt(good, dict(case), dim, se)
            if not ok:
                continue
            if case.get("f32"):
                M = M.astype(np.float32)
            d = group_distance(M.astype(np.float64), dim, se)
            names = {(3, False): ["isrot", "isR"], (3, True): ["ishom"], (2, False): ["isrot2", "isR"], (2, True): ["ishom2"]}[(dim, se)]
            for nm in names:
                f = getattr(b, nm)
                okc, r = c.lib(nm, (lambda: f(H(M))) if nm == "isR" else (lambda: f(H(M), check=True)))
                if not okc:
                    continue
                r = bool(r)
                if d > REJECT:
                    # the answer belongs to the values, not to the array object: valid -> accepted, then changed in place -> rejected
                    G = good.copy()
                    okh, _ = c.lib(nm, (lambda: f(G)) if nm == "isR" else (lambda: f(G, check=True)))
                    G[...] = M
                    okh2, rh = c.lib(nm, (lambda: f(G)) if nm == "isR" else (lambda: f(G, check=True)))
                    if okh and okh2:
                        c.true(nm + "/rejects_after_inplace_change", bool(rh) is False, "%s accepted an array that was valid when first tested and was then changed in place (distance %.3g)" % (nm, d), distance=d, pred=nm)
                    c.true(nm + "/rejects", r is False, "%s accepted a matrix at distance %.3g (%s)" % (nm, d, case["defect"]), distance=d, reflection=case["defect"] in ("reflect", "swap"), pred=nm)
                elif d <= ACCEPT:
                    c.true(nm + "/accepts", r is True, "%s rejected a valid matrix (distance %.3g)" % (nm, d), distance=d, pred=nm)
            # the classes' own validity tests (used by every constructor)
            cname = ("SE" if se else "SO") + str(dim)
            okc, r = c.lib(cname + ".isvalid", lambda: getattr(L, cname).isvalid(H(M), check=True))
            if okc:
                if d > REJECT:
                    c.true(cname + ".isvalid/rejects", bool(r) is False, "%s.isvalid accepted a matrix at distance %.3g (%s)" % (cname, d, case["defect"]), distance=d)
                elif d <= ACCEPT:
                    c.true(cname + ".isvalid/accepts", bool(r) is True, "%s.isvalid rejected a valid matrix (distance %.3g)" % (cname, d), distance=d)
            # wrong kind of argument is simply False with check on
            if dim == 3 and se:
                okc, r = c.lib("isrot/4x4", lambda: b.isrot(M.copy(), check=True))
                if okc:
                    c.true("isrot/4x4", bool(r) is False, "isrot accepted a 4x4 matrix")
    # an object of a related class (sub- or super-class) is not a value of this class: the constructor must raise,
    # or (documented conversions) return an object holding only members of its own group
    T3, T2 = member(case, 3, True), member(case, 2, True)
    rel = {"SO3(SE3)": (lambda: L.SO3(L.SE3(T3.copy(), check=False)), (3, 3), 3, False),
           "SO3([SE3])": (lambda: L.SO3([L.SE3(T3.copy(), check=False)]), (3, 3), 3, False),
           "SO2(SE2)": (lambda: L.SO2(L.SE2(T2.copy(), check=False)), (2, 2), 2, False),
           "SO2([SE2,SE2])": (lambda: L.SO2([L.SE2(T2.copy(), check=False), L.SE2(T2.copy(), check=False)]), (2, 2), 2, False),
           "SE3(SO3)": (lambda: L.SE3(L.SO3(T3[:3, :3].copy(), check=False)), (4, 4), 3, True),
           "SE2(SO2)": (lambda: L.SE2(L.SO2(T2[:2, :2].copy(), check=False)), (3, 3), 2, True),
           "SE3(SE2)": (lambda: L.SE3(L.SE2(T2.copy(), check=False)), (4, 4), 3, True)}
    for nm, (f, shape, dim, se) in rel.items():
        try:
            obj = f()
        except Exception:  # noqa
            continue
        for a in obj.data:
            okm = isinstance(a, np.ndarray) and a.shape == shape and group_distance(np.asarray(a, dtype=float), dim, se) <= REJECT
            if not c.true("related/" + nm, okm, "%s returned a %s holding %r" % (nm, type(obj).__name__, getattr(a, "shape", a))):
                break
    # algebra predicates
    mag = case["mag"]
    P = np.array(case["pattern"]).reshape(4, 4)
    for dim in (3, 2):
        A = algebra_member(case, dim)
        n = dim
        S = A[:n, :n].copy()
        okc, r = c.lib("isskew", b.isskew, H(S))
        if okc:
            c.true("isskew/accepts", bool(r) is True, "isskew rejected an exactly skew-symmetric matrix")
        okc, r = c.lib("isskewa", b.isskewa, H(A))
        if okc:
            c.true("isskewa/accepts", bool(r) is True, "isskewa rejected an exact se(%d) matrix" % n)
        if mag > 1e-6:
            Sb = S + mag * (np.abs(P[:n, :n]) + 0.5)
            asym = float(np.max(np.abs(Sb + Sb.T)))
            if asym > 1e-6:
                okc, r = c.lib("isskew", b.isskew, H(Sb))
                if okc:
                    c.true("isskew/rejects", bool(r) is False, "isskew accepted asymmetry %.3g" % asym)
                Ab = A.copy()
                Ab[:n, :n] = Sb
                okc, r = c.lib("isskewa", b.isskewa, H(Ab))
                if okc:
                    c.true("isskewa/rejects", bool(r) is False, "isskewa accepted asymmetry %.3g" % asym)
            Ab = A.copy()
            Ab[n, case["i"] % (n + 1)] = mag
            okc, r = c.lib("isskewa", b.isskewa, H(Ab))
            if okc:
                c.true("isskewa/lastrow", bool(r) is False, "isskewa accepted last-row entry %.3g" % mag)
        I = np.eye(n)
        okc, r = c.lib("iseye", b.iseye, H(I))
        if okc:
            c.true("iseye/accepts", bool(r) is True, "iseye rejected the identity")
        if mag > 1e-6:
            Ib = I.copy()
            Ib[case["i"] % n, case["j"] % n] += mag
            okc, r = c.lib("iseye", b.iseye, H(Ib))
            if okc:
                c.true("iseye/rejects", bool(r) is False, "iseye accepted identity + %.3g" % mag)
    # vector predicates
    v = arr(case["vec"])
    if np.max(np.abs(v)) < 1e-3:
        v[0] = 1.0
    u = refs.unit(v)
    vm = case["vmag"]
    okc, r = c.lib("isunitvec", b.isunitvec, u.copy())
    if okc:
        c.true("isunitvec/accepts", bool(r) is True, "isunitvec rejected a normalised vector (|v|-1 = %.3g)" % (np.linalg.norm(u) - 1))
    if abs(vm - 1) > 1e-6:
        okc, r = c.lib("isunitvec", b.isunitvec, u * vm)
        if okc:
            c.true("isunitvec/rejects", bool(r) is False, "isunitvec accepted norm %.9g" % vm)
    okc, r = c.lib("iszerovec", b.iszerovec, np.zeros(len(v)))
    if okc:
        c.true("iszerovec/accepts", bool(r) is True, "iszerovec rejected the zero vector")
    if vm > 1e-6:
        okc, r = c.lib("iszerovec", b.iszerovec, u * vm)
        if okc:
            c.true("iszerovec/rejects", bool(r) is False, "iszerovec accepted norm %.3g" % vm)
        okc, r = c.lib("iszero", b.iszero, vm)
        if okc:
            c.true("iszero/rejects", bool(r) is False, "iszero accepted %.3g" % vm)
    okc, r = c.lib("iszero", b.iszero, 0.0)
    if okc:
        c.true("iszero/accepts", bool(r) is True, "iszero rejected 0.0")
    # unit quaternion predicate
    q4 = np.r_[v, 0.3, -0.2, 0.9][:4]
    q4 = refs.unit(q4 if np.max(np.abs(q4)) > 1e-3 else np.array([0.3, -0.2, 0.9, 0.1]))
    okc, r = c.lib("isunit", b.isunit, q4.copy())
    if okc:
        c.true("isunit/accepts", bool(r) is True, "quaternion isunit rejected a unit quaternion")
    if abs(vm - 1) > 1e-6:
        okc, r = c.lib("isunit", b.isunit, q4 * vm)
        if okc:
            c.true("isunit/rejects", bool(r) is False, "quaternion isunit accepted norm %.9g" % vm)
    # unit twists
    w3 = np.r_[v, 0.5, 0.25, 0.125][:3]
    w3 = refs.unit(w3 if np.max(np.abs(w3)) > 1e-3 else np.array([0.5, 0.25, 0.125]))
    tw = np.r_[arr(case["m3"]["t"]), w3]
    okc, r = c.lib("isunittwist", b.isunittwist, tw.copy())
    if okc:
        c.true("isunittwist/accepts", bool(r) is True, "isunittwist rejected a twist with unit rotational part")
    okc, r = c.lib("isunittwist", b.isunittwist, np.r_[w3, 0.0, 0.0, 0.0])
    if okc:
        c.true("isunittwist/accepts_prismatic", bool(r) is True, "isunittwist rejected a unit prismatic twist")
    if abs(vm - 1) > 1e-6 and vm > 1e-6:
        okc, r = c.lib("isunittwist", b.isunittwist, np.r_[arr(case["m3"]["t"]), w3 * vm])
        if okc:
            c.true("isunittwist/rejects", bool(r) is False, "isunittwist accepted |w| = %.9g" % vm)
        okc, r = c.lib("isunittwist2", b.isunittwist2, np.r_[arr(case["m2"]["t"]), vm])
        if okc:
            c.true("isunittwist2/rejects", bool(r) is False, "isunittwist2 accepted |w| = %.9g" % vm)
    okc, r = c.lib("isunittwist2", b.isunittwist2, np.r_[arr(case["m2"]["t"]), -1.0])
    if okc:
        c.true("isunittwist2/accepts", bool(r) is True, "isunittwist2 rejected w = -1")
    return c.out


def classify(case):
    if case.get("kind") == "accept_many":
        return {"kind:accept_many": True, "nontrivial": True}
    k = case["kind"]
    lab = {"kind:" + k: True, "defect:" + case["defect"]: True}
    refl = case["defect"] in ("reflect", "swap", "inplace", "wholescale")
    midmag = 1e-9 <= case["mag"] <= 1e-3 and case["defect"] in ("noise", "scale", "lastrow", "algebra")
    if k == "ctor":
        mixed = case["container"] in ("valid_bad", "bad_valid", "valid_bad_valid")
        lab.update({"cls:" + case["cls"]: True, "container:" + case["container"]: True, "mixed_list": mixed})
        lab["nontrivial"] = bool(refl or midmag or mixed)
    else:
        lab["nontrivial"] = bool(refl or midmag)
    lab["reflection"] = refl
    return lab


def subchecks(tier):
    return [
        Sub("cells", gen=gen_cells, shards=(4, 4)),
        Sub("pred_cells", gen=gen_pred_cells, shards=(2, 2)),
        Sub("ctor", strategy=s_ctor(), n=(600, 15000), shards=(6, 16)),
        Sub("pred", strategy=s_pred(), n=(400, 10000), shards=(5, 16)),
        Sub("accept_constructor_outputs", strategy=s_accept_many(), n=(40, 400), shards=(8, 16)),
    ]
