"""
C06  Applying a pose to points is the rigid motion p -> R p + t.
"""
import numpy as np
from hypothesis import strategies as st

from .. import gens, refs
from ..runner import Sub
from . import probes
from .common import L, Checker, arr

PROPERTY_ID = "C06"
RULE = ("one set of reference parameters (unit quaternion / angle, translation) from which every representation is built "
        "directly (SO3, SE3, UnitQuaternion, UnitDualQuaternion, homtrans, qvmul, h2e(T e2h(p)); SO2, SE2 in 2D); point "
        "argument as list, tuple, 1-D, row, column or d x N array (N=1..7 incl. N=d), coordinates 1e-6..1e6, pose objects "
        "holding 1..5 values. Oracle: NumPy R p + t; (XY)p = X(Yp); X^-1(Xp) = p; column j of a d x N result = single call on "
        "column j; M-valued pose x one point = one column per value. Non-trivial: N >= 2, or N = d, or multi-valued pose, or "
        "|p| / |t| ratio > 1e3, or a non-list container.")
RULE = RULE + probes.RULE_TEXT + (probes.AUG_TEXT if PROPERTY_ID in probes.AUG_PROPS else "") + probes.VARIANT_TEXT + probes.OWN_TEXT + probes.EXTRA_RULES.get(PROPERTY_ID, "")
ASSUMPTIONS = ["tolerance 1e-9*max(1,|t|,|p|)", "single-vector results are compared after ravel(): the statement fixes values, not (d,1) vs (d,)",
               "column-by-column equality of a d x N call with N single calls is judged to 1e-12 relative (BLAS may sum in a different order)",
               "multi-valued pose x (d,N) matrix is outside the statement and not called"]

FORMS = ["list", "tuple", "array", "row", "col", "matrix"]


def coord():
    return st.one_of(gens.signed_logmag(-6, 6), gens.signed_logmag(-1, 1), st.just(0.0))


def s_case(dim):
    pose = gens.pose3(t_hi=6, tiny=True) if dim == 3 else gens.pose2(t_hi=6)
    pt = st.lists(coord(), min_size=dim, max_size=dim)
    return st.fixed_dictionaries({
        "kind": st.just("pt%d" % dim),
        "poses": st.lists(pose, min_size=1, max_size=5),
        "Y": pose,
        "pts": st.one_of(st.lists(pt, min_size=1, max_size=1), st.lists(pt, min_size=1, max_size=7), st.lists(pt, min_size=dim, max_size=dim)),
        "form": st.sampled_from(FORMS),
        "int_points": st.booleans(),
        "micro": st.one_of(st.none(), st.none(), st.none(), st.fixed_dictionaries({"s": gens.logmag(-8, -3), "delta": gens.logmag(-8, -1), "axis": st.integers(0, 5)})),
        # element type of the point array: values are then integers spread over the range of that type
        "ptype": st.sampled_from([None, None, None, None, "int8", "int16", "uint8", "uint16", "int32", "float32"]),
    })


def check_case(case):
    if case.get("kind") in ("hist", "aug", "variant", "own"):
        return probes.run(case, PROPERTY_ID)
    return _pt(case, 3 if case["kind"] == "pt3" else 2)


def _pose_ref(spec, dim):
    return refs.pose3_of(spec) if dim == 3 else refs.pose2_of(spec)


def _arg(P, form, ptype=None):
    """P is (d, N) float array; realise the point argument in the given container form (ndarray forms in element type ptype)"""
    d, n = P.shape
    if ptype:
        P = P.astype(np.dtype(ptype))
    if form == "matrix" or n > 1:
        return P.copy()
    v = P[:, 0]
    if form == "list":
        return [float(x) for x in v]
    if form == "tuple":
        return tuple(float(x) for x in v)
    if form == "array":
        return v.copy()
    if form == "row":
        return v.copy().reshape(1, -1)
    return v.copy().reshape(-1, 1)


def _cmp(c, site, got, want, tol, sc, **extra):
    """compare a returned point array with the (d,N) reference; single vectors after ravel()"""
    try:
        g = np.asarray(got, dtype=float)
    except Exception as e:  # noqa
        c.fail(site + "/numeric", "returned %r (%s)" % (got, e))
        return
    if want.shape[1] == 1 and g.size == want.size:
        g = g.reshape(want.shape)
    c.eq(site, g, want, tol, sc, **extra)


def _pt(case, dim):
    Ts = [_pose_ref(s, dim) for s in case["poses"]]
    T = Ts[0]
    R, t = T[:dim, :dim], T[:dim, dim]
    Y = _pose_ref(case["Y"], dim)
    P = arr(case["pts"]).T              # (d, N)
    if case["int_points"]:
        P = np.round(np.clip(P, -1e6, 1e6))
    ptype = case.get("ptype")
    if ptype:
        # the same numbers in a narrow element type, spread over its whole range (products of them overflow the TYPE, not float64)
        hi = {"int8": 127, "int16": 32767, "uint8": 255, "uint16": 65535, "int32": 2 ** 31 - 1, "float32": 1e6}[ptype]
        m = float(np.max(np.abs(P))) or 1.0
        P = np.round(P / m * hi * 0.97)
        if ptype.startswith("u"):
            P = np.abs(P)
    mic = case.get("micro")
    if mic and not ptype and not case["int_points"]:
        # small-scale data (micrometres) whose transformed first point has one coordinate far smaller than the others but
        # far above rounding: a result coordinate of 1e-15 is as much a number as one of 1e-3
        s_ = mic["s"]
        tt = T[:dim, dim]
        tt = (tt / np.linalg.norm(tt) if np.linalg.norm(tt) > 0 else np.eye(dim)[0]) * s_ * 0.7
        T = T.copy()
        T[:dim, dim] = tt
        Ts[0] = T
        t = tt
        y = np.array([0.9, -0.6, 0.8][:dim]) * s_
        y[mic["axis"] % dim] = mic["delta"] * s_ * (-1.0 if mic["axis"] >= dim else 1.0)
        P = P / (float(np.max(np.abs(P))) or 1.0) * s_
        P[:, 0] = R.T @ (y - t)
    N = P.shape[1]
    form = case["form"]
    # 'relative to the data magnitude': no floor at 1, so that micrometre-scale data are judged at their own scale
    sc = max(1e-300, float(np.max(np.abs(t))), float(np.max(np.abs(P))))
    tol = 1e-9
    c = Checker("pt%d" % dim, N=N, form=form if N == 1 else "matrix", nvals=len(Ts), dim=dim)
    want_se = R @ P + t[:, None]
    want_so = R @ P
    SOc, SEc = (L.SO3, L.SE3) if dim == 3 else (L.SO2, L.SE2)
    arg = _arg(P, form, ptype)
    X_se = SEc(T.copy(), check=False)
    X_so = SOc(R.copy(), check=False)
    ok, got = c.lib("SE*p", lambda: X_se * arg)
    if ok:
        _cmp(c, "SE*p/value", got, want_se, tol, sc)
        if N > 1:
            g = np.asarray(got, dtype=float)
            if g.shape == (dim, N):
                for j in range(N):
                    ok1, g1 = c.lib("SE*p/single", lambda: X_se * P[:, j].copy())
                    if ok1:
                        c.eq("SE*p/column=single", g[:, j], np.asarray(g1, dtype=float).ravel(), 1e-12, sc)
    ok, got = c.lib("SO*p", lambda: X_so * arg)
    if ok:
        _cmp(c, "SO*p/value", got, want_so, tol, sc)
    # base function routes
    b = L.base
    ok, got = c.lib("homtrans", b.homtrans, T.copy(), arg if N > 1 or form != "row" else P[:, 0].copy())
    if ok:
        _cmp(c, "homtrans/value", got, want_se, tol, sc)
    ok, got = c.lib("h2e(T@e2h(p))", lambda: b.h2e(T @ b.e2h(P.copy())))
    if ok:
        _cmp(c, "h2e(T@e2h(p))/value", got, want_se, tol, sc)
    ok, got = c.lib("e2h", b.e2h, P.copy())
    if ok:
        c.eq("e2h/value", got, np.vstack([P, np.ones((1, N))]), 0)
        ok2, back = c.lib("h2e", b.h2e, np.asarray(got, dtype=float) * 2.0)
        if ok2:
            c.eq("h2e(2*e2h(p))", back, P, 1e-15, max(1.0, float(np.max(np.abs(P)))))
    # composition and inverse
    Xy = SEc(Y.copy(), check=False)
    ok, lhs = c.lib("(X*Y)*p", lambda: (X_se * Xy) * arg)
    ok2, rhs = c.lib("X*(Y*p)", lambda: X_se * (Xy * arg))
    scy = max(sc, float(np.max(np.abs(Y[:dim, dim]))), float(np.max(np.abs((T @ Y)[:dim, dim]))))
    if ok and ok2:
        _cmp(c, "(XY)p=X(Yp)", np.asarray(lhs, dtype=float), np.asarray(rhs, dtype=float).reshape(dim, -1), tol, scy)
        _cmp(c, "(XY)p/value", lhs, R @ (Y[:dim, :dim] @ P + Y[:dim, dim][:, None]) + t[:, None], tol, scy)
    ok, back = c.lib("X.inv()*(X*p)", lambda: X_se.inv() * (X_se * arg))
    if ok:
        _cmp(c, "Xinv(Xp)=p", back, P, tol, sc)
    ok, back = c.lib("R.inv()*(R*p)", lambda: X_so.inv() * (X_so * arg))
    if ok:
        _cmp(c, "Rinv(Rp)=p", back, P, tol, sc)
    Xyo = SOc(Y[:dim, :dim].copy(), check=False)
    ok, lhs = c.lib("(R*S)*p", lambda: (X_so * Xyo) * arg)
    ok2, rhs = c.lib("R*(S*p)", lambda: X_so * (Xyo * arg))
    if ok and ok2:
        _cmp(c, "(RS)p=R(Sp)", np.asarray(lhs, dtype=float), np.asarray(rhs, dtype=float).reshape(dim, -1), tol, sc)
        _cmp(c, "(RS)p/value", lhs, R @ (Y[:dim, :dim] @ P), tol, sc)
    # isometry on the library's own output
    if N >= 2:
        ok, got = c.lib("SE*p", lambda: X_se * P.copy())
        if ok:
            g = np.asarray(got, dtype=float)
            if g.shape == (dim, N):
                d_in = np.linalg.norm(P[:, 1:] - P[:, :1], axis=0)
                d_out = np.linalg.norm(g[:, 1:] - g[:, :1], axis=0)
                c.eq("isometry", d_out, d_in, tol * 4, sc)
                if N >= dim + 1:
                    Din = P[:, 1:dim + 1] - P[:, :1]
                    Dout = g[:, 1:dim + 1] - g[:, :1]
                    din, dout = float(np.linalg.det(Din)), float(np.linalg.det(Dout))
                    vol = float(np.prod(np.linalg.norm(Din, axis=0)))
                    if abs(din) > 1e-3 * vol and vol > 0 and float(np.max(np.abs(P))) < 1e3 * max(1e-300, float(np.min(np.linalg.norm(Din, axis=0)))):
                        c.true("handedness", din * dout > 0, "orientation of a point frame flipped: det %.3g -> %.3g" % (din, dout))
    if dim == 3:
        q = refs.q_of(case["poses"][0]["rot"])
        Rq = refs.q2r(q)
        want_q = Rq @ P
        ok, U = c.lib("UnitQuaternion", L.UnitQuaternion, [float(x) for x in q])
        if ok:
            ok2, got = c.lib("UQ*p", lambda: U * arg)
            if ok2:
                _cmp(c, "UQ*p/value", got, want_q, tol, sc)
        if ok:
            qy = refs.q_of(case["Y"]["rot"])
            Uy = L.UnitQuaternion([float(x) for x in qy])
            ok2, lhs = c.lib("(q1*q2)*p", lambda: (U * Uy) * arg)
            ok3, rhs = c.lib("q1*(q2*p)", lambda: U * np.asarray(Uy * arg, dtype=float).reshape(P.shape if N > 1 else (3,)))
            if ok2 and ok3:
                _cmp(c, "(q1q2)p=q1(q2p)", lhs, np.asarray(rhs, dtype=float).reshape(3, -1), tol, sc)
                _cmp(c, "(q1q2)p/value", lhs, Rq @ refs.q2r(qy) @ P, tol, sc)
            ok2, back = c.lib("q.inv()*(q*p)", lambda: U.inv() * np.asarray(U * arg, dtype=float).reshape(P.shape if N > 1 else (3,)))
            if ok2:
                _cmp(c, "qinv(qp)=p", back, P, tol, sc)
        if N == 1:
            ok, got = c.lib("qvmul", b.qvmul, q.copy(), arg)
            if ok:
                _cmp(c, "qvmul/value", got, want_q, tol, sc)
            # unit dual quaternion: real = q, dual = 1/2 (0,t) o q  computed by the reference product
            for sgn in (1.0, -1.0):            # both quaternions of the double cover describe the same motion
                qs_ = sgn * q
                dual = 0.5 * refs.qmul(np.r_[0.0, t], qs_)
                ok, D = c.lib("UnitDualQuaternion", L.UnitDualQuaternion, L.UnitQuaternion([float(x) for x in qs_]), L.Quaternion(dual.copy()))
                if ok:
                    ok2, got = c.lib("UDQ*p", lambda: D * arg)
                    if ok2:
                        if c.true("UDQ*p/notnone", got is not None, "UnitDualQuaternion * point returned None"):
                            _cmp(c, "UDQ*p/value", got, Rq @ P + t[:, None], tol, sc, real_scalar_negative=sgn < 0)
                    ok2, Tudq = c.lib("UDQ.SE3", D.SE3)
                    if ok2:
                        Au = np.asarray(Tudq.A, dtype=float)
                        if c.true("UDQ.SE3/shape", Au.shape == (4, 4), "shape %s" % (Au.shape,)):
                            # rotation entries are of size 1 whatever the scale of the data, the translation is data
                            c.eq("UDQ.SE3/rotation", Au[:3, :3], Rq, tol, 1.0)
                            c.eq("UDQ.SE3/value", Au[:3, 3], t, tol, sc)
    if dim == 3 and N == 1:
        # composed unit dual quaternions: (D1 D2) p = D1 (D2 p) = R1 (R2 p + t2) + t1, for both signs of either factor
        qy = refs.q_of(case["Y"]["rot"])
        Ry, ty = refs.q2r(qy), Y[:3, 3]
        scy = max(sc, float(np.max(np.abs(ty))))
        for s1, s2 in ((1.0, 1.0), (1.0, -1.0), (-1.0, 1.0)):
            q1, q2 = s1 * q, s2 * qy
            okd, D1 = c.lib("UnitDualQuaternion", L.UnitDualQuaternion, L.UnitQuaternion([float(x) for x in q1]), L.Quaternion(0.5 * refs.qmul(np.r_[0.0, t], q1)))
            okd2, D2 = c.lib("UnitDualQuaternion", L.UnitDualQuaternion, L.UnitQuaternion([float(x) for x in q2]), L.Quaternion(0.5 * refs.qmul(np.r_[0.0, ty], q2)))
            if not (okd and okd2):
                continue
            okm, D12 = c.lib("UDQ*UDQ", lambda: D1 * D2)
            if not okm:
                continue
            want12 = Rq @ (Ry @ P + ty[:, None]) + t[:, None]
            ok2, got = c.lib("(D1*D2)*p", lambda: D12 * arg)
            if ok2 and c.true("(D1D2)p/notnone", got is not None, "product of unit dual quaternions times a point returned None"):
                _cmp(c, "(D1D2)p/value", got, want12, tol, scy)
            ok3, inner = c.lib("D2*p", lambda: D2 * arg)
            if ok3 and inner is not None:
                ok4, got2 = c.lib("D1*(D2*p)", lambda: D1 * np.asarray(inner, dtype=float).ravel())
                if ok4 and got2 is not None:
                    _cmp(c, "D1(D2p)/value", got2, want12, tol, scy)
            ok5, T12 = c.lib("(D1*D2).SE3", lambda: D12.SE3())
            if ok5:
                A12 = np.asarray(T12.A, dtype=float)
                if c.true("(D1D2).SE3/shape", A12.shape == (4, 4), "shape %s" % (A12.shape,)):
                    c.eq("(D1D2).SE3/rotation", A12[:3, :3], Rq @ Ry, tol, 1.0)
                    c.eq("(D1D2).SE3/translation", A12[:3, 3], Rq @ ty + t, tol, max(scy, 1e-300))
    if dim == 3:
        # conversion routes (matrix -> quaternion extraction is only accurate to ~1e-8 next to a half turn: 1e-6 here)
        ok, Uc = c.lib("UnitQuaternion(SO3)", L.UnitQuaternion, X_so)
        if ok:
            ok2, got = c.lib("UQ(SO3)*p", lambda: Uc * arg)
            if ok2:
                _cmp(c, "UQ(SO3)*p/value", got, want_so, 1e-6, sc)
        if N == 1:
            ok, Dc = c.lib("UnitDualQuaternion(SE3)", L.UnitDualQuaternion, X_se)
            if ok:
                ok2, got = c.lib("UDQ(SE3)*p", lambda: Dc * arg)
                if ok2 and got is not None:
                    _cmp(c, "UDQ(SE3)*p/value", got, want_se, 1e-6, sc)
    # multi-valued pose x one point -> one column per value
    if len(Ts) > 1 and N == 1:
        Xm = SEc([Ti.copy() for Ti in Ts], check=False)
        want = np.stack([Ti[:dim, :dim] @ P[:, 0] + Ti[:dim, dim] for Ti in Ts], axis=1)
        scm = max([sc] + [float(np.max(np.abs(Ti[:dim, dim]))) for Ti in Ts])
        ok, got = c.lib("SE[M]*p", lambda: Xm * arg)
        if ok:
            c.eq("SE[M]*p/value", got, want, tol, scm)
            # the inverse of a multi-valued pose undoes each value: Xm.inv()[i] * (Xm * p)[:, i] = p
            oki, Xi = c.lib("SE[M].inv", Xm.inv)
            g = np.asarray(got, dtype=float)
            if oki and g.shape == want.shape and c.true("SE[M].inv/len", len(Xi) == len(Ts), "inverse of %d values holds %d" % (len(Ts), len(Xi))):
                for i in range(len(Ts)):
                    okb, back = c.lib("SE[M].inv[i]*(X*p)", lambda i=i: Xi[i] * g[:, i].copy())
                    if okb:
                        c.eq("SE[M].inv*(X*p)=p", np.asarray(back, dtype=float).ravel(), P[:, 0], tol, scm)
        Xr = SOc([Ti[:dim, :dim].copy() for Ti in Ts], check=False)
        ok, got = c.lib("SO[M]*p", lambda: Xr * arg)
        if ok:
            c.eq("SO[M]*p/value", got, np.stack([Ti[:dim, :dim] @ P[:, 0] for Ti in Ts], axis=1), tol, sc)
        if dim == 3:
            qs = [refs.q_of(s["rot"]) for s in case["poses"]]
            ok, Um = c.lib("UnitQuaternion[M]", L.UnitQuaternion, [q.copy() for q in qs])
            if ok:
                ok2, got = c.lib("UQ[M]*p", lambda: Um * arg)
                if ok2:
                    c.eq("UQ[M]*p/value", got, np.stack([refs.q2r(q) @ P[:, 0] for q in qs], axis=1), tol, sc)
    return c.out


def classify(case):
    if case.get("kind") in ("hist", "aug", "variant", "own"):
        return probes.classify(case)
    dim = 3 if case["kind"] == "pt3" else 2
    N = len(case["pts"])
    pm = max(abs(x) for p in case["pts"] for x in p)
    tm = max(abs(x) for x in case["poses"][0]["t"])
    ratio = (pm / tm if tm > 0 else 1e9) if pm > 0 else 0
    lab = {"kind:" + case["kind"]: True, "N>=2": N >= 2, "N=d": N == dim, "multi_pose": len(case["poses"]) > 1,
           "ratio>1e3": ratio > 1e3 or (0 < ratio < 1e-3), "form:" + (case["form"] if N == 1 else "matrix"): True}
    lab["micro_scale_tiny_coordinate"] = bool(case.get("micro")) and not case.get("ptype") and not case["int_points"]
    lab["nontrivial"] = bool(N >= 2 or len(case["poses"]) > 1 or lab["ratio>1e3"] or (N == 1 and case["form"] not in ("list",)))
    return lab


def subchecks(tier):
    return [
        Sub("pt3", strategy=s_case(3), n=(250, 8000), shards=(10, 16)),
        Sub("pt2", strategy=s_case(2), n=(250, 8000), shards=(6, 16)),
        *probes.subs(PROPERTY_ID),
    ]
