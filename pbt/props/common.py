"""helpers shared by the property modules"""
import numpy as np

from ..runner import V  # noqa


class Lib:
    """lazy access to the code under test (imported after runner.setup_repo())"""

    def __getattr__(self, name):
        import spatialmath
        import spatialmath.base as base
        import sys
        from spatialmath import geom3d, spatialvector
        import spatialmath.DualQuaternion  # noqa
        dqmod = sys.modules['spatialmath.DualQuaternion']
        from spatialmath import twist as twistmod
        ns = {
            "sm": spatialmath, "base": base, "geom3d": geom3d, "sv": spatialvector, "dq": dqmod,
            "SO2": spatialmath.SO2, "SE2": spatialmath.SE2, "SO3": spatialmath.SO3, "SE3": spatialmath.SE3,
            "Quaternion": spatialmath.Quaternion, "UnitQuaternion": spatialmath.UnitQuaternion,
            "Twist2": twistmod.Twist2, "Twist3": twistmod.Twist3, "Plucker": geom3d.Plucker, "Plane": geom3d.Plane,
            "DualQuaternion": dqmod.DualQuaternion, "UnitDualQuaternion": dqmod.UnitDualQuaternion,
            "SpatialVelocity": spatialvector.SpatialVelocity, "SpatialAcceleration": spatialvector.SpatialAcceleration,
            "SpatialForce": spatialvector.SpatialForce, "SpatialMomentum": spatialvector.SpatialMomentum,
            "SpatialInertia": spatialvector.SpatialInertia,
        }
        self.__dict__.update(ns)
        return ns[name]


L = Lib()


def call(f, *a, **k):
    """(True, value) or (False, exception) - library calls whose failure is itself judged by the oracle"""
    try:
        return True, f(*a, **k)
    except Exception as e:  # noqa
        return False, e


def arr(x):
    return np.array(x, dtype=float)


def tmag(*ts):
    m = 1.0
    for t in ts:
        t = np.asarray(t, dtype=float)
        if t.size:
            m = max(m, float(np.max(np.abs(t))))
    return m


def finite(x):
    try:
        return bool(np.all(np.isfinite(np.asarray(x, dtype=float))))
    except Exception:  # noqa
        return False


def num(x):
    """float for feature records"""
    try:
        return float(x)
    except Exception:  # noqa
        return None


ERRSTATS = {}   # site -> [max err/tol ratio, count]   (headroom of every tolerance, reported in evidence)


class Checker:
    """collects violations for one case; eq/ok/raises helpers keep property code short"""

    def __init__(self, kind, **features):
        self.kind = kind
        self.f = dict(features)
        self.out = []

    def feat(self, **kw):
        self.f.update(kw)

    def fail(self, site, msg, **extra):
        f = dict(self.f)
        f.update(extra)
        self.out.append(V(self.kind + "/" + site, msg, **f))

    def eq(self, site, got, want, tol, scale=1.0, **extra):
        """|got-want|_max / scale <= tol, same shape, finite"""
        try:
            g = np.asarray(got, dtype=float)
        except Exception as e:  # noqa
            self.fail(site, "result not numeric: %r (%s)" % (got, e), **extra)
            return False
        w = np.asarray(want, dtype=float)
        if g.shape != w.shape:
            self.fail(site, "shape %s, expected %s" % (g.shape, w.shape), **extra)
            return False
        if g.size == 0:
            return True
        if not np.all(np.isfinite(g)):
            self.fail(site, "non-finite result %s" % np.array2string(g, precision=4), **extra)
            return False
        e = float(np.max(np.abs(g - w))) / max(scale, 1e-300)
        key = self.kind + "/" + site
        st_ = ERRSTATS.setdefault(key, [0.0, 0])
        st_[1] += 1
        if tol > 0 and e / tol > st_[0]:
            st_[0] = e / tol
        if not e <= tol:
            self.fail(site, "error %.3g > %.1g (scale %.3g)\n got=%s\nwant=%s" % (
                e, tol, scale, np.array2string(g, precision=17), np.array2string(w, precision=17)), err=e, **extra)
            return False
        return True

    def true(self, site, cond, msg, **extra):
        if not cond:
            self.fail(site, msg, **extra)
            return False
        return True

    def lib(self, site, f, *a, **k):
        """call library code that must not raise for this input; returns (ok, value)"""
        try:
            return True, f(*a, **k)
        except Exception as e:  # noqa
            self.fail(site, "raised %s: %s" % (type(e).__name__, e), exc=type(e).__name__)
            return False, None

    def must_raise(self, site, f, *a, exc=Exception, **k):
        try:
            r = f(*a, **k)
        except exc:
            return True
        except Exception as e:  # noqa
            self.fail(site, "raised %s (%s), expected %s" % (type(e).__name__, e, exc.__name__), exc=type(e).__name__)
            return False
        self.fail(site, "returned %r instead of raising" % (r,))
        return False


def fresh_str(s):
    """an equal string that is a different object from any literal / interned one (options read from a file, built at run time,
    np.str_ ...): option strings must be compared by value"""
    return (s + " ")[:-1] if isinstance(s, str) else s
