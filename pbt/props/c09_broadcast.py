"""
C09  Sequence broadcasting: element-wise results and strict length rules.
"""
import operator as _op

import numpy as np
from hypothesis import strategies as st

from .. import gens, refs
from ..runner import Sub
from . import probes
from .common import L, Checker, arr

PROPERTY_ID = "C09"
RULE = ("all (m,n) in 1..5 x 1..5 for every list-capable class (SO2, SE2, SO3, SE3, Quaternion, UnitQuaternion, Twist2, Twist3) "
        "and every operator of the class (* / + - == != **, pose*point, twist*pose) with pairwise distinct element values; "
        "oracle (metamorphic): element i of the result = the same operator on single-valued operands holding left[i or 0] and "
        "right[i or 0]; m != n both > 1 => ValueError; per-value accessors / unary methods on M values = the single-valued "
        "call on each element. Non-trivial: m != n or both > 1.")
RULE = RULE + probes.RULE_TEXT + (probes.AUG_TEXT if PROPERTY_ID in probes.AUG_PROPS else "") + probes.VARIANT_TEXT + probes.OWN_TEXT + probes.EXTRA_RULES.get(PROPERTY_ID, "")
ASSUMPTIONS = ["the single-valued operation is the reference: its correctness is decided by C02/C03/C05/C06, here only the broadcasting layer is judged",
               "eul()/rpy() of M poses: both the documented (M,3) and the implemented (3,M) layouts are accepted",
               "methods without a multi-value claim in docs or code (Quaternion.log/exp/matrix, angvec, n/o/a) are not called on sequences"]

POSES = ["SO2", "SE2", "SO3", "SE3"]
CLASSES = POSES + ["Quaternion", "UnitQuaternion", "Twist2", "Twist3"]
BINOPS = {
    "SO2": ["*", "/", "+", "-", "==", "!="], "SE2": ["*", "/", "+", "-", "==", "!="],
    "SO3": ["*", "/", "+", "-", "==", "!="], "SE3": ["*", "/", "+", "-", "==", "!="],
    "Quaternion": ["*", "+", "-", "==", "!="], "UnitQuaternion": ["*", "/", "+", "-", "==", "!="],
    "Twist2": ["*", "==", "!=", "*SE"], "Twist3": ["*", "==", "!=", "*SE"],
}
FN = {"*": _op.mul, "/": _op.truediv, "+": _op.add, "-": _op.sub, "==": _op.eq, "!=": _op.ne, "*SE": _op.mul}


def elem_strategy(cn):
    if cn in ("SO3", "SE3", "UnitQuaternion", "Twist3"):
        return gens.pose3(t_hi=2, lo_exp=-6)
    if cn in ("SO2", "SE2", "Twist2"):
        return gens.pose2(t_hi=2)
    return st.lists(gens.signed_logmag(-2, 2), min_size=4, max_size=4)


def s_binop():
    return st.sampled_from(CLASSES).flatmap(lambda cn: st.fixed_dictionaries({
        "kind": st.just("binop"), "cls": st.just(cn), "op": st.sampled_from(BINOPS[cn]),
        "m": st.integers(1, 5), "n": st.integers(1, 5),
        "pool": st.lists(elem_strategy(cn), min_size=10, max_size=10),
        "eqmask": st.lists(st.booleans(), min_size=5, max_size=5), "eqnear": st.sampled_from([False, False, False, True])}))


def default_pool(cn, size=10):
    if cn in ("SO3", "SE3", "UnitQuaternion", "Twist3"):
        return [{"rot": {"axis": [0.3 + 0.1 * k, -0.5, 0.8 - 0.2 * k], "angle": 0.3 + 0.12 * k, "via": "rod"}, "t": [1.0 + k, -2.0, 0.5 * k]} for k in range(size)]
    if cn in ("SO2", "SE2", "Twist2"):
        return [{"angle": 0.3 + 0.12 * k, "t": [1.0 + k, -2.0 + 0.5 * k]} for k in range(size)]
    return [[1.0 + k, 2.0, -3.0 + 0.5 * k, 4.0] for k in range(size)]


def gen_cells(tier):
    for cn in CLASSES:
        for op in BINOPS[cn] + ["**", "point", "scalar*", "*scalar", "scalar+", "scalar-"]:
            for m in range(1, 6):
                for n in range(1, 6):
                    if op in ("**", "point", "scalar*", "*scalar", "scalar+", "scalar-") and n != 1:
                        continue
                    yield {"kind": "binop", "cls": cn, "op": op, "m": m, "n": n, "pool": default_pool(cn),
                           "eqmask": [True, False, True, False, False]}
                    if op in ("==", "!=") and cn in ("SE3", "SE2"):
                        yield {"kind": "binop", "cls": cn, "op": op, "m": m, "n": n, "pool": default_pool(cn),
                               "eqmask": [True, False, True, False, False], "eqnear": True}
            # longer sequences than the 1..5 of the statement's quantifier (a vectorised path may switch with the length)
            for m, n in ((9, 9), (1, 9), (9, 1), (17, 17), (9, 4)):
                if op in ("**", "point", "scalar*", "*scalar", "scalar+", "scalar-") and n != 1:
                    continue
                yield {"kind": "binop", "cls": cn, "op": op, "m": m, "n": n, "pool": default_pool(cn, 34),
                       "eqmask": [True, False, True, False, False]}


CTORS = ["Rx", "Ry", "Rz", "RPY", "Eul", "Tx", "Ty", "Tz", "SO2", "Twist3.Rx", "Twist3.Ry", "Twist3.Rz", "UQ.Rx", "UQ.Ry", "UQ.Rz", "SE3(Nx3)", "Exp", "SO3.Exp(Nx3)", "SE2.Exp(list)", "SO2.Exp(list)"]
ORDERS = ["zyx", "xyz", "yxz", "arm", "vehicle", "camera"]


def s_ctor():
    return st.fixed_dictionaries({"kind": st.just("ctor"), "ctor": st.sampled_from(CTORS), "cls": st.sampled_from(["SO3", "SE3"]),
                                  "m": st.integers(1, 5), "unit": st.sampled_from(["rad", "deg"]), "order": st.sampled_from(ORDERS),
                                  "form": st.sampled_from(["list", "array"]),
                                  "rows": st.lists(st.lists(gens.fl(-3, 3), min_size=3, max_size=3), min_size=5, max_size=5)})


def gen_ctor_cells(tier):
    rows = [[0.3, -0.7, 1.1], [1.2, 0.4, -0.9], [-2.0, 0.8, 0.5], [0.1, 1.4, 2.2], [2.5, -1.1, -0.3]]
    rows = rows + [[r[0] + 0.11 * k, r[1] - 0.07 * k, r[2] + 0.05 * k] for k in range(1, 4) for r in rows]      # 20 rows
    for ct in CTORS:
        for cls in ("SO3", "SE3"):
            for m in (1, 2, 3, 4, 5, 6, 7, 8, 9, 17):          # 6, 4, 3: as many values as a twist / quaternion / vector has components
                for unit in ("rad", "deg"):
                    for order in (ORDERS if ct == "RPY" else ["zyx"]):
                        for form in ("list", "array"):
                            yield {"kind": "ctor", "ctor": ct, "cls": cls, "m": m, "unit": unit, "order": order, "form": form, "rows": rows}


def _ctor(case):
    ct, cn, M, unit, order = case["ctor"], case["cls"], case["m"], case["unit"], case["order"]
    rows = [list(r) for r in case["rows"][:M]]
    c = Checker("ctor", ctor=ct, cls=cn, m=M, unit=unit, order=order)
    cls = getattr(L, cn)
    arrf = (lambda x: np.array(x)) if case["form"] == "array" else (lambda x: list(x))
    angs = [r[0] for r in rows]
    if ct in ("Rx", "Ry", "Rz"):
        multi = lambda: getattr(cls, ct)(arrf(angs), unit)
        single = lambda i: getattr(cls, ct)(angs[i], unit)
    elif ct == "RPY":
        multi = lambda: cls.RPY(arrf(rows) if M > 1 else rows[0], order=order, unit=unit)
        single = lambda i: cls.RPY(rows[i], order=order, unit=unit)
    elif ct == "Eul":
        multi = lambda: cls.Eul(arrf(rows) if M > 1 else rows[0], unit=unit)
        single = lambda i: cls.Eul(rows[i], unit=unit)
    elif ct in ("Tx", "Ty", "Tz"):
        cls = L.SE3
        multi = lambda: getattr(L.SE3, ct)(arrf(angs))
        single = lambda i: getattr(L.SE3, ct)(angs[i])
    elif ct == "SO2":
        cls = L.SO2
        multi = lambda: L.SO2(arrf(angs), unit=unit)
        single = lambda i: L.SO2(angs[i], unit=unit)
    elif ct.startswith("Twist3."):
        cls = L.Twist3
        multi = lambda: getattr(L.Twist3, ct[7:])(arrf(angs), unit)
        single = lambda i: getattr(L.Twist3, ct[7:])(angs[i], unit)
    elif ct.startswith("UQ."):
        cls = L.UnitQuaternion
        multi = lambda: getattr(L.UnitQuaternion, ct[3:])(arrf(angs), unit)
        single = lambda i: getattr(L.UnitQuaternion, ct[3:])(angs[i], unit)
    elif ct == "SE3(Nx3)":
        if M == 1 or M == 3:
            return c.out               # a 3-vector / 3x3 array has another meaning
        cls = L.SE3
        multi = lambda: L.SE3(np.array(rows))
        single = lambda i: L.SE3(rows[i])
    elif ct == "SO3.Exp(Nx3)":
        # documented third call form: an Nx3 matrix of so(3) vectors, one per row (a 3x3 array needs so3=False)
        if M == 1:
            return c.out
        cls = L.SO3
        multi = (lambda: L.SO3.Exp(np.array(rows), so3=False)) if M == 3 else (lambda: L.SO3.Exp(np.array(rows)))
        single = lambda i: L.SO3.Exp(np.array(rows[i]))
    elif ct == "SE2.Exp(list)":
        if M == 1:
            return c.out
        cls = L.SE2
        multi = lambda: L.SE2.Exp([np.array(r) for r in rows])
        single = lambda i: L.SE2.Exp(np.array(rows[i]))
    elif ct == "SO2.Exp(list)":
        cls = L.SO2
        multi = lambda: L.SO2.Exp([L.base.skew(a) for a in angs])
        single = lambda i: L.SO2.Exp(L.base.skew(angs[i]))
    else:   # Exp of a list of twists
        cls = L.SE3
        tw = [r + r[::-1] for r in rows]
        if M == 1:
            return c.out
        multi = (lambda: L.SE3.Exp([np.array(t) for t in tw])) if case["form"] == "list" else (lambda: L.SE3.Exp(np.array(tw)))
        single = lambda i: L.SE3.Exp(np.array(tw[i]))
    ok, X = c.lib(ct + "/multi", multi)
    if not ok:
        return c.out
    if not c.true(ct + "/class", type(X) is cls and len(X) == M, "%s of %d values gave %s of length %s" % (ct, M, type(X).__name__, len(X) if hasattr(X, "__len__") else "?")):
        return c.out
    for i in range(M):
        ok, Xi = c.lib(ct + "/single", single, i)
        if ok and not same(X.data[i], Xi.data[0]):
            c.fail(ct + "/elements", "element %d of the %d-valued constructor result differs from the single-valued call" % (i, M), index=i)
            break
    return c.out


def s_unary():
    return st.sampled_from(CLASSES).flatmap(lambda cn: st.fixed_dictionaries({
        "kind": st.just("unary"), "cls": st.just(cn), "m": st.integers(1, 5),
        "pool": st.lists(elem_strategy(cn), min_size=5, max_size=5),
        "n": st.integers(-3, 3), "svec": st.lists(gens.fl(0, 1), min_size=1, max_size=4), "s": gens.fl(0, 1),
        "thetas": st.lists(gens.fl(-3, 3), min_size=5, max_size=5)}))


def gen_unary_cells(tier):
    for cn in CLASSES:
        for m in (1, 2, 3, 4, 5, 9, 17):          # 9, 17: beyond the statement's 1..5 (a vectorised path may switch with the length)
            yield {"kind": "unary", "cls": cn, "m": m, "pool": default_pool(cn, 17)[:max(5, m)], "n": 2, "svec": [0.0, 0.25, 1.0], "s": 0.4,
                   "thetas": [0.5, -1.0, 2.0, 0.1, 3.0] + [0.2 * k - 1.5 for k in range(12)]}


# --------------------------------------------------------------------------- #

def value(cn, spec):
    if cn == "SO3":
        return refs.rot_of(spec["rot"])
    if cn == "SE3":
        return refs.pose3_of(spec)
    if cn == "SO2":
        return refs.rot2(spec["angle"])
    if cn == "SE2":
        return refs.pose2_of(spec)
    if cn == "UnitQuaternion":
        return refs.q_of(spec["rot"])
    if cn == "Quaternion":
        return arr(spec)
    if cn == "Twist3":
        return np.r_[arr(spec["t"]), refs.unit(spec["rot"]["axis"]) * min(spec["rot"]["angle"], 3.0)]
    return np.r_[arr(spec["t"]), spec["angle"]]


def mk(cn, vals):
    cls = getattr(L, cn)
    if cn in POSES:
        return cls(vals[0].copy(), check=False) if len(vals) == 1 else cls([v.copy() for v in vals], check=False)
    return cls(vals[0].copy()) if len(vals) == 1 else cls([v.copy() for v in vals])


def as_list(res, n):
    """normalise a result holding n values into a list of n arrays / scalars"""
    if _isobj(res):
        return [np.asarray(a) for a in res.data]
    if n == 1:
        return [res]
    return list(res)


def _isobj(x):
    return isinstance(getattr(x, "data", None), list)


def same(a, b, tol=1e-12):
    try:
        a = np.asarray(a, dtype=float)
        b = np.asarray(b, dtype=float)
    except Exception:  # noqa
        return a == b
    if a.shape != b.shape:
        return False
    if a.size == 0:
        return True
    sc = max(1.0, float(np.max(np.abs(b))))
    return bool(np.all(np.isfinite(a))) and float(np.max(np.abs(a - b))) <= tol * sc


def check_case(case):
    if case.get("kind") in ("hist", "aug", "variant", "own"):
        return probes.run(case, PROPERTY_ID)
    return {"binop": _binop, "unary": _unary, "ctor": _ctor}[case["kind"]](case)


def _binop(case):
    cn, op, m, n = case["cls"], case["op"], case["m"], case["n"]
    c = Checker("binop", cls=cn, op=op, m=m, n=n)
    pool = [value(cn, s) for s in case["pool"]]
    lv = pool[:m]
    half = len(pool) // 2
    if op in ("==", "!="):
        # right operand: some elements equal to the left ones
        rv = [(lv[i % m] if case["eqmask"][i % len(case["eqmask"])] else pool[half + i]) for i in range(n)]
        if case.get("eqnear") and cn in ("SE3", "SE2"):
            # pairs whose difference sits on the boundary of the (relative) equality tolerance: x = 1e6 against x + 10.00005.
            # Which answer is right is not at stake here - only that element i of the answer is the single-valued answer
            lv = [np.array(v, dtype=float) for v in lv]
            for v in lv:
                v[0, -1] = 1e6
            rv = [np.array(lv[i % m], dtype=float) for i in range(n)]
            for i, v in enumerate(rv):
                v[0, -1] += (10.00005, -10.00005, 9.99995, 10.0001)[i % 4]
    else:
        rv = pool[half:half + n]
    left = mk(cn, lv)
    site = "%s %s" % (cn, op)
    if op == "**":
        if cn in ("Twist2", "Twist3"):
            return c.out
        k = 2
        f = lambda a, b: a ** k  # noqa
        right, rsingle = None, [None]
    elif op == "point":
        if cn not in POSES + ["UnitQuaternion"]:
            return c.out
        d = 2 if cn in ("SO2", "SE2") else 3
        p = [1.5, -2.0, 0.75][:d]
        f = lambda a, b: a * p  # noqa
        right, rsingle = None, [None]
    elif op in ("scalar*", "*scalar", "scalar+", "scalar-"):
        if cn in ("Twist2", "Twist3") and op in ("scalar+", "scalar-"):
            return c.out
        if cn in ("Quaternion", "UnitQuaternion") and op in ("scalar+", "scalar-"):
            return c.out
        sc = 2.5
        f = {"scalar*": lambda a, b: sc * a, "*scalar": lambda a, b: a * sc, "scalar+": lambda a, b: sc + a, "scalar-": lambda a, b: sc - a}[op]
        right, rsingle = None, [None]
    elif op == "*SE":
        se = "SE3" if cn == "Twist3" else "SE2"
        rvals = [(refs.expm_se3(v[:3], v[3:]) if cn == "Twist3" else refs.expm_se2(v[:2], v[2])) for v in rv]
        right = mk(se, rvals)
        rsingle = [mk(se, [v]) for v in rvals]
        f = FN[op]
    else:
        right = mk(cn, rv)
        rsingle = [mk(cn, [v]) for v in rv]
        f = FN[op]
    lsingle = [mk(cn, [v]) for v in lv]
    nn = n if right is not None else 1
    try:
        res = f(left, right)
        exc = None
    except Exception as e:  # noqa
        res, exc = None, e
    if m > 1 and nn > 1 and m != nn:
        if exc is None:
            c.fail(site + "/length_rule", "lengths %d and %d combined without error: %r" % (m, nn, type(res).__name__))
        elif not isinstance(exc, ValueError):
            c.fail(site + "/length_rule/type", "lengths %d and %d raised %s (%s), expected ValueError" % (m, nn, type(exc).__name__, exc))
        return c.out
    if exc is not None:
        c.fail(site + "/raised", "lengths (%d,%d) raised %s: %s" % (m, nn, type(exc).__name__, exc))
        return c.out
    N = max(m, nn)
    if op == "point":
        got = np.asarray(res, dtype=float)
        want = []
        for i in range(N):
            w = np.asarray(f(lsingle[i], None), dtype=float).ravel()
            want.append(w)
        want = np.stack(want, axis=1)
        if N == 1:
            got = got.reshape(want.shape) if got.size == want.size else got
        if not c.true(site + "/shape", got.shape == want.shape, "result shape %s, expected %s" % (got.shape, want.shape)):
            return c.out
        c.true(site + "/elements", same(got, want), "column-wise result differs from the single-valued products")
        return c.out
    try:
        items = as_list(res, N)
    except Exception as e:  # noqa
        c.fail(site + "/container", "result %r cannot be read as %d values (%s)" % (res, N, e))
        return c.out
    if not c.true(site + "/len", len(items) == N, "result holds %d values, expected %d" % (len(items), N)):
        return c.out
    # class of the result follows the single-valued case
    ref0 = f(lsingle[0], rsingle[0])
    if _isobj(ref0):
        c.true(site + "/class", type(res) is type(ref0), "result is %s, single-valued case gives %s" % (type(res).__name__, type(ref0).__name__))
    elif N > 1:
        c.true(site + "/class", isinstance(res, list), "result for %d values is %s, expected a list" % (N, type(res).__name__))
    for i in range(N):
        w = f(lsingle[i if m > 1 else 0], rsingle[i if nn > 1 else 0])
        w = as_list(w, 1)[0]
        g = items[i]
        if isinstance(w, (bool, np.bool_)):
            if not (isinstance(g, (bool, np.bool_)) and bool(g) == bool(w)):
                c.fail(site + "/elements", "element %d is %r, single-valued operation gives %r" % (i, g, w), index=i)
                break
        elif not same(g, w):
            c.fail(site + "/elements", "element %d differs from the single-valued operation:\n got %r\nwant %r" % (i, g, w), index=i)
            break
    return c.out


def _stack_cmp(c, site, got, singles, M, layouts=False):
    """accessor on M values must equal the stack of the accessor on each element"""
    try:
        if M == 1:
            g = np.asarray(got, dtype=float)
            w = np.asarray(singles[0], dtype=float)
            c.true(site, same(g, w), "single-valued accessor inconsistent")
            return
        w = np.stack([np.asarray(s, dtype=float) for s in singles])
        if _isobj(got):
            g = np.stack([np.asarray(a, dtype=float) for a in got.data])
        else:
            g = np.asarray([np.asarray(x, dtype=float) for x in got]) if isinstance(got, (list, tuple)) else np.asarray(got, dtype=float)
    except Exception as e:  # noqa
        c.fail(site, "result %r is not %d stacked values (%s)" % (got, M, e))
        return
    okk = g.shape == w.shape and same(g, w)
    if not okk and layouts and g.ndim == 2 and g.T.shape == w.shape:
        okk = same(g.T, w)
        if okk and M == 3:
            okk = same(g, w) or same(g.T, w)
    c.true(site, okk, "accessor on %d values differs from per-element results: shape %s vs %s" % (M, g.shape, w.shape))


def _unary(case):
    cn, M = case["cls"], case["m"]
    c = Checker("unary", cls=cn, m=M)
    vals = [value(cn, s) for s in case["pool"][:M]]
    X = mk(cn, vals)
    singles = [mk(cn, [v]) for v in vals]
    cls = getattr(L, cn)

    def objm(name, f):
        """method returning an object of some class with M values"""
        ok, r = c.lib(name, f, X)
        if not ok:
            return
        outs = [f(s) for s in singles]
        if not c.true(name + "/class", type(r) is type(outs[0]), "%s on %d values gives %s, single gives %s" % (name, M, type(r).__name__, type(outs[0]).__name__)):
            return
        if not c.true(name + "/len", len(r) == M, "%s on %d values gives %d values" % (name, M, len(r))):
            return
        for i in range(M):
            if not same(r.data[i], outs[i].data[0]):
                c.fail(name + "/elements", "%s: element %d differs from the single-valued call" % (name, i), index=i)
                break

    def acc(name, f, layouts=False):
        ok, r = c.lib(name, f, X)
        if ok:
            _stack_cmp(c, name + "/elements", r, [f(s) for s in singles], M, layouts)

    n = case["n"]
    if cn in POSES:
        objm("inv", lambda o: o.inv())
        objm("pow", lambda o: o ** n)
        objm("norm", lambda o: o.norm()) if cn in ("SO3", "SE3") else None
        acc("R", lambda o: o.R)
        acc("det", lambda o: o.det())
        acc("log", lambda o: o.log())
        acc("log/twist", lambda o: o.log(twist=True))
        if cn in ("SE2", "SE3"):
            acc("t", lambda o: o.t)
        if cn in ("SO3", "SE3"):
            acc("eul", lambda o: o.eul(), layouts=True)
            acc("eul/deg", lambda o: o.eul(unit="deg"), layouts=True)
            acc("eul/flip", lambda o: o.eul(flip=True), layouts=True)      # whatever flip does, it does it per value
            acc("eul/deg/flip", lambda o: o.eul("deg", True), layouts=True)
            acc("rpy", lambda o: o.rpy(), layouts=True)
            acc("rpy/xyz/deg", lambda o: o.rpy(unit="deg", order="xyz"), layouts=True)
        else:
            acc("theta", lambda o: o.theta())
            acc("theta/deg", lambda o: o.theta(unit="deg"))
        if cn == "SE2":
            acc("xyt", lambda o: o.xyt())
        # interpolation: M values x scalar s, and one value x vector s
        s = case["s"]
        objm("interp/scalar", lambda o: o.interp(s))
        for s_end in (0, 1, 0.0, 1.0):                           # the end points are values of s like any other
            objm("interp/scalar/end", lambda o, s_end=s_end: o.interp(s_end))
        # conversions to another class keep one result per value (each an array of its own)
        if cn == "SE2":
            objm("SE3()", lambda o: o.SE3())
            objm("SE3(z)", lambda o: o.SE3(0.5 + n))
            objm("Twist2()", lambda o: o.Twist2())
        if cn == "SE3":
            objm("Twist3()", lambda o: o.Twist3())
        sv = case["svec"]
        ok, r = c.lib("interp/vector", lambda: singles[0].interp(sv))
        if ok:
            if c.true("interp/vector/class", type(r) is cls and len(r) == len(sv), "interp over %d values of s gives %s of length %s" % (len(sv), type(r).__name__, len(r) if hasattr(r, "__len__") else "?")):
                for i, si in enumerate(sv):
                    w = singles[0].interp(si)
                    if not same(r.data[i], w.data[0]):
                        c.fail("interp/vector/elements", "interp(s)[%d] differs from interp(s[%d])" % (i, i), index=i)
                        break
        # the same with the optional start pose (position or keyword), end points 0 and 1 included in the vector
        if len(singles) > 1:
            Y0 = singles[1]
            for site, svx, call in (("interp/vector/start", [0.0] + list(sv) + [1.0], lambda o, a: o.interp(a, Y0)),
                                    ("interp/vector/start=", [0] + list(sv) + [1], lambda o, a: o.interp(a, start=Y0))):
                ok, r = c.lib(site, call, singles[0], svx)
                if ok and c.true(site + "/class", type(r) is cls and len(r) == len(svx), "interp over %d values of s with a start pose gives %s of length %s" % (
                        len(svx), type(r).__name__, len(r) if hasattr(r, "__len__") else "?")):
                    for i, si in enumerate(svx):
                        ok2, w = c.lib(site + "/single", call, singles[0], si)
                        if ok2 and not same(r.data[i], w.data[0]):
                            c.fail(site + "/elements", "interp(s, start)[%d] differs from interp(s[%d]=%r, start)" % (i, i, si), index=i, s=float(si))
                            break
            objm("interp/scalar/start", lambda o: o.interp(s, Y0))
        if M > 1:
            ok, pr = c.lib("prod", X.prod)
            if ok:
                acc_ = np.eye(vals[0].shape[0])
                for v in vals:
                    acc_ = acc_ @ v
                c.true("prod/value", type(pr) is cls and len(pr) == 1 and same(pr.A, acc_, 1e-9), "prod() differs from the ordered matrix product")
    elif cn in ("Quaternion", "UnitQuaternion"):
        objm("conj", lambda o: o.conj())
        objm("pow", lambda o: o ** n)
        objm("unit", lambda o: o.unit())
        acc("norm", lambda o: o.norm())
        acc("s", lambda o: o.s)
        acc("v", lambda o: o.v)
        acc("vec", lambda o: o.vec)
        if cn == "UnitQuaternion":
            objm("inv", lambda o: o.inv())
            acc("R", lambda o: o.R)
            acc("rpy", lambda o: o.rpy(), layouts=True)
            acc("rpy/deg/yxz", lambda o: o.rpy(unit="deg", order="yxz"), layouts=True)
            acc("eul", lambda o: o.eul(), layouts=True)
            acc("eul/deg", lambda o: o.eul(unit="deg"), layouts=True)
            objm("SO3()", lambda o: o.SO3())
            objm("SE3()", lambda o: o.SE3())
    else:
        objm("inv", lambda o: o.inv())
        acc("S", lambda o: o.S)
        acc("isprismatic", lambda o: o.isprismatic)
        acc("isrevolute", lambda o: o.isrevolute)
        acc("isunit", lambda o: o.isunit)
        acc("se", (lambda o: o.se3()) if cn == "Twist3" else (lambda o: o.se2()))
        if cn == "Twist3":
            ths = case["thetas"][:M]
            ok, r = c.lib("exp/thetas", lambda: X.exp(ths))
            if ok:
                if c.true("exp/thetas/class", type(r) is L.SE3 and len(r) == M, "exp over %d twists and %d angles gives %s" % (M, M, type(r).__name__)):
                    for i in range(M):
                        w = singles[i].exp(ths[i])
                        if not same(r.data[i], w.data[0]):
                            c.fail("exp/thetas/elements", "exp(thetas)[%d] differs from the single-valued call" % i, index=i)
                            break
            if M > 1:
                c.must_raise("exp/length_rule", lambda: X.exp(case["thetas"][:M] + [0.3]), exc=ValueError)
        ok, r = c.lib("exp/vector", lambda: singles[0].exp(case["thetas"][:3]))
        if ok:
            se = L.SE3 if cn == "Twist3" else L.SE2
            if c.true("exp/vector/class", type(r) is se and len(r) == 3, "exp over 3 angles gives %s" % type(r).__name__):
                for i in range(3):
                    w = singles[0].exp(case["thetas"][i])
                    if not same(r.data[i], w.data[0]):
                        c.fail("exp/vector/elements", "exp(thetas)[%d] differs from exp(thetas[%d])" % (i, i), index=i)
                        break
        # the same rule in degrees, for the general twist and for a purely translational (prismatic) one
        import contextlib
        import io
        v0 = np.asarray(vals[0], dtype=float)
        pr = np.r_[v0[:3] / max(1e-9, float(np.linalg.norm(v0[:3]))), 0.0, 0.0, 0.0] if cn == "Twist3" else np.r_[v0[:2] / max(1e-9, float(np.linalg.norm(v0[:2]))), 0.0]
        for label, S1 in (("general", singles[0]), ("prismatic", mk(cn, [pr]))):
            with contextlib.redirect_stdout(io.StringIO()):
                ok, r = c.lib("exp/vector/deg", lambda: S1.exp([20.0, -35.0, 80.0], "deg"))
                if ok and hasattr(r, "data") and len(r) == 3:
                    for i, a_ in enumerate((20.0, -35.0, 80.0)):
                        ok1, w = c.lib("exp/scalar/deg", lambda: S1.exp(a_, "deg"))
                        if ok1 and not same(r.data[i], w.data[0]):
                            c.fail("exp/vector/deg/elements", "%s twist: exp(thetas, 'deg')[%d] differs from exp(thetas[%d], 'deg')" % (label, i, i), index=i, twist=label)
                            break
    return c.out


def classify(case):
    if case.get("kind") in ("hist", "aug", "variant", "own"):
        return probes.classify(case)
    lab = {"kind:" + case["kind"]: True, "cls:" + case["cls"]: True}
    if case["kind"] == "binop":
        m, n = case["m"], case["n"]
        lab.update({"op:" + case["op"]: True, "mismatch": m > 1 and n > 1 and m != n, "1xM": m == 1 and n > 1, "Mx1": m > 1 and n == 1, "MxM": m == n and m > 1})
        lab["nontrivial"] = m != n or (m > 1 and n > 1)
    else:
        lab["nontrivial"] = case["m"] > 1
        if case["kind"] == "ctor":
            lab["ctor:" + case["ctor"]] = True
    return lab


def subchecks(tier):
    return [
        Sub("cells", gen=gen_cells, shards=(8, 16)),
        Sub("unary_cells", gen=gen_unary_cells, shards=(4, 8)),
        Sub("ctor_cells", gen=gen_ctor_cells, shards=(4, 8)),
        Sub("ctor", strategy=s_ctor(), n=(150, 5000), shards=(4, 16)),
        Sub("binop", strategy=s_binop(), n=(300, 10000), shards=(8, 16)),
        Sub("unary", strategy=s_unary(), n=(150, 5000), shards=(8, 16)),
        *probes.subs(PROPERTY_ID),
    ]
