"""
C18  Unit twists encode screw geometry.
"""
import math

import numpy as np
from hypothesis import strategies as st

from .. import gens, refs
from ..runner import Sub
from . import probes
from .common import L, Checker, arr

PROPERTY_ID = "C18"
RULE = ("revolute / prismatic unit twists in 3D (axis direction x length 1e-3..1e6, axis point |q|<=1e3) and 2D (point / "
        "direction), theta in [-2pi, 2pi] incl. 0 and multiples of pi/2, scalar and vector theta, deg/rad; oracle: points "
        "of the axis fixed by exp(theta S), rotation = reference Rodrigues(unit axis, theta), prismatic = translation "
        "theta*unit direction, pitch/pole/line/theta()/isprismatic, se(n) form, inverse and scalar multiples consistent "
        "with exp.  Non-trivial: axis not a coordinate axis, q != 0, theta != 0.")
RULE = RULE + probes.RULE_TEXT + (probes.AUG_TEXT if PROPERTY_ID in probes.AUG_PROPS else "") + probes.VARIANT_TEXT + probes.OWN_TEXT + probes.EXTRA_RULES.get(PROPERTY_ID, "")
ASSUMPTIONS = ["tolerance 1e-9*max(1,|q|)", "pitch argument of Revolute, isrevolute and isunit are not in the statement"]

TWO_PI = 2 * math.pi
PI_ = math.pi


def thetas():
    return st.one_of(st.sampled_from([0.0, math.pi / 2, -math.pi / 2, math.pi, -math.pi, 1.5 * math.pi, -1.5 * math.pi, TWO_PI, -TWO_PI]),
                     st.tuples(st.sampled_from([0.0, math.pi / 2, math.pi, -math.pi]), gens.offsets(1, 15)).map(lambda t: t[0] + t[1]),
                     gens.fl(-TWO_PI, TWO_PI), gens.fl(-TWO_PI, TWO_PI))


def theta_lists():
    """vector theta: independent values, or an arithmetic progression (a joint sweep) that is exact, or only NEARLY evenly
    spaced (one element off by a relative 1e-9 .. 1e-4 of the step): each element stands for itself"""
    def sweep(t):
        t0, step, n, j, eps, sgn = t
        out = [t0 + k * step for k in range(n)]
        if eps is not None:
            out[j % n] += sgn * eps * step
        return out
    sw = st.tuples(gens.fl(-PI_, PI_), st.one_of(gens.fl(0.05, 1.5), st.sampled_from([0.5, 1.0, PI_ / 4])), st.integers(3, 5), st.integers(0, 4),
                   st.one_of(st.none(), gens.logmag(-9, -4), gens.logmag(-7, -5)), st.sampled_from([-1.0, 1.0])).map(sweep)
    return st.one_of(st.lists(thetas(), min_size=1, max_size=4), st.lists(thetas(), min_size=1, max_size=4), sw)


def points(dim):
    return gens.trans(dim, -3, 3)


def s_rev3():
    return st.fixed_dictionaries({"kind": st.just("rev3"), "a": gens.axis3(-3, 6), "q": points(3), "theta": thetas(),
                                  "lam": gens.fl(-10, 10), "k": st.one_of(gens.fl(-3, 3), st.integers(-3, 3).map(float)),
                                  "thetas": theta_lists(), "form": st.sampled_from(["list", "array", "tuple"]),
                                  "theta_rule": st.sampled_from(THETA_RULES)})


def s_pris3():
    return st.fixed_dictionaries({"kind": st.just("pris3"), "a": gens.axis3(-3, 6), "theta": st.one_of(thetas(), gens.signed_logmag(-6, 3)),
                                  "k": gens.fl(-3, 3), "thetas": theta_lists()})


def s_rev2():
    return st.fixed_dictionaries({"kind": st.just("rev2"), "q": points(2), "theta": thetas(), "k": gens.fl(-3, 3),
                                  "thetas": theta_lists(), "theta_rule": st.sampled_from(THETA_RULES)})


def s_pris2():
    return st.fixed_dictionaries({"kind": st.just("pris2"), "a": st.tuples(gens.direction2(), gens.logmag(-3, 6)).map(lambda t: [x * t[1] for x in t[0]]),
                                  "theta": st.one_of(thetas(), gens.signed_logmag(-6, 3)), "k": gens.fl(-3, 3)})


THETA_RULES = ["given", "given", "given", "given", "1/|S|", "-1/|S|", "1/|v|"]


def _theta_rule(case, th, S):
    """theta values tied to the twist itself: the scaled twist theta*S then has norm exactly 1 as a whole vector (which
    is not what makes it a unit twist), or its translational part has"""
    rule = case.get("theta_rule", "given")
    S = np.asarray(S, dtype=float)
    if rule in ("1/|S|", "-1/|S|"):
        n = float(np.linalg.norm(S))
        return (1.0 if rule[0] == "1" else -1.0) / n
    if rule == "1/|v|":
        n = float(np.linalg.norm(S[:-3] if len(S) == 6 else S[:2]))
        return 1.0 / n if n > 1e-3 else th
    return th


def _form(v, form):
    return list(v) if form == "list" else tuple(v) if form == "tuple" else np.array(v)


def _pose(c, site, X, cls, n=1):
    if not c.true(site + "/type", type(X) is cls and len(X) == n, "%s: got %s len %s" % (site, type(X).__name__, len(X) if hasattr(X, "__len__") else "?")):
        return None
    return [np.asarray(a, dtype=float) for a in X.data]


ELT = ["float", "int", "f16", "f32", "f64", "i8", "i16", "i32", "i64", "u8", "u16"]
_ELT = {"float": float, "int": int, "f16": np.float16, "f32": np.float32, "f64": np.float64, "i8": np.int8, "i16": np.int16, "i32": np.int32,
        "i64": np.int64, "u8": np.uint8, "u16": np.uint16}


def s_thetatype():
    """angles in degrees that every element type in the list holds exactly: the element type of theta must not matter"""
    whole = st.integers(0, 120)        # also fits int8 / uint8
    half = st.integers(-240, 240).map(lambda k: k * 0.5)
    return st.fixed_dictionaries({"kind": st.just("thetatype"), "dim": st.sampled_from([3, 2]), "a": gens.axis3(-1, 1), "q": points(3),
                                  "whole": st.lists(whole, min_size=1, max_size=4), "half": st.lists(half, min_size=1, max_size=4),
                                  "elts": st.lists(st.sampled_from(ELT), min_size=4, max_size=4),
                                  "container": st.sampled_from(["scalar", "list", "tuple", "array", "mixedlist", "mixedtuple"])})


def _thetatype(case):
    c = Checker("thetatype", container=case["container"], dim=case["dim"])
    a, q = refs.unit(arr(case["a"])), arr(case["q"])
    if case["dim"] == 3:
        okS, S = c.lib("UnitRevolute", L.Twist3.Revolute, a, q)
        cls = L.SE3
    else:
        okS, S = c.lib("UnitRevolute", L.Twist2.Revolute, q[:2])
        cls = L.SE2
    if not okS:
        return c.out
    cont = case["container"]
    elts = case["elts"]
    floaty = lambda e: e in ("float", "f16", "f32", "f64")   # noqa
    vals = case["half"] if all(floaty(e) for e in (elts[:1] if not cont.startswith("mixed") else elts)) and cont != "mixedlist_" else None
    if cont.startswith("mixed"):
        # one sequence holding several element types
        base_vals = case["whole"] if not all(floaty(e) for e in elts) else case["half"]
        plain = [float(v) for v in base_vals]
        typed = [_ELT[elts[i % 4]](v) for i, v in enumerate(base_vals)]
        arg = list(typed) if cont == "mixedlist" else tuple(typed)
        c.feat(elts="+".join(elts[:len(base_vals)]))
    else:
        e = elts[0]
        base_vals = case["half"] if floaty(e) else case["whole"]
        plain = [float(v) for v in base_vals]
        c.feat(elts=e)
        if cont == "scalar":
            plain = plain[:1]
            arg = _ELT[e](base_vals[0])
        elif cont == "array":
            arg = np.array(base_vals, dtype=_ELT[e]) if e not in ("float", "int") else np.array(base_vals, dtype=float if e == "float" else int)
        else:
            arg = [_ELT[e](v) for v in base_vals]
            arg = arg if cont == "list" else tuple(arg)
    ok, X = c.lib("exp/deg/typed", S.exp, arg, "deg")
    ok2, Y = c.lib("exp/deg/plain", S.exp, plain[0] if cont == "scalar" else plain, "deg")
    if ok and ok2:
        A, B = _pose(c, "exp/deg/typed", X, cls, len(plain)), _pose(c, "exp/deg/plain", Y, cls, len(plain))
        if A and B:
            qs = max(1.0, float(np.max(np.abs(q))))
            for Ai, Bi, t in zip(A, B, plain):
                c.eq("exp/deg/typed=plain", Ai, Bi, 1e-12, qs)
                th = math.radians(t)
                if case["dim"] == 3:
                    R = refs.rodrigues(a, th)
                    c.eq("exp/deg/typed/value", Ai, refs.rt(R, q - R @ q), 1e-9, qs)
                else:
                    R = np.array([[math.cos(th), -math.sin(th)], [math.sin(th), math.cos(th)]])
                    c.eq("exp/deg/typed/value", Ai, refs.rt(R, q[:2] - R @ q[:2]), 1e-9, qs)
    return c.out


def check_case(case):
    if case.get("kind") in ("hist", "aug", "variant", "own"):
        return probes.run(case, PROPERTY_ID)
    return {"thetatype": _thetatype, "rev3": _rev3, "pris3": _pris3, "rev2": _rev2, "pris2": _pris2}[case["kind"]](case)


def _rev3(case):
    a, q, th = arr(case["a"]), arr(case["q"]), case["theta"]
    ah = refs.unit(a)
    th = _theta_rule(case, th, np.r_[-np.cross(ah, q), ah])
    qs = max(1.0, float(np.max(np.abs(q))))
    tol = 1e-9
    c = Checker("rev3", theta=th, qmax=qs, alen=float(np.linalg.norm(a)))
    ok, S = c.lib("Revolute", L.Twist3.Revolute, _form(case["a"], case["form"]), _form(case["q"], case["form"]))
    if not ok:
        return c.out
    if not c.true("Revolute/type", type(S) is L.Twist3 and len(S) == 1, "Revolute gave %r" % (S,)):
        return c.out
    c.eq("Revolute/w", S.w, ah, tol)
    c.eq("Revolute/v", S.v, -np.cross(ah, q), tol, qs)
    Tref = refs.rt(refs.rodrigues(ah, th), q - refs.rodrigues(ah, th) @ q)
    ok, X = c.lib("exp", S.exp, th)
    T = None
    if ok:
        A = _pose(c, "exp", X, L.SE3)
        if A:
            T = A[0]
            c.eq("exp/rotation", T[:3, :3], refs.rodrigues(ah, th), tol)
            c.eq("exp/value", T, Tref, tol, qs)
            for lam in (0.0, case["lam"], -3.0 * case["lam"]):
                p = q + lam * ah
                c.eq("exp/axis_fixed", T[:3, :3] @ p + T[:3, 3], p, tol, max(qs, abs(lam)))
            c.eq("exp/lastrow", T[3, :], [0, 0, 0, 1], 0)
    # accessors
    ok, pitch = c.lib("pitch", S.pitch)
    if ok:
        c.eq("pitch", pitch, 0.0, tol, qs)
    ok, pole = c.lib("pole", S.pole)
    if ok:
        pole = np.asarray(pole, dtype=float)
        if c.true("pole/shape", pole.shape == (3,), "pole shape %s" % (pole.shape,)):
            c.eq("pole/on_axis", np.cross(pole - q, ah), np.zeros(3), tol, qs)
    ok, ln = c.lib("line", S.line)
    if ok:
        if c.true("line/type", type(ln) is L.Plucker and len(ln) == 1, "line() gave %r" % (ln,)):
            lw, lv = np.asarray(ln.w, dtype=float), np.asarray(ln.v, dtype=float)
            c.eq("line/direction", np.cross(lw, ah), np.zeros(3), tol, max(1.0, float(np.linalg.norm(lw))))
            c.true("line/orientation", float(np.dot(lw, ah)) > 0, "line direction opposite to the axis")
            # q lies on the line: its distance |w x q - v| / |w| is zero (library convention v = w x p)
            d1 = np.linalg.norm(np.cross(lw, q) - lv) / np.linalg.norm(lw)
            d2 = np.linalg.norm(np.cross(q, lw) - lv) / np.linalg.norm(lw)
            c.true("line/contains_q", min(d1, d2) <= tol * qs, "axis point is %.3g away from line()" % min(d1, d2))
            okc, cont = c.lib("line/contains", lambda: ln.contains(q, tol=1e-9 * qs * max(1.0, float(np.linalg.norm(lw)))))
            if okc:
                c.true("line/contains()", bool(cont), "line().contains(q) is False")
    ok, t1 = c.lib("theta()", S.theta)
    if ok:
        c.eq("theta()", t1, 1.0, tol)
    ok, ip = c.lib("isprismatic", lambda: S.isprismatic)
    if ok:
        c.true("isprismatic", ip is False or ip == False, "revolute twist reported prismatic")  # noqa
    # matrix form, inverse, scalar multiple
    ok, M = c.lib("se3", S.se3)
    if ok and T is not None:
        M = np.asarray(M, dtype=float)
        c.eq("se3/value", M, refs.hat6(-np.cross(ah, q), ah), tol, qs)
        ok2, E = c.lib("trexp(se3*theta)", L.base.trexp, M * th)
        if ok2:
            c.eq("trexp(se3*theta)", E, T, tol, qs)
    ok, Si = c.lib("inv", S.inv)
    if ok and T is not None:
        ok2, Xi = c.lib("inv.exp", Si.exp, th)
        if ok2:
            A = _pose(c, "inv.exp", Xi, L.SE3)
            if A:
                c.eq("inv/exp", A[0] @ T, np.eye(4), tol, qs)
    k = case["k"]
    ok, Sk = c.lib("S*k", lambda: S * k)
    if ok:
        if c.true("S*k/type", type(Sk) is L.Twist3, "S*k gave %s" % type(Sk).__name__):
            ok2, Xk = c.lib("(S*k).exp", Sk.exp)
            ok3, Xk2 = c.lib("S.exp(k)", S.exp, k)
            if ok2 and ok3:
                A, B = _pose(c, "(S*k).exp", Xk, L.SE3), _pose(c, "S.exp(k)", Xk2, L.SE3)
                if A and B:
                    c.eq("(S*k).exp=S.exp(k)", A[0], B[0], tol, qs)
                    c.eq("S.exp(k)/ref", B[0], refs.rt(refs.rodrigues(ah, k), q - refs.rodrigues(ah, k) @ q), tol, qs)
    ok, Sk = c.lib("k*S", lambda: k * S)
    if ok and c.true("k*S/type", type(Sk) is L.Twist3 and len(Sk) == 1, "k*S gave %s" % type(Sk).__name__):
        ok2, Xk = c.lib("(k*S).exp", Sk.exp)
        if ok2:
            A = _pose(c, "(k*S).exp", Xk, L.SE3)
            if A:
                c.eq("(k*S).exp=S.exp(k)", A[0], refs.rt(refs.rodrigues(ah, k), q - refs.rodrigues(ah, k) @ q), tol, qs)
    # units and vector theta
    ok, Xd = c.lib("exp/deg", S.exp, th * 180.0 / math.pi, "deg")
    if ok and T is not None:
        A = _pose(c, "exp/deg", Xd, L.SE3)
        if A:
            c.eq("exp/deg", A[0], T, tol, qs)
    ths = case["thetas"]
    for frm in ("list", "array"):
        ok, Xv = c.lib("exp/vector", S.exp, list(ths) if frm == "list" else np.array(ths))
        if ok:
            A = _pose(c, "exp/vector", Xv, L.SE3, len(ths))
            if A:
                for Ai, t in zip(A, ths):
                    R = refs.rodrigues(ah, t)
                    c.eq("exp/vector/value", Ai, refs.rt(R, q - R @ q), tol, qs)
    ok, Xv = c.lib("exp/vector/deg", S.exp, [t * 180.0 / math.pi for t in ths], "deg")
    if ok:
        A = _pose(c, "exp/vector/deg", Xv, L.SE3, len(ths))
        if A:
            for Ai, t in zip(A, ths):
                R = refs.rodrigues(ah, t)
                c.eq("exp/vector/deg/value", Ai, refs.rt(R, q - R @ q), tol, qs)
    ok, Sm = c.lib("Twist3[2]", lambda: L.Twist3([np.asarray(S.S, dtype=float).copy(), np.array([0.0, 1.0, 0.0, 0.0, 0.0, 0.0])]))
    if ok:
        ok2, ip = c.lib("isprismatic/multi", lambda: Sm.isprismatic)
        if ok2:
            c.true("isprismatic/multi", list(map(bool, ip)) == [False, True], "isprismatic of [revolute, prismatic] gave %r" % (ip,))
    # an object holding two different revolute unit twists: one angle per twist (both units), one line of action per twist
    a2 = refs.unit(np.cross(ah, [0.0, 0.0, 1.0]) if abs(ah[2]) < 0.9 else np.cross(ah, [1.0, 0.0, 0.0]))
    q2 = q + np.array([0.5, -1.0, 2.0])
    ok, S2 = c.lib("Revolute/2", L.Twist3.Revolute, list(a2), list(q2))
    if ok:
        ok, M2 = c.lib("Twist3[S,S2]", lambda: L.Twist3([S, S2]))
        if ok and c.true("Twist3[S,S2]/len", len(M2) == 2, "Twist3 of two twists holds %d" % len(M2)):
            t2 = [th, case["thetas"][0]]
            for unit, ang in (("rad", t2), ("deg", [x * 180.0 / math.pi for x in t2])):
                okm, Xm = c.lib("multi/exp/" + unit, M2.exp, list(ang), unit)
                if okm:
                    A = _pose(c, "multi/exp/" + unit, Xm, L.SE3, 2)
                    if A:
                        for Ai, (ax_, qq_, t_) in zip(A, ((ah, q, t2[0]), (a2, q2, t2[1]))):
                            R = refs.rodrigues(ax_, t_)
                            c.eq("multi/exp/%s/value" % unit, Ai, refs.rt(R, qq_ - R @ qq_), tol, max(qs, float(np.max(np.abs(qq_)))))
            # angle vectors of any other length are rejected, not truncated or padded
            for bad in ([th], [th, 0.2, 0.3], [th, 0.2, 0.3, 0.4], (th, 0.1, 0.2, 0.3, 0.4)):
                for unit in ("rad", "deg"):
                    c.must_raise("multi/exp/wrong_length", M2.exp, bad, unit)
            okl, Lm = c.lib("multi/line", M2.line)
            if okl and c.true("multi/line/len", hasattr(Lm, "data") and len(Lm) == 2, "line() of two twists gave %r" % (Lm,)):
                for i, (ax_, qq_) in enumerate(((ah, q), (a2, q2))):
                    wv = np.asarray(Lm.data[i], dtype=float)
                    lw, lv = wv[3:], wv[:3]
                    c.eq("multi/line/direction", np.cross(refs.unit(lw), ax_), np.zeros(3), tol, index=i)
                    c.eq("multi/line/through_axis_point", np.cross(lw, qq_), lv, tol, max(1.0, float(np.linalg.norm(lw))) * max(qs, float(np.max(np.abs(qq_)))), index=i)
    # conversion to SE3
    ok, X1 = c.lib("SE3()", S.SE3)
    if ok:
        A = _pose(c, "SE3()", X1, L.SE3)
        if A:
            R = refs.rodrigues(ah, 1.0)
            c.eq("SE3()", A[0], refs.rt(R, q - R @ q), tol, qs)
    return c.out


def _pris3(case):
    a, th = arr(case["a"]), case["theta"]
    ah = refs.unit(a)
    tol = 1e-9
    sc = max(1.0, abs(th))
    c = Checker("pris3", theta=th, alen=float(np.linalg.norm(a)))
    ok, S = c.lib("Prismatic", L.Twist3.Prismatic, list(case["a"]))
    if not ok:
        return c.out
    if not c.true("Prismatic/type", type(S) is L.Twist3 and len(S) == 1, "Prismatic gave %r" % (S,)):
        return c.out
    c.eq("Prismatic/v", S.v, ah, tol)
    c.eq("Prismatic/w", S.w, np.zeros(3), 0)
    ok, X = c.lib("exp", S.exp, th)
    T = None
    if ok:
        A = _pose(c, "exp", X, L.SE3)
        if A:
            T = A[0]
            c.eq("exp/rotation", T[:3, :3], np.eye(3), 0)
            c.eq("exp/translation", T[:3, 3], th * ah, tol, sc)
    ok, ip = c.lib("isprismatic", lambda: S.isprismatic)
    if ok:
        c.true("isprismatic", bool(ip) is True, "prismatic twist not reported prismatic")
    ok, M = c.lib("se3", S.se3)
    if ok and T is not None:
        c.eq("se3/value", M, refs.hat6(ah, np.zeros(3)), tol)
        ok2, E = c.lib("trexp(se3*theta)", L.base.trexp, np.asarray(M, dtype=float) * th)
        if ok2:
            c.eq("trexp(se3*theta)", E, T, tol, sc)
    ok, Si = c.lib("inv", S.inv)
    if ok and T is not None:
        ok2, Xi = c.lib("inv.exp", Si.exp, th)
        if ok2:
            A = _pose(c, "inv.exp", Xi, L.SE3)
            if A:
                c.eq("inv/exp", A[0] @ T, np.eye(4), tol, sc)
    k = case["k"]
    ok, Sk = c.lib("S*k", lambda: S * k)
    if ok and type(Sk) is L.Twist3:
        ok2, Xk = c.lib("(S*k).exp", Sk.exp)
        if ok2:
            A = _pose(c, "(S*k).exp", Xk, L.SE3)
            if A:
                c.eq("(S*k).exp=S.exp(k)", A[0], refs.rt(np.eye(3), k * ah), tol, max(1.0, abs(k)))
    ths = case["thetas"]
    ok, Xv = c.lib("exp/vector", S.exp, list(ths))
    if ok:
        A = _pose(c, "exp/vector", Xv, L.SE3, len(ths))
        if A:
            for Ai, t in zip(A, ths):
                c.eq("exp/vector/value", Ai, refs.rt(np.eye(3), t * ah), tol, max(1.0, abs(t)))
    # whatever the unit option means for a translation, a vector of thetas gives the same poses as the scalars one by one
    import contextlib
    import io
    with contextlib.redirect_stdout(io.StringIO()):
        okv, Xv = c.lib("exp/vector/deg", S.exp, list(ths), "deg")
        if okv:
            A = _pose(c, "exp/vector/deg", Xv, L.SE3, len(ths))
            if A:
                for Ai, t in zip(A, ths):
                    oks, Xs = c.lib("exp/scalar/deg", S.exp, t, "deg")
                    if oks:
                        As = _pose(c, "exp/scalar/deg", Xs, L.SE3)
                        if As:
                            c.eq("exp/vector/deg=scalar/deg", Ai, As[0], tol, max(1.0, abs(t)))
    return c.out


def _rev2(case):
    q, th = arr(case["q"]), case["theta"]
    th = _theta_rule(case, th, np.r_[q[1], -q[0], 1.0])
    qs = max(1.0, float(np.max(np.abs(q))))
    tol = 1e-9
    c = Checker("rev2", theta=th, qmax=qs)
    ok, S = c.lib("Revolute", L.Twist2.Revolute, list(case["q"]))
    if not ok:
        return c.out
    if not c.true("Revolute/type", type(S) is L.Twist2 and len(S) == 1, "Revolute gave %r" % (S,)):
        return c.out
    c.eq("Revolute/w", S.w, 1.0, 0)
    c.eq("Revolute/v", S.v, [q[1], -q[0]], tol, qs)

    def ref(t):
        R = refs.rot2(t)
        return refs.rt(R, q - R @ q)
    ok, X = c.lib("exp", S.exp, th)
    T = None
    if ok:
        A = _pose(c, "exp", X, L.SE2)
        if A:
            T = A[0]
            c.eq("exp/value", T, ref(th), tol, qs)
            c.eq("exp/point_fixed", T[:2, :2] @ q + T[:2, 2], q, tol, qs)
    ok, ip = c.lib("isprismatic", lambda: S.isprismatic)
    if ok:
        c.true("isprismatic", not bool(ip), "revolute planar twist reported prismatic")
    ok, M = c.lib("se2", S.se2)
    if ok and T is not None:
        c.eq("se2/value", M, refs.hat3([q[1], -q[0]], 1.0), tol, qs)
        ok2, E = c.lib("trexp2(se2*theta)", L.base.trexp2, np.asarray(M, dtype=float) * th)
        if ok2:
            c.eq("trexp2(se2*theta)", E, T, tol, qs)
    ok, Si = c.lib("inv", S.inv)
    if ok and T is not None:
        ok2, Xi = c.lib("inv.exp", Si.exp, th)
        if ok2:
            A = _pose(c, "inv.exp", Xi, L.SE2)
            if A:
                c.eq("inv/exp", A[0] @ T, np.eye(3), tol, qs)
    k = case["k"]
    ok, Sk = c.lib("S*k", lambda: S * k)
    if ok and c.true("S*k/type", type(Sk) is L.Twist2, "S*k gave %s" % type(Sk).__name__):
        ok2, Xk = c.lib("(S*k).exp", Sk.exp)
        if ok2:
            A = _pose(c, "(S*k).exp", Xk, L.SE2)
            if A:
                c.eq("(S*k).exp=S.exp(k)", A[0], ref(k), tol, qs)
    ok, Sk = c.lib("k*S", lambda: k * S)
    if ok and c.true("k*S/type", type(Sk) is L.Twist2 and len(Sk) == 1, "k*S gave %s" % type(Sk).__name__):
        ok2, Xk = c.lib("(k*S).exp", Sk.exp)
        if ok2:
            A = _pose(c, "(k*S).exp", Xk, L.SE2)
            if A:
                c.eq("(k*S).exp=S.exp(k)", A[0], ref(k), tol, qs)
    ok, Xd = c.lib("exp/deg", S.exp, th * 180.0 / math.pi, "deg")
    if ok and T is not None:
        A = _pose(c, "exp/deg", Xd, L.SE2)
        if A:
            c.eq("exp/deg", A[0], T, tol, qs)
    ths = case["thetas"]
    ok, Xv = c.lib("exp/vector", S.exp, list(ths))
    if ok:
        A = _pose(c, "exp/vector", Xv, L.SE2, len(ths))
        if A:
            for Ai, t in zip(A, ths):
                c.eq("exp/vector/value", Ai, ref(t), tol, qs)
    ok, X1 = c.lib("SE2()", S.SE2)
    if ok:
        A = _pose(c, "SE2()", X1, L.SE2)
        if A:
            c.eq("SE2()", A[0], ref(1.0), tol, qs)
    for frm in ("list", "array", "tuple"):
        dths = [t * 180.0 / math.pi for t in ths]
        ok, Xv = c.lib("exp/vector/deg", S.exp, dths if frm == "list" else (np.array(dths) if frm == "array" else tuple(dths)), "deg")
        if ok:
            A = _pose(c, "exp/vector/deg", Xv, L.SE2, len(ths))
            if A:
                for Ai, t in zip(A, ths):
                    c.eq("exp/vector/deg/value", Ai, ref(t), tol, qs)
    # a sequence holding this revolute twist and a prismatic one reports each element
    ok, Sm = c.lib("Twist2[2]", lambda: L.Twist2([np.asarray(S.S, dtype=float).copy(), np.array([1.0, 0.0, 0.0])]))
    if ok:
        ok2, ip = c.lib("isprismatic/multi", lambda: Sm.isprismatic)
        if ok2:
            c.true("isprismatic/multi", list(map(bool, ip)) == [False, True], "isprismatic of [revolute, prismatic] gave %r" % (ip,))
    return c.out


def _pris2(case):
    a, th = arr(case["a"]), case["theta"]
    ah = refs.unit(a)
    tol = 1e-9
    sc = max(1.0, abs(th))
    c = Checker("pris2", theta=th)
    ok, S = c.lib("Prismatic", L.Twist2.Prismatic, list(case["a"]))
    if not ok:
        return c.out
    if not c.true("Prismatic/type", type(S) is L.Twist2 and len(S) == 1, "Prismatic gave %r" % (S,)):
        return c.out
    c.eq("Prismatic/v", S.v, ah, tol)
    c.eq("Prismatic/w", S.w, 0.0, 0)
    ok, X = c.lib("exp", S.exp, th)
    if ok:
        A = _pose(c, "exp", X, L.SE2)
        if A:
            c.eq("exp/value", A[0], refs.rt(np.eye(2), th * ah), tol, sc)
    ok, ip = c.lib("isprismatic", lambda: S.isprismatic)
    if ok:
        c.true("isprismatic", bool(ip) is True, "prismatic planar twist not reported prismatic")
    # the same question asked of an object holding several planar twists: one answer per value
    ok, Sm = c.lib("Twist2[3]", lambda: L.Twist2([np.asarray(S.S, dtype=float).copy(), np.array([1.0, -2.0, 1.0]), np.asarray(S.S, dtype=float) * -2.0]))
    if ok:
        ok2, ipm = c.lib("isprismatic/multi", lambda: Sm.isprismatic)
        if ok2:
            c.true("isprismatic/multi", list(map(bool, ipm)) == [True, False, True], "isprismatic of [prismatic, revolute, prismatic] gave %r" % (ipm,))
    k = case["k"]
    ok, Sk = c.lib("S*k", lambda: S * k)
    if ok and type(Sk) is L.Twist2:
        ok2, Xk = c.lib("(S*k).exp", Sk.exp)
        if ok2:
            A = _pose(c, "(S*k).exp", Xk, L.SE2)
            if A:
                c.eq("(S*k).exp=S.exp(k)", A[0], refs.rt(np.eye(2), k * ah), tol, max(1.0, abs(k)))
    return c.out


def classify(case):
    if case.get("kind") in ("hist", "aug", "variant", "own"):
        return probes.classify(case)
    k = case["kind"]
    lab = {"kind:" + k: True}
    if k == "thetatype":
        lab["nontrivial"] = True
        lab["container:" + case["container"]] = True
        return lab
    th = case["theta"]
    if k == "rev3":
        noncoord = sum(1 for x in case["a"] if abs(x) > 1e-3 * max(abs(y) for y in case["a"])) >= 2
        lab["nontrivial"] = bool(noncoord and any(case["q"]) and th != 0)
        lab["axis_len_not_unit"] = not (0.5 <= math.sqrt(sum(x * x for x in case["a"])) <= 2)
    elif k == "pris3":
        lab["nontrivial"] = sum(1 for x in case["a"] if x != 0) >= 2 and th != 0
    elif k == "rev2":
        lab["nontrivial"] = any(case["q"]) and th != 0
    else:
        lab["nontrivial"] = th != 0 and all(case["a"])
    lab["theta_multiple_of_pi/2"] = abs(th / (math.pi / 2) - round(th / (math.pi / 2))) < 1e-9
    return lab


def subchecks(tier):
    return [
        Sub("rev3", strategy=s_rev3(), n=(400, 8000), shards=(6, 16)),
        Sub("pris3", strategy=s_pris3(), n=(400, 8000), shards=(2, 8)),
        Sub("rev2", strategy=s_rev2(), n=(400, 8000), shards=(4, 8)),
        Sub("pris2", strategy=s_pris2(), n=(400, 8000), shards=(2, 4)),
        Sub("theta_element_types", strategy=s_thetatype(), n=(500, 6000), shards=(2, 4)),
        *probes.subs(PROPERTY_ID),
    ]
