"""
C12  Quaternion and dual-quaternion arithmetic obeys the Hamilton algebra.
"""
import math

import numpy as np
from hypothesis import strategies as st

from .. import gens, refs
from ..runner import Sub
from . import probes
from .common import L, Checker, arr

PROPERTY_ID = "C12"
RULE = ("kinds: exact (4-/8-tuples of 64-bit integers run through the library's own formulas as object arrays: identities "
        "must hold exactly - a randomized polynomial identity test), float (components 1e-6..1e6, 1e-9 relative), power "
        "(|n|<=6), unit3 (unit pairs with scalar parts >= 0.1, 3-vector form), rates (dot/dotb), explog (exp(log q)=q, "
        "log(exp q)=q for |v| in (0,pi), 1e-6), dual (associativity, 8x8 matrix form, conjugate, norm defined, (1,0) for "
        "unit dual quaternions built from rigid motions), symbolic (the same identities executed once on SymPy symbols and "
        "expanded to 0; supplementary). Non-trivial: all components non-zero and pairwise distinct.")
RULE = RULE + probes.RULE_TEXT + (probes.AUG_TEXT if PROPERTY_ID in probes.AUG_PROPS else "") + probes.VARIANT_TEXT + probes.OWN_TEXT + probes.EXTRA_RULES.get(PROPERTY_ID, "")
ASSUMPTIONS = ["Python big-integer arithmetic is exact; a wrong polynomial identity of degree <= 4 survives one random 64-bit draw with probability < 2^-60 (Schwartz-Zippel)",
               "reference Hamilton product table in pbt/refs.py", "float identities: 1e-9 relative to the product of operand norms; exp/log 1e-6 relative to |q|"]

BIG = 2 ** 62


def ints(n):
    return st.lists(st.one_of(st.integers(-BIG, BIG), st.integers(-9, 9)), min_size=n, max_size=n)


def floats4():
    comp = st.one_of(gens.signed_logmag(-6, 6), gens.signed_logmag(-1, 1))
    return st.one_of(st.lists(comp, min_size=4, max_size=4), st.lists(st.one_of(comp, st.just(0.0)), min_size=4, max_size=4))


def s_exact():
    return st.fixed_dictionaries({"kind": st.just("exact"), "p": ints(4), "q": ints(4), "r": ints(4)})


def s_float():
    return st.fixed_dictionaries({"kind": st.just("float"), "p": floats4(), "q": floats4(), "r": floats4()})


def s_power():
    return st.fixed_dictionaries({"kind": st.just("power"), "q": st.lists(gens.signed_logmag(-2, 2), min_size=4, max_size=4),
                                  "n": st.integers(-6, 6), "unit": st.booleans(),
                                  # components forced to exactly zero: real quaternions (scalars), pure ones, minus identity, ...
                                  "zero": st.one_of(st.just([False] * 4), st.just([False] * 4), st.lists(st.booleans(), min_size=4, max_size=4),
                                                    st.just([False, True, True, True]), st.just([True, False, False, False]))})


def unitq_pos():
    """unit quaternion with scalar part >= 0.1: (axis, half-angle) with cos(half) >= 0.1"""
    return st.tuples(gens.direction3(), gens.fl(0.0, math.acos(0.1) - 1e-9)).map(
        lambda t: [math.cos(t[1])] + [math.sin(t[1]) * x for x in refs.unit(t[0])])


def s_unit3():
    return st.fixed_dictionaries({"kind": st.just("unit3"), "p": unitq_pos(), "q": unitq_pos()})


def s_rates():
    return st.fixed_dictionaries({"kind": st.just("rates"), "q": st.tuples(gens.direction3(), gens.fl(-math.pi, math.pi)).map(
        lambda t: [math.cos(t[1] / 2)] + [math.sin(t[1] / 2) * x for x in refs.unit(t[0])]),
        "w": st.lists(gens.signed_logmag(-6, 6), min_size=3, max_size=3)})


def s_explog():
    # scalar part: exp(s) stays a normal double for |s| up to ~700; -300 .. 300 keeps norm and products of exp(q) representable
    return st.fixed_dictionaries({"kind": st.just("explog"), "s": st.one_of(gens.fl(-20, 20), gens.fl(-300, 300), gens.signed_logmag(-6, 2.4)), "vdir": gens.direction3(),
                                  "vnorm": st.one_of(gens.logmag(-6, 0.49), gens.fl(1e-6, math.pi - 1e-6),
                                                     # towards the open end of (0, pi): pi - 10^-k (k <= 13: the norm of the built vector is
                                                     # itself rounded, so the last ulps before pi may already lie beyond it)
                                                     st.integers(1, 14).map(lambda k: math.pi - 10.0 ** (-k)),
                                                     st.sampled_from([8, 12, 16, 24, 32, 48, 64]).map(lambda j: math.pi - j * 4.440892098500626e-16)),
                                  "logmag": gens.logmag(-3, 3), "ratio": gens.logmag(-6, 0), "sign": st.sampled_from([-1.0, 1.0])})


def s_dual():
    comp = st.one_of(gens.signed_logmag(-3, 3), gens.signed_logmag(-1, 1))
    return st.fixed_dictionaries({"kind": st.just("dual"), "a": st.lists(comp, min_size=8, max_size=8), "b": st.lists(comp, min_size=8, max_size=8),
                                  "c": st.lists(comp, min_size=8, max_size=8), "T": gens.pose3(t_hi=6), "T2": gens.pose3(t_hi=3)})


def s_dual_exact():
    return st.fixed_dictionaries({"kind": st.just("dual_exact"), "a": ints(8), "b": ints(8), "c": ints(8)})


SYMBOLIC = ["assoc", "distrib", "norm_mult", "conj_rev", "qconj", "matrix", "inner", "pow2", "pow3", "pow-2", "vv", "dot", "dotb",
            "dual_assoc", "dual_matrix", "dual_conj"]


def gen_symbolic(tier):
    for name in SYMBOLIC:
        yield {"kind": "symbolic", "identity": name}


def check_case(case):
    if case.get("kind") in ("hist", "aug", "variant", "own"):
        return probes.run(case, PROPERTY_ID)
    return {"exact": _exact, "float": _float, "power": _power, "unit3": _unit3, "rates": _rates, "explog": _explog,
            "dual": _dual, "dual_exact": _dual_exact, "symbolic": _symbolic, "qdtype": _qdtype, "bigint": _bigint}[case["kind"]](case)


QDTYPES = ["float32", "int64", "int32", "int16", "int8", "uint8", "uint16"]


def s_qdtype():
    comp = st.integers(-9, 9)
    return st.fixed_dictionaries({"kind": st.just("qdtype"), "dtype": st.sampled_from(QDTYPES), "p": st.lists(comp, min_size=4, max_size=4),
                                  "q": st.lists(comp, min_size=4, max_size=4), "n": st.integers(-3, 3)})


def gen_qdtype(tier):
    for dt in QDTYPES:
        for p, q in (([1, 2, 3, 4], [2, 1, 4, 3]), ([1, -2, 3, -4], [-2, 5, 1, 3]), ([0, 7, 0, 2], [3, 0, 6, 1]), ([5, 9, 9, 8], [9, 7, 8, 9])):
            for n in (2, -1, 3):
                yield {"kind": "qdtype", "dtype": dt, "p": p, "q": q, "n": n}


def gen_bigint(tier):
    for p, q in (([30000, -20000, 10000, 40000], [12345, 6789, -23456, 9876]), ([99999, 1, -99999, 2], [3, -77777, 5, 88888]), ([7, 0, 0, 0], [0, 50000, 0, 0])):
        for n in (-6, -3, 2, 4, 5, 6):
            for form in ("list", "tuple", "array"):
                yield {"kind": "bigint", "p": p, "q": q, "n": n, "form": form}


def s_bigint():
    comp = st.integers(-100000, 100000)
    return st.fixed_dictionaries({"kind": st.just("bigint"), "p": st.lists(comp, min_size=4, max_size=4), "q": st.lists(comp, min_size=4, max_size=4),
                                  "n": st.integers(-6, 6), "form": st.sampled_from(["list", "tuple", "array"])})


def _bigint(case):
    """'for all real components': whole numbers given as Python ints (lists / tuples) of ordinary engineering size - the
    products of six of them exceed 64-bit integers, not floating point"""
    c = Checker("bigint", form=case["form"], n=case["n"])
    b = L.base
    pf, qf = np.array(case["p"], dtype=float), np.array(case["q"], dtype=float)
    mk = {"list": lambda v: [int(x) for x in v], "tuple": lambda v: tuple(int(x) for x in v), "array": lambda v: np.array([int(x) for x in v])}[case["form"]]
    n = case["n"]

    def pw(v, k):
        out = np.array([1.0, 0, 0, 0])
        for _ in range(abs(k)):
            out = refs.qmul(out, v)
        return refs.qconj(out) if k < 0 else out
    npq = max(1.0, float(np.linalg.norm(pf))), max(1.0, float(np.linalg.norm(qf)))
    for site, f, want, sc in (("qpow", lambda: b.qpow(mk(case["p"]), n), pw(pf, n), npq[0] ** abs(n)),
                              ("qqmul", lambda: b.qqmul(mk(case["p"]), mk(case["q"])), refs.qmul(pf, qf), npq[0] * npq[1]),
                              ("matrix", lambda: np.asarray(b.matrix(mk(case["p"])), dtype=float) @ qf, refs.qmul(pf, qf), npq[0] * npq[1]),
                              ("inner", lambda: b.inner(mk(case["p"]), mk(case["q"])), float(np.dot(pf, qf)), npq[0] * npq[1]),
                              ("Quaternion**n", lambda: (L.Quaternion(mk(case["p"])) ** n).vec, pw(pf, n), npq[0] ** abs(n)),
                              ("Quaternion.mul", lambda: (L.Quaternion(mk(case["p"])) * L.Quaternion(mk(case["q"]))).vec, refs.qmul(pf, qf), npq[0] * npq[1])):
        ok, got = c.lib(site, f)
        if ok:
            try:
                g = np.asarray(got, dtype=float)
            except Exception:  # noqa
                c.fail(site + "/numeric", "%s returned %r" % (site, got))
                continue
            c.eq(site + "/value", g, want, 1e-9, sc)
    return c.out


def _qdtype(case):
    """'for all real components': the same 4-tuples held in arrays of any real element type (small integers, exactly
    representable, products far from overflow of the floating-point path) obey the same identities"""
    dt = np.dtype(case["dtype"])
    p, q = [float(x) for x in case["p"]], [float(x) for x in case["q"]]
    if dt.kind == "u":
        p, q = [abs(x) for x in p], [abs(x) for x in q]
    pa, qa = np.array(p, dtype=dt), np.array(q, dtype=dt)
    pf, qf = np.array(p), np.array(q)
    c = Checker("qdtype", dtype=case["dtype"])
    b = L.base
    n = case["n"]
    npq = max(1.0, float(np.linalg.norm(pf))), max(1.0, float(np.linalg.norm(qf)))

    def pw(v, k):
        out = np.array([1.0, 0, 0, 0])
        for _ in range(abs(k)):
            out = refs.qmul(out, v)
        return refs.qconj(out) if k < 0 else out
    for site, f, want, sc in (
            ("conj", lambda: b.conj(pa.copy()), refs.qconj(pf), npq[0]),
            ("qqmul", lambda: b.qqmul(pa.copy(), qa.copy()), refs.qmul(pf, qf), npq[0] * npq[1]),
            ("qnorm", lambda: b.qnorm(pa.copy()), float(np.linalg.norm(pf)), npq[0]),
            ("inner", lambda: b.inner(pa.copy(), qa.copy()), float(np.dot(pf, qf)), npq[0] * npq[1]),
            ("qvmul", lambda: b.qvmul(pa.copy(), qa[1:].copy()), refs.qmul(refs.qmul(pf, np.r_[0.0, qf[1:]]), refs.qconj(pf))[1:], npq[0] ** 2 * npq[1]),
            ("qpow", lambda: b.qpow(pa.copy(), n), pw(pf, n), npq[0] ** abs(n)),
            ("matrix", lambda: b.matrix(pa.copy()) @ qf, refs.qmul(pf, qf), npq[0] * npq[1]),
            ("Quaternion.conj", lambda: L.Quaternion(pa.copy()).conj().vec, refs.qconj(pf), npq[0]),
            ("Quaternion.mul", lambda: (L.Quaternion(pa.copy()) * L.Quaternion(qa.copy())).vec, refs.qmul(pf, qf), npq[0] * npq[1]),
            ("Quaternion.norm", lambda: L.Quaternion(pa.copy()).norm(), float(np.linalg.norm(pf)), npq[0]),
            ("Quaternion.inner", lambda: L.Quaternion(pa.copy()).inner(L.Quaternion(qa.copy())), float(np.dot(pf, qf)), npq[0] * npq[1]),
            ("Quaternion**n", lambda: (L.Quaternion(pa.copy()) ** n).vec, pw(pf, n), npq[0] ** abs(n)),
            ("Quaternion.q*conj(q)", lambda: (L.Quaternion(pa.copy()) * L.Quaternion(pa.copy()).conj()).vec, np.r_[float(np.dot(pf, pf)), 0, 0, 0], npq[0] ** 2),
            ("DualQuaternion.conj", lambda: L.DualQuaternion(L.Quaternion(pa.copy()), L.Quaternion(qa.copy())).conj().vec, np.r_[refs.qconj(pf), refs.qconj(qf)], max(npq)),
            ("DualQuaternion(8).vec", lambda: L.DualQuaternion(np.r_[pa, qa]).vec, np.r_[pf, qf], max(npq))):
        ok, got = c.lib(site, f)
        if ok:
            try:
                g = np.asarray(got, dtype=float)
            except Exception:  # noqa
                c.fail(site + "/numeric", "%s returned %r" % (site, got))
                continue
            c.eq(site + "/value", g, want, 1e-9, sc)
    c.eq("argument_untouched", pa.astype(float), pf, 0)
    return c.out


def _obj(v):
    a = np.empty(len(v), dtype=object)
    for i, x in enumerate(v):
        a[i] = int(x)
    return a


def _same_exact(c, site, got, want):
    try:
        g = [x for x in np.asarray(got, dtype=object).ravel()]
    except Exception as e:  # noqa
        c.fail(site, "not comparable: %r (%s)" % (got, e))
        return
    w = list(np.asarray(want, dtype=object).ravel())
    if len(g) != len(w):
        c.fail(site, "shape mismatch %d vs %d" % (len(g), len(w)))
        return
    for x, y in zip(g, w):
        if not (x == y):
            c.fail(site, "exact identity violated: %r != %r" % (g, w))
            return


def _qmul_int(p, q):
    s1, x1, y1, z1 = [int(v) for v in p]
    s2, x2, y2, z2 = [int(v) for v in q]
    return [s1 * s2 - x1 * x2 - y1 * y2 - z1 * z2,
            s1 * x2 + x1 * s2 + y1 * z2 - z1 * y2,
            s1 * y2 - x1 * z2 + y1 * s2 + z1 * x2,
            s1 * z2 + x1 * y2 - y1 * x2 + z1 * s2]


def _exact(case):
    b = L.base
    c = Checker("exact")
    p, q, r = _obj(case["p"]), _obj(case["q"]), _obj(case["r"])
    pq = b.qqmul(p, q)
    _same_exact(c, "qqmul/table", pq, _qmul_int(case["p"], case["q"]))
    _same_exact(c, "assoc", b.qqmul(pq, r), b.qqmul(p, b.qqmul(q, r)))
    _same_exact(c, "distrib/left", b.qqmul(p, q + r), b.qqmul(p, q) + b.qqmul(p, r))
    _same_exact(c, "distrib/right", b.qqmul(q + r, p), b.qqmul(q, p) + b.qqmul(r, p))
    n = lambda x: b.inner(x, x)  # noqa
    _same_exact(c, "inner", [b.inner(p, q)], [sum(int(x) * int(y) for x, y in zip(case["p"], case["q"]))])
    _same_exact(c, "norm_mult", [n(pq)], [n(p) * n(q)])
    _same_exact(c, "conj", b.conj(p), [int(case["p"][0])] + [-int(x) for x in case["p"][1:]])
    _same_exact(c, "conj_rev", b.conj(pq), b.qqmul(b.conj(q), b.conj(p)))
    _same_exact(c, "q*conj(q)", b.qqmul(p, b.conj(p)), [n(p), 0, 0, 0])
    _same_exact(c, "matrix", b.matrix(p) @ q, pq)
    _same_exact(c, "pure", b.pure(_obj(case["p"][1:])) if False else [0] + list(p[1:]), [0] + [int(x) for x in case["p"][1:]])
    # class level on the same exact data
    P, Q, R = L.Quaternion(p), L.Quaternion(q), L.Quaternion(r)
    _same_exact(c, "Quaternion.mul", (P * Q).A, pq)
    _same_exact(c, "Quaternion.assoc", ((P * Q) * R).A, (P * (Q * R)).A)
    _same_exact(c, "Quaternion.add", (P + Q).A, p + q)
    _same_exact(c, "Quaternion.sub", (P - Q).A, p - q)
    _same_exact(c, "Quaternion.conj", P.conj().A, b.conj(p))
    _same_exact(c, "Quaternion.inner", [P.inner(Q)], [b.inner(p, q)])
    _same_exact(c, "Quaternion.matrix", P.matrix @ q, pq)
    _same_exact(c, "Quaternion.s,v", [P.s] + list(P.v), list(p))
    return c.out


def _float(case):
    b = L.base
    c = Checker("float")
    p, q, r = arr(case["p"]), arr(case["q"]), arr(case["r"])
    npq = [max(float(np.linalg.norm(x)), 1e-300) for x in (p, q, r)]
    ok, pq = c.lib("qqmul", b.qqmul, p.copy(), q.copy())
    if not ok:
        return c.out
    tol = 1e-9
    c.eq("qqmul/table", pq, refs.qmul(p, q), tol, npq[0] * npq[1])
    c.eq("assoc", b.qqmul(pq, r), b.qqmul(p, b.qqmul(q, r)), tol, npq[0] * npq[1] * npq[2])
    c.eq("distrib", b.qqmul(p, q + r), b.qqmul(p, q) + b.qqmul(p, r), tol, npq[0] * (npq[1] + npq[2]))
    c.eq("norm_mult", b.qnorm(pq), b.qnorm(p) * b.qnorm(q), tol, npq[0] * npq[1])
    c.eq("qnorm", b.qnorm(p), math.sqrt(sum(float(x) ** 2 for x in p)), tol, npq[0])
    c.eq("conj_rev", b.conj(pq), b.qqmul(b.conj(q), b.conj(p)), tol, npq[0] * npq[1])
    c.eq("q*conj(q)", b.qqmul(p, b.conj(p)), [float(np.dot(p, p)), 0, 0, 0], tol, npq[0] ** 2)
    c.eq("matrix", b.matrix(p) @ q, refs.qmul(p, q), tol, npq[0] * npq[1])
    c.eq("inner", b.inner(p, q), float(np.dot(p, q)), tol, npq[0] * npq[1])
    # class operators
    P, Q = L.Quaternion(p.copy()), L.Quaternion(q.copy())
    for site, f, want, sc in (("Quaternion.mul", lambda: (P * Q).vec, refs.qmul(p, q), npq[0] * npq[1]),
                              ("Quaternion.add", lambda: (P + Q).vec, p + q, npq[0] + npq[1]),
                              ("Quaternion.sub", lambda: (P - Q).vec, p - q, npq[0] + npq[1]),
                              ("Quaternion.conj", lambda: P.conj().vec, refs.qconj(p), npq[0]),
                              ("Quaternion.norm", lambda: P.norm(), float(np.linalg.norm(p)), npq[0]),
                              ("Quaternion.inner", lambda: P.inner(Q), float(np.dot(p, q)), npq[0] * npq[1]),
                              ("Quaternion.matrix", lambda: P.matrix @ q, refs.qmul(p, q), npq[0] * npq[1]),
                              ("Quaternion*scalar", lambda: (P * 3.0).vec, 3.0 * p, npq[0]),
                              ("scalar*Quaternion", lambda: (3.0 * P).vec, 3.0 * p, npq[0])):
        ok, got = c.lib(site, f)
        if ok:
            c.eq(site + "/value", got, want, tol, sc)
    return c.out


def _power(case):
    b = L.base
    q = arr(case["q"])
    n = case["n"]
    for i_, z_ in enumerate(case.get("zero", [False] * 4)):
        if z_:
            q[i_] = 0.0
    if case["unit"]:
        if not np.any(q):
            return []
        q = q / np.linalg.norm(q)
    nq = float(np.linalg.norm(q))
    c = Checker("power", n=n, unit=case["unit"], real=bool(not np.any(q[1:])), pure=bool(q[0] == 0))
    want = np.array([1.0, 0, 0, 0])
    for _ in range(abs(n)):
        want = refs.qmul(want, q)
    if n < 0:
        want = refs.qconj(want)
    sc = max(nq ** abs(n), 1e-300)
    ok, got = c.lib("qpow", b.qpow, q.copy(), n)
    if ok:
        c.eq("qpow/value", got, want, 1e-9, sc)
    cls = L.UnitQuaternion if case["unit"] else L.Quaternion
    ok, X = c.lib("ctor", cls, q.copy())
    if ok:
        ok, Y = c.lib("Quaternion**n", lambda: X ** n)
        if ok:
            c.true("Quaternion**n/type", type(Y) is cls, "%s ** n gave %s" % (cls.__name__, type(Y).__name__))
            c.eq("Quaternion**n/value", Y.vec, want, 1e-9, sc)
    c.must_raise("qpow/noninteger", b.qpow, q.copy(), 1.5)
    return c.out


def _unit3(case):
    b = L.base
    p, q = arr(case["p"]), arr(case["q"])
    p, q = p / np.linalg.norm(p), q / np.linalg.norm(q)
    c = Checker("unit3")
    pq = refs.qmul(p, q)
    ok, vp = c.lib("q2v", b.q2v, p.copy())
    ok2, vq = c.lib("q2v", b.q2v, q.copy())
    if ok and ok2:
        c.eq("q2v/value", vp, p[1:], 0)
        ok3, vv = c.lib("vvmul", b.vvmul, np.asarray(vp, dtype=float), np.asarray(vq, dtype=float))
        if ok3:
            c.eq("vvmul=q2v(pq)", vv, pq[1:], 1e-9)
        ok3, vv = c.lib("UnitQuaternion.qvmul", L.UnitQuaternion.qvmul, np.asarray(vp, dtype=float), np.asarray(vq, dtype=float))
        if ok3:
            c.eq("UnitQuaternion.qvmul", vv, pq[1:], 1e-9)
        ok4, back = c.lib("v2q", b.v2q, np.asarray(vp, dtype=float))
        if ok4:
            c.eq("v2q(q2v)", back, p, 1e-9)
    ok, U = c.lib("UnitQuaternion", L.UnitQuaternion, p.copy())
    if ok:
        ok2, v3 = c.lib("vec3", lambda: U.vec3)
        if ok2:
            c.eq("vec3", v3, p[1:], 1e-12)
        ok2, U2 = c.lib("Vec3", L.UnitQuaternion.Vec3, p[1:].copy())
        if ok2:
            c.eq("Vec3", U2.vec, p, 1e-9)
    return c.out


def _rates(case):
    b = L.base
    q, w = arr(case["q"]), arr(case["w"])
    q = q / np.linalg.norm(q)
    nw = max(float(np.linalg.norm(w)), 1e-300)
    c = Checker("rates")
    pw = np.r_[0.0, w]
    ok, d = c.lib("dot", b.dot, q.copy(), w.copy())
    if ok:
        c.eq("dot=0.5*w*q", d, 0.5 * refs.qmul(pw, q), 1e-9, nw)
    ok, d = c.lib("dotb", b.dotb, q.copy(), w.copy())
    if ok:
        c.eq("dotb=0.5*q*w", d, 0.5 * refs.qmul(q, pw), 1e-9, nw)
    U = L.UnitQuaternion(q.copy())
    ok, d = c.lib("UnitQuaternion.dot", U.dot, w.copy())
    if ok:
        c.eq("UnitQuaternion.dot", d, 0.5 * refs.qmul(pw, q), 1e-9, nw)
    ok, d = c.lib("UnitQuaternion.dotb", U.dotb, w.copy())
    if ok:
        c.eq("UnitQuaternion.dotb", d, 0.5 * refs.qmul(q, pw), 1e-9, nw)
    return c.out


def _explog(case):
    c = Checker("explog")
    vdir = refs.unit(case["vdir"])
    # (a) log(exp q) = q, |v| in (0, pi)
    q = np.r_[case["s"], vdir * case["vnorm"]]
    nq = float(np.linalg.norm(q))
    for pure in (False, True):
        qq = q.copy()
        if pure:
            qq[0] = 0.0                      # pure quaternion: the exponential is a unit quaternion
        nqq = float(np.linalg.norm(qq))
        Q = L.Quaternion(qq.copy())
        site = "pure/" if pure else ""
        ok, E = c.lib(site + "exp", Q.exp)
        if ok:
            want = math.exp(qq[0]) * np.r_[math.cos(case["vnorm"]), math.sin(case["vnorm"]) * vdir]
            c.eq(site + "exp/value", E.vec, want, 1e-6, math.exp(qq[0]))
            ok2, Lg = c.lib(site + "log(exp)", E.log)
            if ok2:
                c.eq(site + "log(exp q)=q", Lg.vec, qq, 1e-6, nqq)
    # (b) exp(log q) = q for non-zero vector part
    mag = case["logmag"]
    ratio = case["ratio"]            # |v| / |q|
    sgn = case["sign"]
    q2 = mag * np.r_[sgn * math.sqrt(max(0.0, 1 - ratio * ratio)), ratio * vdir]
    Q2 = L.Quaternion(q2.copy())
    c.feat(vratio=ratio)
    ok, Lg = c.lib("log", Q2.log)
    if ok:
        want = np.r_[math.log(mag), math.atan2(ratio, sgn * math.sqrt(max(0.0, 1 - ratio * ratio))) * vdir]
        c.eq("log/value", Lg.vec, want, 1e-6, max(1.0, abs(math.log(mag))))
        ok2, E2 = c.lib("exp(log)", Lg.exp)
        if ok2:
            c.eq("exp(log q)=q", E2.vec, q2 if type(E2) is not L.UnitQuaternion else q2 / np.linalg.norm(q2), 1e-6, mag if type(E2) is not L.UnitQuaternion else 1.0)
    return c.out


def _dq(v, exact=False):
    v = _obj(v) if exact else arr(v)
    return L.DualQuaternion(L.Quaternion(v[:4].copy()), L.Quaternion(v[4:].copy()))


def _dq_mul_ref(a, b, mul):
    return list(mul(a[:4], b[:4])) + [x + y for x, y in zip(mul(a[:4], b[4:]), mul(a[4:], b[:4]))]


def _dual(case):
    c = Checker("dual")
    a, b_, cc = arr(case["a"]), arr(case["b"]), arr(case["c"])
    A, B, C = _dq(case["a"]), _dq(case["b"]), _dq(case["c"])
    na, nb, nc = (max(float(np.linalg.norm(x)), 1e-300) for x in (a, b_, cc))
    ok, AB = c.lib("mul", lambda: A * B)
    if ok:
        c.true("mul/type", type(AB) is L.DualQuaternion, "product is %s" % type(AB).__name__)
        want = np.array(_dq_mul_ref(a, b_, refs.qmul))
        c.eq("mul/value", AB.vec, want, 1e-9, na * nb)
        ok2, l = c.lib("assoc/l", lambda: ((A * B) * C).vec)
        ok3, r = c.lib("assoc/r", lambda: (A * (B * C)).vec)
        if ok2 and ok3:
            c.eq("assoc", l, r, 1e-9, na * nb * nc)
        ok2, M = c.lib("matrix", A.matrix)
        if ok2:
            M = np.asarray(M, dtype=float)
            if c.true("matrix/shape", M.shape == (8, 8), "matrix shape %s" % (M.shape,)):
                c.eq("matrix@vec", M @ b_, want, 1e-9, na * nb)
    ok, S = c.lib("add", lambda: (A + B).vec)
    if ok:
        c.eq("add/value", S, a + b_, 0)
    ok, S = c.lib("sub", lambda: (A - B).vec)
    if ok:
        c.eq("sub/value", S, a - b_, 0)
    ok, Cj = c.lib("conj", lambda: A.conj().vec)
    if ok:
        c.eq("conj/value", Cj, np.r_[refs.qconj(a[:4]), refs.qconj(a[4:])], 0)
    ok, V = c.lib("vec", lambda: A.vec)
    if ok:
        c.eq("vec/value", V, a, 0)
    # the 8-vector constructor form is the inverse of .vec
    ok, A8 = c.lib("ctor8", lambda: L.DualQuaternion(a.copy()))
    if ok and c.true("ctor8/type", type(A8) is L.DualQuaternion, "DualQuaternion(8-vector) is %s" % type(A8).__name__):
        ok, V8 = c.lib("ctor8/vec", lambda: A8.vec)
        if ok:
            c.eq("ctor8/value", V8, a, 0)
    ok, N = c.lib("norm", A.norm)
    if ok:
        if c.true("norm/pair", isinstance(N, tuple) and len(N) == 2, "norm returned %r" % (N,)):
            nr = float(np.linalg.norm(a[:4]))
            c.eq("norm/real", N[0], nr, 1e-9, nr)
            c.eq("norm/dual", N[1], float(np.dot(a[:4], a[4:])) / nr, 1e-9, max(float(np.linalg.norm(a[4:])), 1e-300))
    # a dual quaternion is mutable through its public parts: after every method was used once, replace the parts and
    # ask again - the answers must be those of a new object built from the new parts (nothing remembered)
    D = _dq(case["a"])
    for nm_, f_ in (("matrix", lambda d_: d_.matrix()), ("vec", lambda d_: d_.vec), ("norm", lambda d_: d_.norm()), ("conj", lambda d_: d_.conj().vec)):
        c.lib("history/prime/" + nm_, f_, D)
    D.real = L.Quaternion(b_[:4].copy())
    D.dual = L.Quaternion(cc[4:].copy())
    F = L.DualQuaternion(L.Quaternion(b_[:4].copy()), L.Quaternion(cc[4:].copy()))
    for nm_, f_ in (("matrix", lambda d_: d_.matrix()), ("vec", lambda d_: d_.vec), ("norm", lambda d_: d_.norm()), ("conj", lambda d_: d_.conj().vec),
                    ("mul", lambda d_: (d_ * B).vec)):
        ok1, r1 = c.lib("history/" + nm_, f_, D)
        ok2, r2 = c.lib("history/fresh/" + nm_, f_, F)
        if ok1 and ok2:
            c.true("history/%s/stale" % nm_, probes.same(probes.snap(r1), probes.snap(r2), 1e-12),
                   "DualQuaternion.%s after its parts were replaced differs from the same call on a new object with those parts" % nm_)
    # unit dual quaternion from a rigid motion
    T = refs.pose3_of(case["T"])
    sc = max(1.0, float(np.max(np.abs(T[:3, 3]))))
    c.feat(tmax=sc)
    ok, U = c.lib("UnitDualQuaternion(SE3)", L.UnitDualQuaternion, L.SE3(T.copy(), check=False))
    if ok:
        ok2, N = c.lib("unit/norm", U.norm)
        if ok2 and c.true("unit/norm/pair", isinstance(N, tuple) and len(N) == 2, "norm returned %r" % (N,)):
            c.eq("unit/norm/real", N[0], 1.0, 1e-6)
            c.eq("unit/norm/dual", N[1], 0.0, 1e-6, sc)
        T2 = refs.pose3_of(case["T2"])
        ok2, U2 = c.lib("UnitDualQuaternion(SE3)", L.UnitDualQuaternion, L.SE3(T2.copy(), check=False))
        if ok2:
            ok3, P = c.lib("unit/mul", lambda: U * U2)
            if ok3:
                c.true("unit/mul/type", type(P) is L.UnitDualQuaternion, "unit*unit is %s" % type(P).__name__)
                ok4, N = c.lib("unit/mul/norm", P.norm)
                if ok4 and isinstance(N, tuple) and len(N) == 2:
                    sc2 = max(sc, float(np.max(np.abs((T @ T2)[:3, 3]))))
                    c.eq("unit/mul/norm/real", N[0], 1.0, 1e-6)
                    c.eq("unit/mul/norm/dual", N[1], 0.0, 1e-6, sc2)
    return c.out


def _dual_exact(case):
    c = Checker("dual_exact")
    A, B, C = _dq(case["a"], True), _dq(case["b"], True), _dq(case["c"], True)
    want = _dq_mul_ref([int(x) for x in case["a"]], [int(x) for x in case["b"]], _qmul_int)
    _same_exact(c, "mul", (A * B).vec, want)
    _same_exact(c, "assoc", ((A * B) * C).vec, (A * (B * C)).vec)
    _same_exact(c, "distrib", (A * (B + C)).vec, ((A * B) + (A * C)).vec)
    _same_exact(c, "add", (A + B).vec, [int(x) + int(y) for x, y in zip(case["a"], case["b"])])
    _same_exact(c, "sub", (A - B).vec, [int(x) - int(y) for x, y in zip(case["a"], case["b"])])
    a = [int(x) for x in case["a"]]
    _same_exact(c, "conj", A.conj().vec, [a[0], -a[1], -a[2], -a[3], a[4], -a[5], -a[6], -a[7]])
    return c.out


def _symbolic(case):
    import sympy
    b = L.base
    c = Checker("symbolic", identity=case["identity"])
    name = case["identity"]
    p = np.array(sympy.symbols("p0:4", real=True), dtype=object)
    q = np.array(sympy.symbols("q0:4", real=True), dtype=object)
    r = np.array(sympy.symbols("r0:4", real=True), dtype=object)

    def zero(site, expr_list):
        for e in np.asarray(expr_list, dtype=object).ravel():
            if sympy.expand(e) != 0:
                c.fail(site, "symbolic identity does not expand to 0: %s" % sympy.expand(e))
                return
    mul = b.qqmul
    if name == "assoc":
        zero(name, mul(mul(p, q), r) - mul(p, mul(q, r)))
    elif name == "distrib":
        zero(name, mul(p, q + r) - mul(p, q) - mul(p, r))
    elif name == "norm_mult":
        pq = mul(p, q)
        zero(name, [b.inner(pq, pq) - b.inner(p, p) * b.inner(q, q)])
    elif name == "conj_rev":
        zero(name, b.conj(mul(p, q)) - mul(b.conj(q), b.conj(p)))
    elif name == "qconj":
        zero(name, mul(p, b.conj(p)) - np.array([b.inner(p, p), 0, 0, 0], dtype=object))
    elif name == "matrix":
        zero(name, b.matrix(p) @ q - mul(p, q))
    elif name == "inner":
        zero(name, [b.inner(p, q) - sum(x * y for x, y in zip(p, q))])
    elif name in ("pow2", "pow3", "pow-2"):
        n = int(name[3:])
        want = p
        for _ in range(abs(n) - 1):
            want = mul(want, p)
        if n < 0:
            want = b.conj(want)
        zero(name, b.qpow(p, n) - want)
    elif name == "vv":
        # (vvmul)^2 consistency is not polynomial; check the formula with the scalar parts as symbols instead
        return c.out
    elif name in ("dot", "dotb"):
        w = np.array(sympy.symbols("w0:3", real=True), dtype=object)
        pw = np.array([0, w[0], w[1], w[2]], dtype=object)
        if name == "dot":
            zero(name, 2 * b.dot(p, w) - mul(pw, p))
        else:
            zero(name, 2 * b.dotb(p, w) - mul(p, pw))
    elif name.startswith("dual"):
        d = np.array(sympy.symbols("d0:4", real=True), dtype=object)
        e = np.array(sympy.symbols("e0:4", real=True), dtype=object)
        f = np.array(sympy.symbols("f0:4", real=True), dtype=object)
        A = L.DualQuaternion(L.Quaternion(p), L.Quaternion(d))
        B = L.DualQuaternion(L.Quaternion(q), L.Quaternion(e))
        C = L.DualQuaternion(L.Quaternion(r), L.Quaternion(f))
        if name == "dual_assoc":
            zero(name, ((A * B) * C).vec - (A * (B * C)).vec)
        elif name == "dual_matrix":
            zero(name, A.matrix() @ B.vec - (A * B).vec)
        else:
            zero(name, (A * B).conj().real.vec - (B.conj().real * A.conj().real).vec)
    return c.out


def _distinct_nonzero(v):
    return all(x != 0 for x in v) and len(set(v)) == len(v)


def classify(case):
    if case.get("kind") in ("hist", "aug", "variant", "own"):
        return probes.classify(case)
    k = case["kind"]
    lab = {"kind:" + k: True}
    if k in ("exact", "float"):
        lab["nontrivial"] = all(_distinct_nonzero(case[x]) for x in "pqr")
    elif k in ("dual", "dual_exact"):
        lab["nontrivial"] = all(_distinct_nonzero(case[x]) for x in "abc")
    elif k == "power":
        lab["nontrivial"] = _distinct_nonzero(case["q"]) and abs(case["n"]) >= 2
        lab["negative_power"] = case["n"] < 0
    elif k == "unit3":
        lab["nontrivial"] = _distinct_nonzero(case["p"]) and _distinct_nonzero(case["q"])
    elif k == "rates":
        lab["nontrivial"] = _distinct_nonzero(case["q"]) and _distinct_nonzero(case["w"])
    elif k == "bigint":
        lab["nontrivial"] = True
    elif k == "qdtype":
        lab["nontrivial"] = True
        lab["dtype:" + case["dtype"]] = True
    elif k == "explog":
        lab["nontrivial"] = all(case["vdir"])
        lab["small_vector_part"] = case["ratio"] < 1e-3
    else:
        lab["nontrivial"] = True
    return lab


def subchecks(tier):
    return [
        Sub("symbolic", gen=gen_symbolic, shards=(4, 4)),
        Sub("exact", strategy=s_exact(), n=(300, 6000), shards=(2, 8)),
        Sub("dual_exact", strategy=s_dual_exact(), n=(200, 4000), shards=(2, 8)),
        Sub("float", strategy=s_float(), n=(600, 12000), shards=(3, 8)),
        Sub("power", strategy=s_power(), n=(400, 8000), shards=(2, 4)),
        Sub("unit3", strategy=s_unit3(), n=(400, 8000), shards=(2, 4)),
        Sub("rates", strategy=s_rates(), n=(400, 8000), shards=(2, 4)),
        Sub("explog", strategy=s_explog(), n=(500, 10000), shards=(2, 8)),
        Sub("dual", strategy=s_dual(), n=(400, 8000), shards=(4, 8)),
        Sub("element_types", gen=gen_qdtype, shards=(2, 4)),
        Sub("whole_numbers", gen=gen_bigint, shards=(1, 2)),
        Sub("whole_number_values", strategy=s_bigint(), n=(100, 2000), shards=(2, 4)),
        Sub("element_type_values", strategy=s_qdtype(), n=(150, 3000), shards=(2, 8)),
        *probes.subs(PROPERTY_ID),
    ]
