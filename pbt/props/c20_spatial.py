"""
C20  Spatial 6-vectors and inertia follow Featherstone's spatial algebra.
"""
import numpy as np
from hypothesis import strategies as st

from .. import gens, refs
from ..runner import Sub
from . import probes
from .common import L, Checker, arr

PROPERTY_ID = "C20"
RULE = ("kinds: arith (every ordered pair of the four spatial-vector classes x lengths 1..3: element-wise + - neg, TypeError "
        "for mixed classes, ValueError for unequal lengths), cross (motion and force cross products against the explicit "
        "6x6 matrix, duality), inertia (mass > 0, centre of mass, SPD rotational inertia A A'+eps I: parallel-axis matrix, "
        "symmetry, sum, I*a, I*v), transform (SE3 * vector = Ad x or Ad' x, class preserved). Vector magnitudes 1e-6..1e6. "
        "Non-trivial: all six components non-zero (vectors), centre of mass != 0 (inertia), rotation and translation both "
        "non-zero (transform).")
RULE = RULE + probes.RULE_TEXT + probes.VARIANT_TEXT + probes.OWN_TEXT + probes.EXTRA_RULES.get(PROPERTY_ID, "")
ASSUMPTIONS = ["1e-9 relative to the product of operand magnitudes", "reference adjoint from pbt/refs.py"]

VCLASSES = ["SpatialVelocity", "SpatialAcceleration", "SpatialForce", "SpatialMomentum"]
MOTION = {"SpatialVelocity", "SpatialAcceleration"}


def vec6():
    comp = st.one_of(gens.signed_logmag(-6, 6), gens.signed_logmag(-1, 1), gens.signed_logmag(-1, 1))
    return st.one_of(st.lists(comp, min_size=6, max_size=6),
                     st.lists(st.one_of(comp, st.just(0.0)), min_size=6, max_size=6),
                     st.lists(st.integers(-9, 9).map(float), min_size=6, max_size=6))


def s_arith():
    return st.fixed_dictionaries({"kind": st.just("arith"), "A": st.sampled_from(VCLASSES), "B": st.sampled_from(VCLASSES),
                                  # 1..3 values, and as many values as a vector has components (6: where rows and columns of a
                                  # 6 x N array can be mistaken for each other) and one either side
                                  "x": st.one_of(st.lists(vec6(), min_size=1, max_size=3), st.lists(vec6(), min_size=1, max_size=3), st.lists(vec6(), min_size=5, max_size=7)),
                                  "y": st.one_of(st.lists(vec6(), min_size=1, max_size=3), st.lists(vec6(), min_size=1, max_size=3), st.lists(vec6(), min_size=5, max_size=7))})


def gen_arith_cells(tier):
    base = [[1.0, -2.0, 3.0, 0.5, 4.0, -6.0], [2.0, 7.0, -1.0, 3.0, 0.25, 8.0], [-3.0, 1.0, 1.5, -2.0, 9.0, 0.125]]
    base = base + [[0.5, 3.0, -2.0, 1.0, -1.5, 4.0], [6.0, -0.25, 2.5, -3.0, 1.0, 0.75], [-1.0, 5.0, 0.5, 2.0, -4.0, 1.25], [2.5, -3.5, 1.5, 0.25, 6.0, -2.0]]
    for A in VCLASSES:
        for B in VCLASSES:
            for m in (1, 2, 3, 6, 7):
                for n in (1, 2, 3, 6, 7):
                    yield {"kind": "arith", "A": A, "B": B, "x": base[:m], "y": [list(reversed(v)) for v in base[:n]]}


def vec6z():
    """6-vectors, a quarter of them with an exactly zero linear or angular half (pure translation / pure rotation, a
    force without moment, ...)"""
    def z(t):
        v, which = list(t[0]), t[1]
        if which == "lin":
            v[:3] = [0.0, 0.0, 0.0]
        elif which == "ang":
            v[3:] = [0.0, 0.0, 0.0]
        return v
    return st.tuples(vec6(), st.sampled_from([None, None, None, None, None, None, "lin", "ang"])).map(z)


def s_cross():
    return st.fixed_dictionaries({"kind": st.just("cross"), "v": vec6z(), "m": vec6z(), "f": vec6z(),
                                  "F": st.sampled_from(["SpatialForce", "SpatialMomentum"])})


def s_inertia():
    return st.fixed_dictionaries({
        "kind": st.just("inertia"), "mass": st.one_of(gens.logmag(-3, 4), gens.logmag(-3, 4), gens.logmag(-18, -3), gens.logmag(4, 9)), "c": gens.trans(3, -3, 2),
        "A": st.lists(gens.fl(-3, 3), min_size=9, max_size=9), "eps": gens.logmag(-3, 1),
        "mass2": gens.logmag(-3, 4), "c2": gens.trans(3, -3, 2), "B": st.lists(gens.fl(-3, 3), min_size=9, max_size=9),
        "x": vec6(), "noI": st.booleans(),
        # element type of the centre-of-mass array (the vector is then rounded to small integers, non-negative for unsigned types)
        "cdtype": st.sampled_from([None, None, None, "float32", "int32", "int8", "uint8", "uint16"])})


def gen_inertia_dtypes(tier):
    for dt in ("float32", "int64", "int32", "int16", "int8", "uint8", "uint16"):
        for cvec in ([1.0, 2.0, 3.0], [3.0, -2.0, 5.0], [0.0, 7.0, 1.0]):
            for noI in (False, True):
                yield {"kind": "inertia", "mass": 2.5, "c": cvec, "A": [1.0, 0.2, -0.3, 0.5, 1.5, 0.1, -0.2, 0.4, 2.0], "eps": 0.5, "mass2": 1.5, "c2": [0.5, -1.0, 2.0],
                       "B": [0.7, -0.1, 0.3, 0.2, 1.1, 0.5, -0.4, 0.1, 0.9], "x": [1.0, -2.0, 3.0, 0.5, 2.0, -1.0], "noI": noI, "cdtype": dt}


def s_transform():
    return st.fixed_dictionaries({"kind": st.just("transform"), "T": gens.pose3(t_hi=3), "x": vec6(), "cls": st.sampled_from(VCLASSES)})


def check_case(case):
    if case.get("kind") in ("hist", "aug", "variant", "own"):
        return probes.run(case, PROPERTY_ID)
    return {"arith": _arith, "cross": _cross, "inertia": _inertia, "transform": _transform}[case["kind"]](case)


def _mk(name, vecs):
    cls = getattr(L, name)
    if len(vecs) == 1:
        return cls(np.array(vecs[0], dtype=float))
    return cls([np.array(v, dtype=float) for v in vecs])


def _vals(c, site, obj, name, n):
    cls = getattr(L, name)
    if not c.true(site + "/type", type(obj) is cls, "%s: result is %s, expected %s" % (site, type(obj).__name__, name)):
        return None
    if not c.true(site + "/len", len(obj) == n, "%s: length %d, expected %d" % (site, len(obj), n)):
        return None
    return np.array([np.asarray(a, dtype=float) for a in obj.data])


def _arith(case):
    A, B = case["A"], case["B"]
    xs, ys = case["x"], case["y"]
    m, n = len(xs), len(ys)
    c = Checker("arith", A=A, B=B, m=m, n=n)
    okx, X = c.lib("ctor", _mk, A, xs)
    oky, Y = c.lib("ctor", _mk, B, ys)
    if not (okx and oky):
        return c.out
    v0 = _vals(c, "ctor", X, A, m)
    if v0 is not None:
        c.eq("ctor/value", v0, np.array(xs), 0)
    # documented alternative constructor forms hold the same values: 6xN array (one value per column), copy of an object
    ok, X2 = c.lib("ctor/6xN", lambda: getattr(L, A)(np.array(xs, dtype=float).T.copy()) if m > 1 else getattr(L, A)(list(xs[0])))
    if ok:
        v = _vals(c, "ctor/6xN", X2, A, m)
        if v is not None:
            c.eq("ctor/6xN/value", v, np.array(xs), 0)
    ok, X3 = c.lib("ctor/copy", lambda: getattr(L, A)(X))
    if ok:
        v = _vals(c, "ctor/copy", X3, A, m)
        if v is not None:
            c.eq("ctor/copy/value", v, np.array(xs), 0)
            c.true("ctor/copy/own_list", X3.data is not X.data, "the copy shares its value list with the original")
    ok, N = c.lib("neg", lambda: -X)
    if ok:
        v = _vals(c, "neg", N, A, m)
        if v is not None:
            c.eq("neg/value", v, -np.array(xs), 0)
    for opname, f, ref in (("add", lambda: X + Y, lambda a, b: a + b), ("sub", lambda: X - Y, lambda a, b: a - b)):
        if A != B:
            c.must_raise(opname + "/mixed", f, exc=TypeError)
        elif m != n:
            c.must_raise(opname + "/length", f, exc=ValueError)
        else:
            ok, R = c.lib(opname, f)
            if ok:
                v = _vals(c, opname, R, A, m)
                if v is not None:
                    c.eq(opname + "/value", v, ref(np.array(xs), np.array(ys)), 0)
    # operands untouched
    c.eq("operand/x", np.array([np.asarray(a) for a in X.data]), np.array(xs), 0)
    c.eq("operand/y", np.array([np.asarray(a) for a in Y.data]), np.array(ys), 0)
    return c.out


def _crm(v):
    v = np.asarray(v, dtype=float)
    M = np.zeros((6, 6))
    M[:3, :3] = refs.skew3(v[3:])
    M[:3, 3:] = refs.skew3(v[:3])
    M[3:, 3:] = refs.skew3(v[3:])
    return M


def _cross(case):
    v, m, f = arr(case["v"]), arr(case["m"]), arr(case["f"])
    c = Checker("cross", F=case["F"])
    V = L.SpatialVelocity(v.copy())
    Mo = L.SpatialVelocity(m.copy())
    Fo = getattr(L, case["F"])(f.copy())
    M = _crm(v)
    nv, nm, nf = (max(float(np.max(np.abs(x))), 1e-300) for x in (v, m, f))
    vm = vf = None
    for site, fn in (("cross", lambda: V.cross(Mo)), ("matmul", lambda: V @ Mo)):
        ok, R = c.lib(site + "/motion", fn)
        if ok:
            val = _vals(c, site + "/motion", R, "SpatialAcceleration", 1)
            if val is not None:
                vm = val[0]
                c.eq(site + "/motion/value", vm, M @ m, 1e-9, nv * nm)
    for site, fn in (("cross", lambda: V.cross(Fo)), ("matmul", lambda: V @ Fo)):
        ok, R = c.lib(site + "/force", fn)
        if ok:
            val = _vals(c, site + "/force", R, "SpatialForce", 1)
            if val is not None:
                vf = val[0]
                c.eq(site + "/force/value", vf, -M.T @ f, 1e-9, nv * nf)
    if vm is not None and vf is not None:
        c.eq("duality", float(np.dot(vf, m)), -float(np.dot(f, vm)), 1e-9, nv * nm * nf)
    # an object whose value is replaced must use its new value (nothing stale from the earlier call)
    v2 = v[::-1].copy() + 0.5
    ok, R = c.lib("cross/reused", lambda: _reused_cross(v, v2, m))
    if ok:
        val = _vals(c, "cross/reused", R, "SpatialAcceleration", 1)
        if val is not None:
            c.eq("cross/reused/value", val[0], _crm(v2) @ m, 1e-9, max(float(np.max(np.abs(v2))), 1e-300) * nm)
    # a velocity crossed with something that is not a spatial vector is rejected
    c.must_raise("cross/array", lambda: V.cross(m.copy()))
    return c.out


def _reused_cross(v, v2, m):
    V = L.SpatialVelocity(v.copy())
    Mo = L.SpatialVelocity(m.copy())
    V.cross(Mo)
    V[0] = L.SpatialVelocity(v2.copy())
    return V.cross(Mo)


def _spd(a9, eps):
    A = np.array(a9, dtype=float).reshape(3, 3)
    return A @ A.T + eps * np.eye(3)


def _pa(mass, cvec, I3):
    C = refs.skew3(cvec)
    J = np.zeros((6, 6))
    J[:3, :3] = mass * np.eye(3)
    J[:3, 3:] = mass * C.T
    J[3:, :3] = mass * C
    J[3:, 3:] = I3 + mass * C @ C.T
    return J


def _inertia(case):
    mass, cv = case["mass"], arr(case["c"])
    cdt = case.get("cdtype")
    if cdt:
        cv = np.round(cv)
        if np.dtype(cdt).kind == "u":
            cv = np.abs(cv)
        if float(np.max(np.abs(cv))) > 100:
            cdt = None
    I3 = np.zeros((3, 3)) if case["noI"] else _spd(case["A"], case["eps"])
    c = Checker("inertia", mass=mass, noI=case["noI"], cdtype=case.get("cdtype"))
    Jarg = I3.copy()
    carg = np.array(cv, dtype=np.dtype(cdt) if cdt else float)
    if case["noI"]:
        ok, SI = c.lib("ctor", L.SpatialInertia, mass, carg)
    else:
        ok, SI = c.lib("ctor", L.SpatialInertia, mass, carg, Jarg)
    if not ok:
        return c.out
    c.eq("ctor/argument_I_untouched", Jarg, I3, 0)
    c.eq("ctor/argument_c_untouched", carg.astype(float), cv, 0)
    if not case["noI"]:
        # a second body built from the same inertia array gets the same matrix
        ok2, SIb = c.lib("ctor/again", L.SpatialInertia, mass, carg, Jarg)
        if ok2:
            c.eq("ctor/again/value", SIb.A, _pa(mass, cv, I3), 1e-9, max(1e-300, float(np.max(np.abs(_pa(mass, cv, I3))))))
    want = _pa(mass, cv, I3)
    sc = max(1e-300, float(np.max(np.abs(want))))
    if not c.true("ctor/type", type(SI) is L.SpatialInertia and len(SI) == 1, "SpatialInertia ctor gave %r" % type(SI)):
        return c.out
    J = np.asarray(SI.A, dtype=float)
    if not c.eq("value", J, want, 1e-9, sc):
        return c.out
    if J.shape == (6, 6):
        # the four blocks live on different scales (m, m|c|, I + m|c|^2): each is judged relative to its own size, so that a
        # light body far from the origin (or a heavy one) does not hide a wrong block behind the largest entry
        for nm_, sl in (("mass", (slice(0, 3), slice(0, 3))), ("first_moment", (slice(3, 6), slice(0, 3))), ("first_moment_T", (slice(0, 3), slice(3, 6))),
                        ("rotational", (slice(3, 6), slice(3, 6)))):
            wb = want[sl]
            sb = float(np.max(np.abs(wb)))
            if sb > 0:
                c.eq("value/block/" + nm_, J[sl], wb, 1e-9, sb)
    c.eq("symmetric", J, J.T, 1e-9, sc)
    # sum of two bodies
    I3b = _spd(case["B"], case["eps"])
    ok, SI2 = c.lib("ctor2", L.SpatialInertia, case["mass2"], list(case["c2"]), I3b.copy())
    if ok:
        want2 = _pa(case["mass2"], arr(case["c2"]), I3b)
        ok2, S = c.lib("add", lambda: SI + SI2)
        if ok2:
            if c.true("add/type", type(S) is L.SpatialInertia and len(S) == 1, "I1+I2 gave %s" % type(S).__name__):
                c.eq("add/value", S.A, want + want2, 1e-9, max(sc, float(np.max(np.abs(want2)))))
        c.eq("add/operand1", SI.A, J, 0)
        # the default-constructed (massless) inertia is the additive identity
        ok0, Z = c.lib("ctor/empty", L.SpatialInertia)
        if ok0:
            okz, Sz = c.lib("add/zero", lambda: SI + Z)
            if okz and c.true("add/zero/type", type(Sz) is L.SpatialInertia and len(Sz) == 1, "I + SpatialInertia() gave %s" % type(Sz).__name__):
                c.eq("add/zero/value", Sz.A, want, 1e-9, sc)
        c.must_raise("add/other", lambda: SI + L.SpatialVelocity(np.ones(6)))
    x = arr(case["x"])
    nx = max(float(np.max(np.abs(x))), 1e-300)
    ok, F = c.lib("I*a", lambda: SI * L.SpatialAcceleration(x.copy()))
    if ok:
        v = _vals(c, "I*a", F, "SpatialForce", 1)
        if v is not None:
            c.eq("I*a/value", v[0], want @ x, 1e-9, sc * nx)
    ok, P = c.lib("I*v", lambda: SI * L.SpatialVelocity(x.copy()))
    if ok:
        v = _vals(c, "I*v", P, "SpatialMomentum", 1)
        if v is not None:
            c.eq("I*v/value", v[0], want @ x, 1e-9, sc * nx)
    c.must_raise("I*force", lambda: SI * L.SpatialForce(x.copy()))
    # 6x6 form constructor round trip
    ok, SI3 = c.lib("ctor6x6", L.SpatialInertia, want.copy())
    if ok:
        c.eq("ctor6x6/value", SI3.A, want, 0)
    return c.out


def _transform(case):
    T = refs.pose3_of(case["T"])
    x = arr(case["x"])
    name = case["cls"]
    c = Checker("transform", cls=name)
    Ad = refs.adjoint(T)
    sc = max(1.0, float(np.max(np.abs(T[:3, 3])))) * max(float(np.max(np.abs(x))), 1e-300)
    X = L.SE3(T.copy(), check=False)
    obj = getattr(L, name)(x.copy())
    ok, R = c.lib("SE3*x", lambda: X * obj)
    if ok:
        v = _vals(c, "SE3*x", R, name, 1)
        if v is not None:
            want = Ad @ x if name in MOTION else Ad.T @ x
            c.eq("SE3*x/value", v[0], want, 1e-9, sc)
    # a twist premultiplies through the adjoint of the motion it generates
    wv = refs.unit(case["T"]["rot"]["axis"]) * min(case["T"]["rot"]["angle"], 3.0)
    S6 = np.r_[T[:3, 3] / max(1.0, float(np.max(np.abs(T[:3, 3])))), wv]
    E = refs.expm_se3(S6[:3], S6[3:])
    # (documented in SpatialVector.__rmul__ but outside the statement, and Twist3.__mul__ currently raises before the
    #  reflected operator is reached: a raise is accepted, a returned value must be right)
    try:
        R = L.Twist3(S6.copy()) * obj
        ok = True
    except Exception:  # noqa
        ok = False
    if ok:
        v = _vals(c, "Twist3*x", R, name, 1)
        if v is not None:
            AdE = refs.adjoint(E)
            want = AdE @ x if name in MOTION else AdE.T @ x
            c.eq("Twist3*x/value", v[0], want, 1e-7, max(1.0, float(np.max(np.abs(E[:3, 3])))) * max(float(np.max(np.abs(x))), 1e-300))
    c.eq("operand", obj.A, x, 0)
    c.eq("operand/T", X.A, T, 0)
    # the reverse order is not defined
    c.must_raise("x*SE3", lambda: obj * X)
    return c.out


def classify(case):
    if case.get("kind") in ("hist", "aug", "variant", "own"):
        return probes.classify(case)
    k = case["kind"]
    lab = {"kind:" + k: True}
    if k == "arith":
        lab["nontrivial"] = all(all(v) for v in case["x"] + case["y"])
        lab["mixed"] = case["A"] != case["B"]
        lab["len_mismatch"] = len(case["x"]) != len(case["y"])
        lab["multi"] = len(case["x"]) > 1
    elif k == "cross":
        lab["nontrivial"] = all(case["v"]) and all(case["m"]) and all(case["f"])
    elif k == "inertia":
        lab["nontrivial"] = any(case["c"])
    else:
        lab["nontrivial"] = bool(any(case["T"]["t"]) and case["T"]["rot"]["angle"] > 1e-6 and all(case["x"]))
        lab["force_class"] = case["cls"] not in MOTION
    return lab


def subchecks(tier):
    return [
        Sub("arith_cells", gen=gen_arith_cells, shards=(1, 1)),
        Sub("arith", strategy=s_arith(), n=(500, 8000), shards=(3, 8)),
        Sub("cross", strategy=s_cross(), n=(500, 8000), shards=(3, 8)),
        Sub("inertia", strategy=s_inertia(), n=(400, 8000), shards=(4, 8)),
        Sub("inertia_element_types", gen=gen_inertia_dtypes, shards=(2, 4)),
        Sub("transform", strategy=s_transform(), n=(500, 8000), shards=(3, 8)),
        *probes.subs(PROPERTY_ID),
    ]
