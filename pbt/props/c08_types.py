"""
C08  Operators are type-safe: only documented operand pairs produce a result.

A cell = (operator, left kind, right kind, left length, right length).  The
oracle table DOC is transcribed from the operator docstrings and the property
statement (DESIGN.md appendix A).
"""
import itertools
import operator as _op

import numpy as np
from hypothesis import strategies as st

from .. import gens, refs
from ..runner import Sub
from . import probes
from .common import L, Checker, arr

PROPERTY_ID = "C08"
RULE = ("every ordered pair of the 16 public classes plus {int, float, d-vector, d x N array, conforming N x N array} as right "
        "and {int, float} as left operand x operators * / + - ** @ (must-raise and class-of-result parts) and == != ^ | "
        "(documented-result part) x operand lengths (1,1),(1,3),(3,1),(3,3); operand values drawn valid members. Oracle: "
        "table DOC -> result class/ndarray/bool/float; pair not in DOC with operands of different classes must raise; a "
        "returned None/NotImplemented/identity/foreign-element object is a violation; stated pairs must return the stated "
        "class and the reference value. Non-trivial: different classes, or multi-valued, or subclass-related pair.")
RULE = RULE + probes.RULE_TEXT + (probes.AUG_TEXT if PROPERTY_ID in probes.AUG_PROPS else "") + probes.VARIANT_TEXT + probes.OWN_TEXT + probes.EXTRA_RULES.get(PROPERTY_ID, "")
ASSUMPTIONS = ["ndarray as LEFT operand: no pair is documented, every combination (10 shapes with at least two elements x 6 operators x every class) must raise (sub-check ndarray_left); 0-d and 1-element arrays are scalar-like and not judged", "spatial-vector * int (vector on the left) is the inherited list repetition: judged as a list operation (own elements repeated), not as arithmetic; int * spatial-vector goes through the class's own __rmul__ and must raise", "same-class cells whose only meaning is the inherited list concatenation/repetition are reported (label same_class_undocumented), not judged",
               "documented pairs outside the statement (tier P3) may raise: recorded under label documented_but_raises, not a violation"]

POSES = ["SO2", "SE2", "SO3", "SE3"]
QUATS = ["Quaternion", "UnitQuaternion"]
TWISTS = ["Twist2", "Twist3"]
SPATIAL = ["SpatialVelocity", "SpatialAcceleration", "SpatialForce", "SpatialMomentum"]
DUALS = ["DualQuaternion", "UnitDualQuaternion"]
CLASSES = POSES + QUATS + TWISTS + ["Plucker"] + SPATIAL + ["SpatialInertia"] + DUALS
LISTY = POSES + QUATS + TWISTS + SPATIAL          # classes exercised with 3 values
SCAL = ["int", "float"]
ARRS = ["vec", "arrDN", "arrNN"]
OPS = ["*", "/", "+", "-", "**", "@", "==", "!=", "^", "|"]
ARITH = ["*", "/", "+", "-", "**", "@"]
FN = {"*": _op.mul, "/": _op.truediv, "+": _op.add, "-": _op.sub, "**": _op.pow, "@": _op.matmul,
      "==": _op.eq, "!=": _op.ne, "^": _op.xor, "|": _op.or_}
SUBCLASS_PAIRS = {frozenset(p) for p in (("SO3", "SE3"), ("SO2", "SE2"), ("Quaternion", "UnitQuaternion"),
                                         ("DualQuaternion", "UnitDualQuaternion"))}


def dim_of(k):
    return 2 if k in ("SO2", "SE2", "Twist2") else 3


def doc(op, lk, rk):
    """-> (tier, result kind) or None.  result kind: class name | 'ndarray' | 'bool' | 'float'"""
    s = rk in SCAL
    if lk in POSES:
        if op == "*":
            if rk == lk:
                return ("P2", lk)
            if s:
                return ("P2", "ndarray")
            if rk in ("vec", "arrDN"):
                return ("P2", "ndarray")
            if rk == "arrNN" and lk in ("SO2", "SO3"):
                return ("P2", "ndarray")           # an N x N array is also d x N points for SO(n)
            if lk == "SE3" and rk == "Plucker":
                return ("P2", "Plucker")
            if lk == "SE3" and rk in SPATIAL:
                return ("P2", rk)
        if op == "/":
            if rk == lk:
                return ("P2", lk)
            if s:
                return ("P2", "ndarray")
        if op in ("+", "-") and (rk == lk or s):
            return ("P2", "ndarray")
        if op in ("+", "-") and rk == "arrNN":
            return ("P3", "ndarray")
        if op == "**" and rk == "int":
            return ("P2", lk)
        if op in ("==", "!=") and rk == lk:
            return ("P2", "bool")
        return None
    if lk in SCAL:
        if rk in POSES and op in ("*", "+", "-"):
            return ("P2", "ndarray")
        if rk in QUATS and op == "*":
            return ("P3", "Quaternion")
        if rk in TWISTS and op == "*":
            return ("P3", rk)
        return None
    if lk in QUATS:
        if op == "*":
            if rk in QUATS:
                return ("P2", "UnitQuaternion" if (lk == rk == "UnitQuaternion") else "Quaternion")
            if s:
                return ("P3", "Quaternion")
            if lk == "UnitQuaternion" and rk in ("vec", "arrDN", "arrNN"):
                return ("P3", "ndarray")
        if op == "/" and lk == "UnitQuaternion":
            if rk == "UnitQuaternion":
                return ("P3", "UnitQuaternion")
            if s:
                return ("P3", "Quaternion")
        if op in ("+", "-"):
            if rk in QUATS:
                return ("P2", "Quaternion")
            if s:
                return ("P3", "Quaternion")
        if op == "**" and rk == "int":
            return ("P2", lk)
        if op in ("==", "!=") and rk == lk:
            return ("P2", "bool")
        return None
    if lk in TWISTS:
        se = "SE3" if lk == "Twist3" else "SE2"
        if op == "*":
            if rk == lk:
                return ("P2", lk)
            if rk == se:
                return ("P2", se)
            if s:
                return ("P3", lk)
            if lk == "Twist3" and rk in SPATIAL:
                return ("P3", rk)
        if op in ("==", "!=") and rk == lk:
            return ("P2", "bool")
        return None
    if lk == "Plucker":
        if rk == "Plucker":
            if op == "*":
                return ("P3", "float")
            if op in ("==", "!=", "^", "|"):
                return ("P3", "bool")
        return None
    if lk in SPATIAL:
        if op in ("+", "-") and rk == lk:
            return ("P3", lk)
        if op == "@" and lk == "SpatialVelocity":
            if rk == "SpatialVelocity":
                return ("P3", "SpatialAcceleration")
            if rk in ("SpatialForce", "SpatialMomentum"):
                return ("P3", "SpatialForce")
        if op == "*" and rk == "SpatialInertia":
            if lk == "SpatialAcceleration":
                return ("P3", "SpatialForce")
            if lk == "SpatialVelocity":
                return ("P3", "SpatialMomentum")
        return None
    if lk == "SpatialInertia":
        if op == "+" and rk == "SpatialInertia":
            return ("P3", "SpatialInertia")
        if op == "*" and rk == "SpatialAcceleration":
            return ("P3", "SpatialForce")
        if op == "*" and rk == "SpatialVelocity":
            return ("P3", "SpatialMomentum")
        return None
    if lk in DUALS:
        if rk in DUALS:
            if op in ("+", "-"):
                return ("P3", "DualQuaternion")
            if op == "*":
                return ("P3", "UnitDualQuaternion" if lk == rk == "UnitDualQuaternion" else "DualQuaternion")
        if lk == "UnitDualQuaternion" and op == "*" and rk == "vec":
            return ("P3", "ndarray")
        return None
    return None


# --------------------------------------------------------------------------- #
# operand construction

DEFAULT_VALS = {
    "p3": [{"rot": {"axis": [0.3, -0.5, 0.8], "angle": 1.1, "via": "rod"}, "t": [1.0, -2.0, 3.0]},
           {"rot": {"axis": [-0.6, 0.2, 0.4], "angle": 0.7, "via": "rod"}, "t": [0.5, 4.0, -1.0]},
           {"rot": {"axis": [0.1, 0.9, -0.3], "angle": 2.3, "via": "rod"}, "t": [-3.0, 0.25, 2.0]}],
    "p2": [{"angle": 0.7, "t": [1.0, -2.0]}, {"angle": -1.9, "t": [0.5, 4.0]}, {"angle": 2.6, "t": [-3.0, 0.25]}],
    "v6": [[1.0, -2.0, 3.0, 0.5, 4.0, -6.0], [2.0, 7.0, -1.0, 3.0, 0.25, 8.0], [-3.0, 1.0, 1.5, -2.0, 9.0, 0.125]],
    "q": [[0.5, 0.5, -0.5, 0.5], [0.5, -1.0, 2.0, 0.25], [0.0, 0.6, 0.0, 0.8]],   # plain quaternions, two of them of unit norm
    "scalar": 2.0, "npts": 4,
}


def vals_strategy():
    v6 = st.lists(st.one_of(gens.signed_logmag(-2, 2), st.integers(-9, 9).map(float)), min_size=6, max_size=6)
    q = st.one_of(st.lists(gens.signed_logmag(-2, 2), min_size=4, max_size=4),
                  st.sampled_from([[0.5, 0.5, -0.5, 0.5], [1.0, 0.0, 0.0, 0.0], [0.0, 0.6, 0.0, 0.8]]))
    return st.fixed_dictionaries({
        "p3": st.lists(gens.pose3(t_hi=2, lo_exp=-6), min_size=3, max_size=3),
        "p2": st.lists(gens.pose2(t_hi=2), min_size=3, max_size=3),
        "v6": st.lists(v6, min_size=3, max_size=3),
        "q": st.lists(q, min_size=3, max_size=3),
        "scalar": st.one_of(gens.signed_logmag(-2, 2), st.integers(-3, 5).map(float)),
        "npts": st.integers(1, 5),
    })


def build(kind, n, vals, side):
    """operand of the given kind holding n values; returns (object, reference description)"""
    off = 0 if side == "L" else 1
    idx = [(i + off) % 3 for i in range(n)]
    if kind in POSES:
        d = dim_of(kind)
        Ms = [(refs.pose3_of(vals["p3"][i]) if d == 3 else refs.pose2_of(vals["p2"][i])) for i in idx]
        if kind.startswith("SO"):
            Ms = [M[:d, :d].copy() for M in Ms]
        cls = getattr(L, kind)
        return (cls(Ms[0], check=False) if n == 1 else cls(Ms, check=False)), Ms
    if kind in QUATS:
        qs = [arr(vals["q"][i]) for i in idx]
        if kind == "UnitQuaternion":
            qs = [refs.q_of(vals["p3"][i]["rot"]) for i in idx]
        cls = getattr(L, kind)
        return (cls(qs[0].copy()) if n == 1 else cls([q.copy() for q in qs])), qs
    if kind in TWISTS:
        if kind == "Twist3":
            vs = [np.r_[arr(vals["p3"][i]["t"]), refs.unit(vals["p3"][i]["rot"]["axis"]) * min(vals["p3"][i]["rot"]["angle"], 3.0)] for i in idx]
        else:
            vs = [np.r_[arr(vals["p2"][i]["t"]), vals["p2"][i]["angle"]] for i in idx]
        cls = getattr(L, kind)
        return (cls(vs[0].copy()) if n == 1 else cls([v.copy() for v in vs])), vs
    if kind == "Plucker":
        v = arr(vals["v6"][idx[0]])
        w = v[3:] if np.any(v[3:]) else np.array([1.0, 0.0, 0.0])
        p = v[:3]
        return L.Plucker(np.r_[np.cross(w, p), w]), [np.r_[np.cross(w, p), w]]
    if kind in SPATIAL:
        vs = [arr(vals["v6"][i]) for i in idx]
        cls = getattr(L, kind)
        return (cls(vs[0].copy()) if n == 1 else cls([v.copy() for v in vs])), vs
    if kind == "SpatialInertia":
        v = arr(vals["v6"][idx[0]])
        return L.SpatialInertia(abs(v[0]) + 1.0, list(v[1:4]), np.diag(np.abs(v[3:6]) + 1.0)), None
    if kind == "DualQuaternion":
        a, b = arr(vals["q"][idx[0]]), arr(vals["q"][(idx[0] + 1) % 3])
        if side == "R":
            # a plain dual quaternion may legitimately carry a UnitQuaternion as its real part
            u = refs.q_of(vals["p3"][idx[0]]["rot"])
            return L.DualQuaternion(L.UnitQuaternion(u.copy()), L.Quaternion(b.copy())), [u, b]
        return L.DualQuaternion(L.Quaternion(a.copy()), L.Quaternion(b.copy())), [a, b]
    if kind == "UnitDualQuaternion":
        T = refs.pose3_of(vals["p3"][idx[0]])
        return L.UnitDualQuaternion(L.SE3(T, check=False)), [T]
    if kind == "int":
        return int(round(vals["scalar"])) or 2, None
    if kind == "float":
        return float(vals["scalar"]) or 2.5, None
    raise ValueError(kind)


def build_array(kind, lk, vals):
    d = dim_of(lk) if lk in POSES + TWISTS else 3
    base = np.array([[1.0, -2.0, 0.5, 3.0, -1.5], [2.0, 0.25, -3.0, 1.0, 4.0], [-1.0, 3.0, 2.0, -0.5, 0.75]])
    if kind == "vec":
        return [float(x) for x in base[:d, 0]]
    if kind == "arrDN":
        n = max(2, vals["npts"])
        if n == d:
            n += 1
        return base[:d, :n].copy()
    # conforming N x N array = same shape as the left operand's matrix
    if lk in POSES:
        m = d + 1 if lk.startswith("SE") else d
    else:
        m = 3
    return (np.arange(m * m, dtype=float).reshape(m, m) / 7.0 + np.eye(m))


def valid_elem(kind, a):
    """is array a a plausible element of class kind (used to detect foreign elements / None)"""
    if a is None or not isinstance(a, np.ndarray):
        return False
    shape = {"SO2": (2, 2), "SE2": (3, 3), "SO3": (3, 3), "SE3": (4, 4), "Quaternion": (4,), "UnitQuaternion": (4,),
             "Twist2": (3,), "Twist3": (6,), "Plucker": (6,), "SpatialInertia": (6, 6)}.get(kind, (6,))
    return a.shape == shape


LARR_SHAPES = {"v2": (2,), "v3": (3,), "v4": (4,), "v6": (6,), "m22": (2, 2), "m33": (3, 3), "m44": (4, 4), "m24": (2, 4), "m32": (3, 2), "m16": (1, 6)}


def gen_larr(tier):
    for op in ARITH:
        for sh in LARR_SHAPES:
            for rk in CLASSES:
                for nr in ((1, 3) if rk in LISTY else (1,)):
                    yield {"kind": "larr", "op": op, "shape": sh, "R": rk, "nr": nr, "vals": DEFAULT_VALS, "L": "ndarray", "nl": 1}
                    if sh in ("v2", "v3", "v4", "v6", "m22", "m33"):
                        # the same numbers as a plain Python list / tuple (NumPy is then not involved in the dispatch at all)
                        for cont in ("list", "tuple"):
                            yield {"kind": "larr", "op": op, "shape": sh, "R": rk, "nr": nr, "vals": DEFAULT_VALS, "L": cont, "nl": 1}


def _larr(case):
    """a NumPy array as LEFT operand of an arithmetic operator with a library object on the right: no such pair is
    documented, so nothing may come back (NumPy dispatches first; the classes' reflected methods must not answer)"""
    op, sh, rk, nr = case["op"], case["shape"], case["R"], case["nr"]
    c = Checker("larr", op=op, shape=sh, R=rk, nr=nr)
    right, _ = build(rk, nr, case["vals"], "R")
    shape = LARR_SHAPES[sh]
    A = (np.arange(1.0, 1.0 + max(1, int(np.prod(shape)))) * 0.5).reshape(shape) if shape else np.array(2.0)
    if op == "**":
        A = np.abs(A) + 0.5
    before = A.copy()
    cont = case.get("L", "ndarray")
    left = A if cont == "ndarray" else (A.tolist() if cont == "list" else (tuple(A.tolist()) if A.ndim == 1 else tuple(tuple(r_) for r_ in A.tolist())))
    if cont != "ndarray":
        c.feat(left=cont)
        if op == "+" and isinstance(getattr(right, "data", None), list):
            return c.out      # list + list-like object: Python's sequence concatenation protocol (UserList), not an arithmetic pairing
    try:
        with np.errstate(all="ignore"):
            res = FN[op](left, right)
    except Exception:  # noqa  rejected
        return c.out
    c.fail("%s%s %s %s/must_raise" % (cont, sh, op, rk), "%s of shape %s %s %s returned %s instead of raising" % (cont, shape, op, rk, _describe(res)))
    c.eq("ndarray operand untouched", A, before, 0)
    return c.out


def gen_rarr(tier):
    for op in ("+", "-", "/"):
        for lk in POSES:
            for nl in (1, 3):
                for sh in ("conforming", "stack2", "stack1", "vector", "column", "larger", "trailing2", "short", "wide"):
                    yield {"kind": "rarr", "op": op, "shape": sh, "L": lk, "nl": nl, "vals": DEFAULT_VALS, "R": "ndarray", "nr": 1}
    # rigid motion * array: points have one coordinate fewer than the matrix has rows; homogeneous vectors / matrices of the
    # matrix's own size and stacks are not documented operands
    for lk in ("SE2", "SE3"):
        for nl in (1, 3):
            for sh in ("conforming", "stack2", "stack1", "vector", "column", "larger", "trailing2"):
                yield {"kind": "rarr", "op": "*", "shape": sh, "L": lk, "nl": nl, "vals": DEFAULT_VALS, "R": "ndarray", "nr": 1}


def _rarr(case):
    """pose + / - / / NumPy array: only an array of the pose's own matrix shape conforms (+ and - give a plain array, a list
    of arrays for several values); every other shape - stacks of matrices included - is not a documented operand"""
    op, sh, lk, nl = case["op"], case["shape"], case["L"], case["nl"]
    c = Checker("rarr", op=op, shape=sh, L=lk, nl=nl)
    left, _ = build(lk, nl, case["vals"], "L")
    n = left.A.shape[0] if nl == 1 else left.A[0].shape[0]
    shape = {"conforming": (n, n), "stack2": (2, n, n), "stack1": (1, n, n), "vector": (n,), "column": (n, 1), "larger": (n + 1, n + 1),
             "trailing2": (n, n, 2), "short": (n - 1,), "wide": (n - 1, 5)}[sh]
    A = (np.arange(1.0, 1.0 + int(np.prod(shape))) * 0.25).reshape(shape)
    before = A.copy()
    try:
        res = FN[op](left, A)
        raised = False
    except Exception:  # noqa
        raised = True
    site = "%s %s ndarray[%s]" % (lk, op, sh)
    if sh == "conforming" and op in ("+", "-"):
        if c.true(site + "/answers", not raised, "%s %s conforming array raised" % (lk, op)):
            mats = [left.A] if nl == 1 else list(left.A)
            want = [FN[op](np.asarray(m, dtype=float), A) for m in mats]
            got = [res] if nl == 1 else res
            if c.true(site + "/container", (isinstance(res, np.ndarray) if nl == 1 else isinstance(res, list) and len(res) == nl), "returned %s" % _describe(res)):
                for g, w in zip(got, want):
                    c.eq(site + "/value", g, w, 1e-12)
    else:
        c.true(site + "/must_raise", raised, "%s (%d values) %s array of shape %s returned %s instead of raising" % (lk, nl, op, shape, "?" if raised else _describe(res)))
    c.eq("ndarray operand untouched", A, before, 0)
    return c.out


def gen_linebool(tier):
    for rel in ("skew", "intersecting", "parallel", "antiparallel", "same", "rescaled"):
        for op in ("^", "|", "==", "!="):
            for k in (1.0, 2.5):
                yield {"kind": "linebool", "rel": rel, "op": op, "k": k, "L": "Plucker", "R": "Plucker", "nl": 1, "nr": 1}


def _linebool(case):
    """Plucker ^ | == != between two lines answer with a bool whatever the geometric relation of the lines (never None)"""
    rel, op, k = case["rel"], case["op"], case["k"]
    c = Checker("linebool", rel=rel, op=op)
    p1, w1 = np.array([1.0, 2.0, 3.0]), np.array([0.0, 0.6, 0.8]) * k
    if rel == "skew":
        p2, w2 = np.array([4.0, -1.0, 0.5]), np.array([1.0, 0.0, 0.0])
    elif rel == "intersecting":
        p2, w2 = p1 + w1 * 0.7, np.array([1.0, 0.0, 0.0]) * k
    elif rel == "parallel":
        p2, w2 = p1 + np.array([1.0, 0.0, 0.0]), w1 * 2.0
    elif rel == "antiparallel":
        p2, w2 = p1 + np.array([1.0, 0.0, 0.0]), -w1
    elif rel == "same":
        p2, w2 = p1.copy(), w1.copy()
    else:
        p2, w2 = p1 + w1 * 1.3, w1 * 3.0
    l1, l2 = L.Plucker.PointDir(list(p1), list(w1)), L.Plucker.PointDir(list(p2), list(w2))
    ok, r = c.lib("Plucker %s Plucker" % op, lambda: FN[op](l1, l2))
    if ok:
        c.true("Plucker %s Plucker/bool" % op, isinstance(r, (bool, np.bool_)), "%s lines: l1 %s l2 gave %r (%s)" % (rel, op, r, type(r).__name__))
    return c.out


def gen_scalarvalue(tier):
    for op in ("*", "+", "-", "/"):
        for k in POSES + QUATS + TWISTS:
            for n in ((1, 3) if k in LISTY else (1,)):
                for side in ("left", "right"):
                    yield {"kind": "scalarvalue", "op": op, "K": k, "n": n, "side": side, "vals": DEFAULT_VALS, "L": k, "R": "int", "nl": n, "nr": 1}


def _signature(r):
    if isinstance(r, np.ndarray):
        return ("ndarray", r.shape)
    if isinstance(getattr(r, "data", None), list):
        return (type(r).__name__, len(r.data), tuple(np.shape(x) for x in r.data))
    if isinstance(r, list):
        return ("list", len(r), tuple(_signature(x) for x in r))
    return (type(r).__name__,)


def _scalarvalue(case):
    """what a scalar combined with an object returns (class, length, shapes - or an exception) does not depend on the VALUE of
    the scalar: 0, 0.0, 1, -1 behave like 2 / 2.5"""
    op, k, n, side = case["op"], case["K"], case["n"], case["side"]
    c = Checker("scalarvalue", op=op, K=k, n=n, side=side)

    def run(sv):
        obj, _ = build(k, n, case["vals"], "L")
        try:
            r = FN[op](sv, obj) if side == "left" else FN[op](obj, sv)
        except Exception as e:  # noqa
            return ("raise",)
        return _signature(r)
    for ref_, probes_ in ((2, (0, 1, -1)), (2.5, (0.0, 1.0, -1.0))):
        want = run(ref_)
        for sv in probes_:
            if op == "/" and side == "right" and sv == 0:
                continue
            got = run(sv)
            if got != want:
                c.fail("%s %s %s/scalar_value" % (("s", op, k) if side == "left" else (k, op, "s")),
                       "with the scalar %r the result is %r, with %r it is %r" % (sv, got, ref_, want), scalar=repr(sv))
    return c.out


def check_case(case):
    if case.get("kind") == "scalarvalue":
        return _scalarvalue(case)
    if case.get("kind") == "rarr":
        return _rarr(case)
    if case.get("kind") == "linebool":
        return _linebool(case)
    if case.get("kind") in ("hist", "aug", "variant", "own"):
        return probes.run(case, PROPERTY_ID)
    if case.get("kind") == "larr":
        return _larr(case)
    op, lk, rk = case["op"], case["L"], case["R"]
    nl, nr = case["nl"], case["nr"]
    vals = case["vals"]
    c = Checker("cell", op=op, L=lk, R=rk, nl=nl, nr=nr)
    left, lref = build(lk, nl, vals, "L")
    if rk in ARRS:
        right, rref = build_array(rk, lk, vals), None
    else:
        right, rref = build(rk, nr, vals, "R")
    spec = doc(op, lk, rk)
    if spec is not None and (nl > 1 or nr > 1):
        # documented for single values only: SE3 * Plucker / spatial vector, Twist3 * spatial vector,
        # multi-valued pose * (d x N) point array
        if (lk in ("SE3", "Twist3") and rk in SPATIAL + ["Plucker"]) or (lk in POSES + QUATS and rk in ("arrDN", "arrNN") and op == "*"):
            return c.out
    site = "%s %s %s" % (lk, op, rk)
    try:
        res = FN[op](left, right)
        exc = None
    except Exception as e:  # noqa
        res, exc = None, e
    c.feat(tier=spec[0] if spec else "P1", raised=type(exc).__name__ if exc else None)
    lens_ok = nl == 1 or nr == 1 or nl == nr
    same = lk == rk
    if spec is None and exc is None and op == "*" and (lk in SPATIAL and rk == "int"):
        # inherited list repetition (documented nowhere, but not an arithmetic result): reported, and judged only
        # as a list operation - the result must be the operand's own elements repeated
        obj, k = left, int(right)       # (int * spatial vector is not exempt: the reflected operator is the class's own and must raise)
        want = [np.asarray(a) for a in obj.data] * k
        good = type(res) is type(obj) and len(res) == len(want) and all(np.array_equal(a, b) for a, b in zip(res.data, want))
        c.true(site + "/repetition", good, "list repetition returned %s" % _describe(res))
        return c.out
    if spec is None:
        if same:
            return c.out            # same-class, undocumented: reported via label only
        if op not in ARITH:
            return c.out            # == != ^ | between different classes: outside the statement
        if exc is None:
            c.fail(site + "/must_raise", "undocumented operand pair returned %s instead of raising" % _describe(res))
        return c.out
    tier, want = spec
    if exc is not None:
        if tier == "P2" and lens_ok:
            c.fail(site + "/raised", "documented pair raised %s: %s" % (type(exc).__name__, exc))
        return c.out                 # P3: documented_but_raises is recorded by classify()/labels
    # something was returned: class / length / content must match the documentation
    n = max(nl, nr) if rk not in ARRS else nl
    if want == "bool":
        if n == 1:
            c.true(site + "/bool", isinstance(res, (bool, np.bool_)), "expected a bool, got %s" % _describe(res))
        else:
            c.true(site + "/boollist", isinstance(res, list) and len(res) == n and all(isinstance(x, (bool, np.bool_)) for x in res),
                   "expected a list of %d bools, got %s" % (n, _describe(res)))
        if isinstance(res, (bool, np.bool_)) and lk in POSES + QUATS + TWISTS and n == 1 and lref is not None and rref is not None:
            eq = bool(np.allclose(lref[0], rref[0])) or (lk == "UnitQuaternion" and bool(np.allclose(lref[0], -rref[0])))
            c.true(site + "/boolvalue", bool(res) == (eq if op == "==" else not eq), "%s gave %r for %s operands" % (op, res, "equal" if eq else "different"))
        return c.out
    if want == "float":
        c.true(site + "/float", isinstance(res, (float, np.floating)), "expected a float, got %s" % _describe(res))
        return c.out
    if want == "ndarray":
        if res is None or res is NotImplemented:
            c.fail(site + "/none", "returned %r" % (res,))
        elif n == 1 or (rk in ("vec", "arrDN", "arrNN") and op == "*"):
            c.true(site + "/ndarray", isinstance(res, np.ndarray) and res.dtype.kind == "f" and bool(np.all(np.isfinite(res))), "expected a finite ndarray, got %s" % _describe(res))
        else:
            c.true(site + "/ndarraylist", isinstance(res, list) and len(res) == n and all(isinstance(x, np.ndarray) for x in res), "expected a list of %d arrays, got %s" % (n, _describe(res)))
        if isinstance(res, np.ndarray) and n == 1 and lk in POSES and rk in SCAL + [lk] and op in ("+", "-", "*", "/") and not (op in "*/" and rk == lk):
            r0 = rref[0] if rk == lk else float(right)
            c.eq(site + "/value", res, FN[op](lref[0], r0), 1e-12, max(1.0, float(np.max(np.abs(lref[0])))) * max(1.0, float(np.max(np.abs(r0)))))
        if isinstance(res, np.ndarray) and lk in SCAL and rk in POSES and nr == 1:
            c.eq(site + "/value", res, FN[op](float(left), rref[0]), 1e-12, max(1.0, abs(float(left))) * max(1.0, float(np.max(np.abs(rref[0])))))
        return c.out
    # a class is expected
    cls = getattr(L, want)
    if not c.true(site + "/class", type(res) is cls, "expected %s, got %s" % (want, _describe(res))):
        return c.out
    if want in DUALS:
        return c.out
    try:
        data = list(res.data)
    except Exception:  # noqa
        return c.out
    c.true(site + "/len", len(data) == n, "result holds %d values, expected %d" % (len(data), n))
    for a in data:
        if not valid_elem(want, a):
            c.fail(site + "/element", "result holds a foreign / invalid element %r" % (a,))
            return c.out
    # reference values for the pairs named in the statement (single-valued operands)
    if n == 1 and len(data) == 1:
        A = np.asarray(data[0], dtype=float)
        if lk in POSES and rk == lk and op in ("*", "/"):
            Rm = rref[0]
            if op == "/":
                d = dim_of(lk)
                Rm = Rm.T if lk.startswith("SO") else refs.rt(Rm[:d, :d].T, -Rm[:d, :d].T @ Rm[:d, d])
            c.eq(site + "/value", A, lref[0] @ Rm, 1e-9, 1e2)
        elif lk in POSES and op == "**":
            c.eq(site + "/value", A, np.linalg.matrix_power(lref[0], int(right)), 1e-9, 1e4)
        elif lk in QUATS and rk in QUATS and op in ("*", "+", "-"):
            w = refs.qmul(lref[0], rref[0]) if op == "*" else FN[op](lref[0], rref[0])
            if want == "UnitQuaternion":
                w = w / np.linalg.norm(w)
            c.eq(site + "/value", A, w, 1e-9, max(1.0, float(np.linalg.norm(lref[0]) * np.linalg.norm(rref[0]))))
        elif lk in QUATS and rk in SCAL and op == "*":
            c.eq(site + "/value", A, lref[0] * float(right), 1e-12, max(1.0, abs(float(right)) * float(np.linalg.norm(lref[0]))))
        elif lk in SCAL and rk in QUATS and op == "*":
            c.eq(site + "/value", A, rref[0] * float(left), 1e-12, max(1.0, abs(float(left)) * float(np.linalg.norm(rref[0]))))
        elif lk in TWISTS and op == "*":
            ex = (lambda v: refs.expm_se3(v[:3], v[3:])) if lk == "Twist3" else (lambda v: refs.expm_se2(v[:2], v[2]))
            if rk == lk:
                c.eq(site + "/value", ex(A), ex(lref[0]) @ ex(rref[0]), 1e-7, 1e2)
            elif rk in ("SE3", "SE2"):
                c.eq(site + "/value", A, ex(lref[0]) @ rref[0], 1e-7, 1e2)
            elif rk in SCAL:
                c.eq(site + "/value", A, lref[0] * float(right), 1e-12, max(1.0, abs(float(right))) * max(1.0, float(np.max(np.abs(lref[0])))))
        elif lk in SCAL and rk in TWISTS and op == "*":
            c.eq(site + "/value", A, rref[0] * float(left), 1e-12, max(1.0, abs(float(left))) * max(1.0, float(np.max(np.abs(rref[0])))))
        elif lk == "SE3" and rk in SPATIAL:
            Ad = refs.adjoint(lref[0])
            w = Ad @ rref[0] if rk in ("SpatialVelocity", "SpatialAcceleration") else Ad.T @ rref[0]
            c.eq(site + "/value", A, w, 1e-9, 1e3)
        elif lk == "SE3" and rk == "Plucker":
            # the transformed line passes through the transformed point and has the rotated direction
            T = lref[0]
            v0, w0 = rref[0][:3], rref[0][3:]
            p0 = np.cross(v0, w0) / np.dot(w0, w0)          # point on the original line (either moment convention)
            cand = [p0, -p0]
            Rw = T[:3, :3] @ w0
            ok_dir = np.linalg.norm(np.cross(A[3:], Rw)) <= 1e-9 * max(1.0, float(np.dot(w0, w0)))
            c.true(site + "/direction", bool(ok_dir), "transformed line direction %s is not R w = %s" % (A[3:], Rw))
            res_pts = [float(np.linalg.norm(np.cross(A[3:], T[:3, :3] @ p + T[:3, 3]) - A[:3])) for p in cand]
            res_pts += [float(np.linalg.norm(np.cross(T[:3, :3] @ p + T[:3, 3], A[3:]) - A[:3])) for p in cand]
            c.true(site + "/incidence", min(res_pts) <= 1e-9 * 1e3, "transformed line misses the transformed point (residual %.3g)" % min(res_pts))
    return c.out


def _describe(x):
    if x is None or x is NotImplemented:
        return repr(x)
    if isinstance(x, np.ndarray):
        return "ndarray%s" % (x.shape,)
    if isinstance(x, list):
        return "list[%d] of %s" % (len(x), type(x[0]).__name__ if x else "-")
    try:
        return "%s(len %d)" % (type(x).__name__, len(x))
    except Exception:  # noqa
        return "%s: %r" % (type(x).__name__, x)


def cells():
    lefts = CLASSES + SCAL
    rights = CLASSES + SCAL + ARRS
    for op in OPS:
        for lk in lefts:
            for rk in rights:
                if lk in SCAL and rk in SCAL + ARRS:
                    continue
                lens = [(1, 1)]
                ll = lk in LISTY
                rl = rk in LISTY
                if ll and rl:
                    lens = [(1, 1), (1, 3), (3, 1), (3, 3)]
                elif ll:
                    lens = [(1, 1), (3, 1)]
                elif rl:
                    lens = [(1, 1), (1, 3)]
                for nl, nr in lens:
                    yield op, lk, rk, nl, nr


def gen_cells(tier):
    for op, lk, rk, nl, nr in cells():
        yield {"kind": "cell", "op": op, "L": lk, "R": rk, "nl": nl, "nr": nr, "vals": DEFAULT_VALS}


ALL_CELLS = None


def s_cells():
    global ALL_CELLS
    if ALL_CELLS is None:
        ALL_CELLS = list(cells())
    return st.tuples(st.sampled_from(ALL_CELLS), vals_strategy()).map(
        lambda t: {"kind": "cell", "op": t[0][0], "L": t[0][1], "R": t[0][2], "nl": t[0][3], "nr": t[0][4], "vals": t[1]})


def classify(case):
    if case.get("kind") in ("hist", "aug", "variant", "own"):
        return probes.classify(case)
    if case.get("kind") == "linebool":
        return {"kind:linebool": True, "op:" + case["op"]: True, "rel:" + case["rel"]: True, "nontrivial": True}
    if case.get("kind") == "rarr":
        return {"kind:rarr": True, "op:" + case["op"]: True, "shape:" + case["shape"]: True, "nontrivial": True}
    if case.get("kind") == "scalarvalue":
        return {"kind:scalarvalue": True, "op:" + case["op"]: True, "multi": case["n"] > 1, "nontrivial": True}
    if case.get("kind") == "larr":
        return {"kind:larr": True, "op:" + case["op"]: True, "multi": case["nr"] > 1, "nontrivial": True}
    lk, rk, op = case["L"], case["R"], case["op"]
    spec = doc(op, lk, rk)
    lab = {"op:" + op: True, "tier:" + (spec[0] if spec else ("same_class_undocumented" if lk == rk else "P1")): True,
           "multi": case["nl"] > 1 or case["nr"] > 1,
           "subclass_pair": frozenset((lk, rk)) in SUBCLASS_PAIRS}
    lab["nontrivial"] = bool(lk != rk or lab["multi"])
    return lab


def extra_evidence(tier):
    n = sum(1 for _ in cells())
    p1 = sum(1 for op, lk, rk, nl, nr in cells() if doc(op, lk, rk) is None and lk != rk and op in ARITH)
    return {"cell_space": n, "must_raise_cells": p1, "documented_cells": sum(1 for op, lk, rk, nl, nr in cells() if doc(op, lk, rk) is not None)}


def subchecks(tier):
    return [
        Sub("cells", gen=gen_cells, shards=(8, 16)),
        Sub("ndarray_left", gen=gen_larr, shards=(4, 8)),
        Sub("scalar_values", gen=gen_scalarvalue, shards=(2, 4)),
        Sub("ndarray_right", gen=gen_rarr, shards=(1, 2)),
        Sub("line_predicates", gen=gen_linebool, shards=(1, 2)),
        Sub("values", strategy=s_cells(), n=(400, 20000), shards=(12, 16)),
        *probes.subs(PROPERTY_ID),
    ]
