"""
C05  Angle-set and axis-angle extraction is a right inverse of construction.
"""
import math

import numpy as np
from hypothesis import strategies as st

from .. import gens, refs
from ..runner import Sub
from . import probes
from .common import L, Checker, arr, fresh_str

PROPERTY_ID = "C05"
RULE = ("rotations generated from angle triples (full range, exact singular values pitch=+-pi/2 / Euler theta in {0,+-pi} / "
        "axis-angle theta in {0,pi}, and offsets +-10^-k, k=1..12, around them); all RPY orders and aliases, flip, deg/rad, "
        "SO(3) and SE(3) inputs, base functions and SO3/SE3/UnitQuaternion methods, planar x-y-theta. Oracle: constructor = "
        "documented product of reference axis rotations (1e-9); rebuild(extract(R)) = R (1e-6); angle ranges; deg = rad*180/pi. "
        "Non-trivial: within 1e-3 of a singular configuration, or non-default order / flip / deg.")
RULE = RULE + probes.RULE_TEXT + (probes.AUG_TEXT if PROPERTY_ID in probes.AUG_PROPS else "") + probes.VARIANT_TEXT + probes.OWN_TEXT + probes.EXTRA_RULES.get(PROPERTY_ID, "")
ASSUMPTIONS = ["extraction need not return the generating angles (many pre-images): only the rebuilt matrix and ranges are judged",
               "reference rotations from pbt/refs.py; deg inputs are a*180/pi so that the library's conversion reproduces a to 1 ulp"]

PI = math.pi
ORDERS = ["zyx", "xyz", "yxz", "vehicle", "arm", "camera"]
CANON = {"vehicle": "zyx", "arm": "xyz", "camera": "yxz"}
D = 180.0 / PI


def near(vals, kmax=12):
    return st.one_of(st.sampled_from(vals), st.tuples(st.sampled_from(vals), gens.offsets(1, kmax)).map(lambda t: t[0] + t[1]))


def any_angle():
    return st.one_of(gens.fl(-PI, PI), gens.fl(-PI, PI), near([0.0, PI / 2, -PI / 2, PI, -PI]), gens.fl(-2 * PI, 2 * PI))


def s_rpy():
    pitch = st.one_of(near([PI / 2, -PI / 2]), near([PI / 2, -PI / 2]), any_angle(), gens.fl(-PI / 2, PI / 2))
    return st.fixed_dictionaries({"kind": st.just("rpy"), "r": any_angle(), "p": pitch, "y": any_angle(),
                                  "order": st.sampled_from(ORDERS), "unit": st.sampled_from(["rad", "deg"]),
                                  "se": st.booleans(), "t": gens.trans(3, -3, 3)})


def s_eul():
    theta = st.one_of(near([0.0, PI, -PI]), near([0.0, PI, -PI]), any_angle(), gens.fl(0, PI))
    return st.fixed_dictionaries({"kind": st.just("eul"), "phi": any_angle(), "theta": theta, "psi": any_angle(),
                                  "flip": st.booleans(), "unit": st.sampled_from(["rad", "deg"]),
                                  "se": st.booleans(), "t": gens.trans(3, -3, 3)})


def s_angvec():
    return st.fixed_dictionaries({"kind": st.just("angvec"), "axis": gens.axis3(-3, 6), "theta": gens.rot_angles(-15),
                                  "ctor_theta": st.one_of(any_angle(), gens.angles()),
                                  "unit": st.sampled_from(["rad", "deg"]), "se": st.booleans(), "t": gens.trans(3, -3, 3)})


def s_xyt():
    return st.fixed_dictionaries({"kind": st.just("xyt"), "x": gens.signed_logmag(-6, 6), "y": st.one_of(gens.signed_logmag(-6, 6), st.just(0.0)),
                                  "theta": st.one_of(gens.angle2(), any_angle()), "unit": st.sampled_from(["rad", "deg"]),
                                  # components that are exactly zero (a given value, not a missing argument)
                                  "zeros": st.sampled_from([None, None, None, "y", "theta", "y,theta", "x", "x,y"])})


def rpy_ref(r, p, y, order):
    o = CANON.get(order, order)
    if o == "zyx":
        return refs.rotz(y) @ refs.roty(p) @ refs.rotx(r)
    if o == "xyz":
        return refs.rotx(y) @ refs.roty(p) @ refs.rotz(r)
    return refs.roty(y) @ refs.rotx(p) @ refs.rotz(r)


def check_case(case):
    if case.get("kind") in ("hist", "aug", "variant", "own"):
        return probes.run(case, PROPERTY_ID)
    return {"rpy": _rpy, "eul": _eul, "angvec": _angvec, "xyt": _xyt}[case["kind"]](case)


def _inp(R, case):
    return refs.rt(R, arr(case["t"])) if case["se"] else R.copy()


def _angles_ok(c, site, a, n, unit):
    a = np.asarray(a, dtype=float)
    if not c.true(site + "/shape", a.shape == (n,), "%s returned shape %s" % (site, a.shape)):
        return None
    if not c.true(site + "/finite", bool(np.all(np.isfinite(a))), "%s returned %s" % (site, a)):
        return None
    k = D if unit == "deg" else 1.0
    c.true(site + "/range", bool(np.all(np.abs(a) <= PI * k * (1 + 1e-15))), "%s angle outside [-pi, pi]: %s" % (site, a))
    return a / k


def _rpy(case):
    b = L.base
    r, p, y, order, unit = case["r"], case["p"], case["y"], fresh_str(case["order"]), fresh_str(case["unit"])
    k = D if unit == "deg" else 1.0
    R = rpy_ref(r, p, y, order)
    sing = abs(abs(math.remainder(p, PI)) - PI / 2)
    c = Checker("rpy", order=order, unit=unit, dist_singular=sing)
    # constructors follow the documented axis order
    ang_in = [r * k, p * k, y * k]
    ok, Rc = c.lib("rpy2r", b.rpy2r, ang_in, order=order, unit=unit)
    if ok:
        c.eq("rpy2r/value", Rc, R, 1e-9)
    ok, Rc = c.lib("rpy2r/scalars", b.rpy2r, ang_in[0], ang_in[1], ang_in[2], order=order, unit=unit)
    if ok:
        c.eq("rpy2r/scalars/value", Rc, R, 1e-9)
    ok, Tc = c.lib("rpy2tr", b.rpy2tr, ang_in, order=order, unit=unit)
    if ok:
        c.eq("rpy2tr/value", Tc, refs.rt(R, np.zeros(3)), 1e-9)
    for cname in ("SO3", "SE3"):
        ok, X = c.lib(cname + ".RPY", getattr(L, cname).RPY, ang_in, order=order, unit=unit)
        if ok:
            c.eq(cname + ".RPY/value", X.A, R if cname == "SO3" else refs.rt(R, np.zeros(3)), 1e-9)
    # extraction is a right inverse
    Rin = refs.polish(R)
    M = _inp(Rin, case)
    ok, a = c.lib("tr2rpy", b.tr2rpy, M, unit=unit, order=order)
    if ok:
        a = _angles_ok(c, "tr2rpy", a, 3, unit)
        if a is not None:
            c.true("tr2rpy/pitch_range", abs(a[1]) <= PI / 2 * (1 + 1e-15), "pitch %.17g outside [-pi/2, pi/2]" % a[1])
            c.eq("tr2rpy/rebuild", rpy_ref(a[0], a[1], a[2], order), Rin, 1e-6)
            ok2, Rl = c.lib("rpy2r(tr2rpy)", b.rpy2r, list(a), order=order)
            if ok2:
                c.eq("rpy2r(tr2rpy)/rebuild", Rl, Rin, 1e-6)
    ok1, a_rad = c.lib("tr2rpy/rad", b.tr2rpy, M, order=order)
    ok2, a_deg = c.lib("tr2rpy/deg", b.tr2rpy, M, fresh_str("deg"), order)       # options in their documented positional order
    if ok1 and ok2:
        c.eq("tr2rpy/deg=rad*180/pi", a_deg, np.asarray(a_rad, dtype=float) * D, 1e-9, 180.0)
    # class accessors
    objs = [("SE3" if case["se"] else "SO3", lambda: getattr(L, "SE3" if case["se"] else "SO3")(M.copy(), check=False)),
            ("UnitQuaternion", lambda: L.UnitQuaternion(Rin.copy()))]
    for cname, mk in objs:
        ok, X = c.lib(cname + "/ctor", mk)
        if not ok:
            continue
        ok, a = c.lib(cname + ".rpy", X.rpy, unit=unit, order=order)
        if ok:
            a = _angles_ok(c, cname + ".rpy", a, 3, unit)
            if a is not None:
                c.true(cname + ".rpy/pitch_range", abs(a[1]) <= PI / 2 * (1 + 1e-15), "pitch %.17g outside [-pi/2, pi/2]" % a[1])
                c.eq(cname + ".rpy/rebuild", rpy_ref(a[0], a[1], a[2], order), Rin, 1e-6)
    return c.out


def _eul(case):
    b = L.base
    phi, th, psi, unit, flip = case["phi"], case["theta"], case["psi"], fresh_str(case["unit"]), case["flip"]
    k = D if unit == "deg" else 1.0
    R = refs.rotz(phi) @ refs.roty(th) @ refs.rotz(psi)
    sing = abs(math.sin(th))
    c = Checker("eul", unit=unit, flip=flip, dist_singular=sing)
    ang_in = [phi * k, th * k, psi * k]
    ok, Rc = c.lib("eul2r", b.eul2r, ang_in, unit=unit)
    if ok:
        c.eq("eul2r/value", Rc, R, 1e-9)
    ok, Rc = c.lib("eul2r/scalars", b.eul2r, ang_in[0], ang_in[1], ang_in[2], unit=unit)
    if ok:
        c.eq("eul2r/scalars/value", Rc, R, 1e-9)
    ok, Tc = c.lib("eul2tr", b.eul2tr, ang_in, unit=unit)
    if ok:
        c.eq("eul2tr/value", Tc, refs.rt(R, np.zeros(3)), 1e-9)
    for cname in ("SO3", "SE3", "UnitQuaternion"):
        ok, X = c.lib(cname + ".Eul", getattr(L, cname).Eul, ang_in, unit=unit)
        if ok:
            if cname == "UnitQuaternion":
                c.eq(cname + ".Eul/value", refs.q2r(np.asarray(X.vec, dtype=float)), R, 1e-6)
            else:
                c.eq(cname + ".Eul/value", X.A, R if cname == "SO3" else refs.rt(R, np.zeros(3)), 1e-9)
    Rin = refs.polish(R)
    M = _inp(Rin, case)

    def rebuild(a):
        return refs.rotz(a[0]) @ refs.roty(a[1]) @ refs.rotz(a[2])
    ok, a = c.lib("tr2eul", b.tr2eul, M, unit=unit, flip=flip)
    if ok:
        a = _angles_ok(c, "tr2eul", a, 3, unit)
        if a is not None:
            c.eq("tr2eul/rebuild", rebuild(a), Rin, 1e-6)
            ok2, Rl = c.lib("eul2r(tr2eul)", b.eul2r, list(a))
            if ok2:
                c.eq("eul2r(tr2eul)/rebuild", Rl, Rin, 1e-6)
    ok1, a_rad = c.lib("tr2eul/rad", b.tr2eul, M, flip=flip)
    ok2, a_deg = c.lib("tr2eul/deg", b.tr2eul, M, fresh_str("deg"), flip)          # options in their documented positional order
    if ok1 and ok2:
        c.eq("tr2eul/deg=rad*180/pi", a_deg, np.asarray(a_rad, dtype=float) * D, 1e-9, 180.0)
    cname = "SE3" if case["se"] else "SO3"
    ok, X = c.lib(cname + "/ctor", getattr(L, cname), M.copy(), check=False)
    if ok:
        ok, a = c.lib(cname + ".eul", X.eul, unit=unit, flip=flip)
        if ok:
            a = _angles_ok(c, cname + ".eul", a, 3, unit)
            if a is not None:
                c.eq(cname + ".eul/rebuild", rebuild(a), Rin, 1e-6)
    ok, Q = c.lib("UnitQuaternion/ctor", L.UnitQuaternion, Rin.copy())
    if ok:
        ok, a = c.lib("UnitQuaternion.eul", Q.eul, unit=unit)
        if ok:
            a = _angles_ok(c, "UnitQuaternion.eul", a, 3, unit)
            if a is not None:
                c.eq("UnitQuaternion.eul/rebuild", rebuild(a), Rin, 1e-6)
    return c.out


def _angvec(case):
    b = L.base
    axis, th, unit = arr(case["axis"]), case["theta"], fresh_str(case["unit"])
    k = D if unit == "deg" else 1.0
    c = Checker("angvec", unit=unit, theta=th, pi_minus_theta=PI - th, alen=float(np.linalg.norm(axis)))
    # constructor: rotation by any angle about the normalised axis
    ct = case["ctor_theta"]
    Rc_ref = refs.rodrigues(axis, ct)
    ok, Rc = c.lib("angvec2r", b.angvec2r, ct * k, list(case["axis"]), unit=unit)
    if ok:
        c.eq("angvec2r/value", Rc, Rc_ref, 1e-9)
    ok, Tc = c.lib("angvec2tr", b.angvec2tr, ct * k, list(case["axis"]), unit=unit)
    if ok:
        c.eq("angvec2tr/value", Tc, refs.rt(Rc_ref, np.zeros(3)), 1e-9)
    for cname in ("SO3", "SE3", "UnitQuaternion"):
        ok, X = c.lib(cname + ".AngVec", getattr(L, cname).AngVec, ct * k, list(case["axis"]), unit=unit)
        if ok:
            if cname == "UnitQuaternion":
                q = np.asarray(X.vec, dtype=float)
                c.eq(cname + ".AngVec/norm", np.linalg.norm(q), 1.0, 1e-9)
                c.eq(cname + ".AngVec/value", refs.q2r(q), Rc_ref, 1e-6)
            else:
                c.eq(cname + ".AngVec/value", X.A, Rc_ref if cname == "SO3" else refs.rt(Rc_ref, np.zeros(3)), 1e-9)
    # extraction
    R = refs.rot_of({"axis": case["axis"], "angle": th, "via": "rod"})
    M = _inp(R, case)

    def judge(site, res):
        nonlocal R
        if not c.true(site + "/tuple", isinstance(res, tuple) and len(res) == 2, "%s returned %r" % (site, res)):
            return
        t, v = res
        try:
            t = float(t)
            v = np.asarray(v, dtype=float)
        except Exception:  # noqa
            c.fail(site + "/numeric", "%s returned %r" % (site, res))
            return
        if not c.true(site + "/finite", math.isfinite(t) and v.shape == (3,) and bool(np.all(np.isfinite(v))), "%s returned theta=%r v=%r" % (site, t, v)):
            return
        t = t / k
        c.true(site + "/theta_range", 0 <= t <= PI * (1 + 1e-15), "rotation angle %.17g outside [0, pi]" % t)
        n = float(np.linalg.norm(v))
        c.true(site + "/unit_axis", abs(n - 1) <= 1e-9 or (n == 0 and abs(t) <= 1e-9), "axis norm %.17g (theta %.3g)" % (n, t))
        Rb = refs.rodrigues(v, t) if n > 0 else np.eye(3)
        c.eq(site + "/rebuild", Rb, R, 1e-6)

    ok, res = c.lib("tr2angvec", b.tr2angvec, M, unit=unit)
    if ok:
        judge("tr2angvec", res)
    ok, res = c.lib("tr2angvec/positional", b.tr2angvec, M, unit)               # unit is the documented second positional parameter
    if ok:
        judge("tr2angvec/positional", res)
    cname = "SE3" if case["se"] else "SO3"
    ok, X = c.lib(cname + "/ctor", getattr(L, cname), M.copy(), check=False)
    if ok:
        ok, res = c.lib(cname + ".angvec", X.angvec, unit=unit)
        if ok:
            judge(cname + ".angvec", res)
    ok, Q = c.lib("UnitQuaternion/ctor", L.UnitQuaternion, R.copy())
    if ok:
        ok, res = c.lib("UnitQuaternion.angvec", Q.angvec, unit=unit)
        if ok:
            judge("UnitQuaternion.angvec", res)
    # the same rotation given by the other quaternion of the double cover (negative scalar part)
    qn = -refs.q_of({"axis": case["axis"], "angle": th})
    ok, Q = c.lib("UnitQuaternion(-q)/ctor", L.UnitQuaternion, [float(x) for x in qn])
    if ok:
        ok, res = c.lib("UnitQuaternion(-q).angvec", Q.angvec, unit=unit)
        if ok:
            judge("UnitQuaternion(-q).angvec", res)
    # a quaternion built by the axis-angle constructor with any angle (many turns, negative): extraction still
    # returns an angle in [0, pi] about a unit axis that rebuilds the same rotation
    ok, Q = c.lib("UnitQuaternion.AngVec/ctor", L.UnitQuaternion.AngVec, ct, list(case["axis"]))
    if ok:
        ok, res = c.lib("UnitQuaternion.AngVec.angvec", Q.angvec, unit=unit)
        if ok:
            R_keep = R
            R = Rc_ref
            judge("UnitQuaternion.AngVec.angvec", res)
            R = R_keep
    return c.out


def _xyt(case):
    b = L.base
    x, y, th, unit = case["x"], case["y"], case["theta"], fresh_str(case["unit"])
    z = (case.get("zeros") or "").split(",")
    x, y, th = (0.0 if "x" in z else x), (0.0 if "y" in z else y), (0.0 if "theta" in z else th)
    k = D if unit == "deg" else 1.0
    sc = max(1.0, abs(x), abs(y))
    T = refs.rt(refs.rot2(th), np.array([x, y]))
    c = Checker("xyt", unit=unit)
    ok, Tc = c.lib("xyt2tr", b.xyt2tr, [x, y, th * k], unit=unit)
    if ok:
        c.eq("xyt2tr/value", Tc, T, 1e-9, sc)
    ok, X = c.lib("SE2(x,y,theta)", L.SE2, x, y, th * k, unit=unit)
    if ok:
        c.eq("SE2(x,y,theta)/value", X.A, T, 1e-9, sc)
    ok, X = c.lib("SE2([x,y,theta])", L.SE2, [x, y, th * k], unit=unit)
    if ok:
        c.eq("SE2([x,y,theta])/value", X.A, T, 1e-9, sc)
    ok, a = c.lib("tr2xyt", b.tr2xyt, T.copy(), unit=unit)
    if ok:
        a = np.asarray(a, dtype=float)
        if c.true("tr2xyt/shape", a.shape == (3,) and bool(np.all(np.isfinite(a))), "tr2xyt returned %r" % (a,)):
            c.true("tr2xyt/range", abs(a[2]) <= PI * k * (1 + 1e-15), "theta %.17g out of range" % a[2])
            c.eq("tr2xyt/rebuild", refs.rt(refs.rot2(a[2] / k), a[:2]), T, 1e-6, sc)
    ok1, a_rad = c.lib("tr2xyt/rad", b.tr2xyt, T.copy())
    ok2, a_deg = c.lib("tr2xyt/deg", b.tr2xyt, T.copy(), fresh_str("deg"))
    if ok1 and ok2:
        c.eq("tr2xyt/deg=rad*180/pi", np.asarray(a_deg, dtype=float)[2], np.asarray(a_rad, dtype=float)[2] * D, 1e-9, 180.0)
    X = L.SE2(T.copy(), check=False)
    ok, a = c.lib("SE2.xyt", X.xyt)
    if ok:
        a = np.asarray(a, dtype=float)
        if c.true("SE2.xyt/shape", a.shape == (3,), "SE2.xyt returned %r" % (a,)):
            c.eq("SE2.xyt/rebuild", refs.rt(refs.rot2(a[2]), a[:2]), T, 1e-6, sc)
    for cname, obj in (("SE2", X), ("SO2", L.SO2(refs.rot2(th), check=False))):
        ok1, t_rad = c.lib(cname + ".theta", obj.theta)
        ok2, t_deg = c.lib(cname + ".theta/deg", obj.theta, fresh_str("deg"))
        if ok1:
            c.true(cname + ".theta/range", abs(t_rad) <= PI * (1 + 1e-15), "theta %.17g" % t_rad)
            c.eq(cname + ".theta/rebuild", refs.rot2(float(t_rad)), refs.rot2(th), 1e-6)
        if ok1 and ok2:
            c.eq(cname + ".theta/deg=rad*180/pi", t_deg, t_rad * D, 1e-9, 180.0)
    ok, S = c.lib("SO2(theta)", L.SO2, th * k, unit=unit)
    if ok:
        c.eq("SO2(theta)/value", S.A, refs.rot2(th), 1e-9)
    # objects holding several values: each extracted angle rebuilds its element, degrees = radians * 180/pi
    ths = [th, -th / 2.0, th / 3.0 + 0.1]
    for cname, obj in (("SO2[M]", L.SO2([refs.rot2(a) for a in ths], check=False)),
                       ("SE2[M]", L.SE2([refs.rt(refs.rot2(a), [x, y]) for a in ths], check=False))):
        ok1, t_rad = c.lib(cname + ".theta", obj.theta)
        ok2, t_deg = c.lib(cname + ".theta/deg", obj.theta, fresh_str("deg"))
        if ok1 and c.true(cname + ".theta/len", len(t_rad) == 3, "theta() of three values returned %r" % (t_rad,)):
            for a, got in zip(ths, t_rad):
                c.eq(cname + ".theta/rebuild", refs.rot2(float(got)), refs.rot2(a), 1e-6)
            if ok2 and len(t_deg) == 3:
                c.eq(cname + ".theta/deg=rad*180/pi", np.asarray(t_deg, dtype=float), np.asarray(t_rad, dtype=float) * D, 1e-9, 180.0)
    ok, xs = c.lib("SE2[M].xyt", L.SE2([refs.rt(refs.rot2(a), [x, y]) for a in ths], check=False).xyt)
    if ok and c.true("SE2[M].xyt/len", len(xs) == 3, "xyt() of three values returned %r" % (xs,)):
        for a, got in zip(ths, xs):
            got = np.asarray(got, dtype=float)
            c.eq("SE2[M].xyt/rebuild", refs.rt(refs.rot2(got[2]), got[:2]), refs.rt(refs.rot2(a), [x, y]), 1e-6, sc)
    return c.out


def classify(case):
    if case.get("kind") in ("hist", "aug", "variant", "own"):
        return probes.classify(case)
    k = case["kind"]
    lab = {"kind:" + k: True, "deg": case["unit"] == "deg"}
    if k == "rpy":
        sing = abs(abs(math.remainder(case["p"], PI)) - PI / 2)
        lab["near_singular"] = sing < 1e-3
        lab["exact_singular"] = abs(case["p"]) == PI / 2
        lab["nontrivial"] = sing < 1e-3 or case["order"] != "zyx" or case["unit"] == "deg"
        lab["order:" + CANON.get(case["order"], case["order"])] = True
    elif k == "eul":
        sing = abs(math.sin(case["theta"]))
        lab["near_singular"] = sing < 1e-3
        lab["nontrivial"] = sing < 1e-3 or case["flip"] or case["unit"] == "deg"
        lab["flip"] = case["flip"]
    elif k == "angvec":
        th = case["theta"]
        lab["near_singular"] = th < 1e-3 or PI - th < 1e-3
        lab["theta<1e-6"] = th < 1e-6
        lab["pi-theta<1e-6"] = PI - th < 1e-6
        lab["nontrivial"] = lab["near_singular"] or case["unit"] == "deg"
    else:
        lab["nontrivial"] = case["unit"] == "deg" or abs(abs(case["theta"]) - PI) < 1e-3
    return lab


def subchecks(tier):
    return [
        Sub("rpy", strategy=s_rpy(), n=(500, 15000), shards=(5, 16)),
        Sub("eul", strategy=s_eul(), n=(500, 15000), shards=(4, 16)),
        Sub("angvec", strategy=s_angvec(), n=(500, 15000), shards=(4, 16)),
        Sub("xyt", strategy=s_xyt(), n=(500, 10000), shards=(3, 8)),
        *probes.subs(PROPERTY_ID),
    ]
