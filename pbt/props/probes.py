"""
History probes shared by several properties.

A library object is a mutable list of values.  Every property about what a method or operator *returns* is a
statement about the values the object holds, so it must keep holding after the object was used and then changed
in place by a documented list operation: a result may not depend on what the object held earlier (stale cached
results), and a result that was already returned may not change when a later call is made (results living in a
buffer the object reuses).

probe(c, X, Y, P, calls, mutation, judged):
    1. every call of the catalogue is evaluated on X (priming whatever the implementation keeps) and the outcomes
       are deep-copied;
    2. X is changed in place with `mutation` using the single-valued Y (same class, different value), keeping
       its length;
    3. F = a new object of the same class built from copies of the values X now holds;
    4. every judged call must give the same outcome (value to 1e-12, or the same exception class) on X and on F;
    5. the outcomes returned in step 1 must still equal their copies.
"""
import contextlib
import io

import numpy as np
from hypothesis import strategies as st

from .. import gens, refs
from .common import L

MUTATIONS = ["set0", "setlast", "reverse", "insert_pop", "append_pop0"]


# --------------------------------------------------------------------------- values

def _rot3(u):
    a = np.array(u[:3], dtype=float)
    n = float(np.linalg.norm(a))
    if n < 1e-6:
        return np.eye(3)
    return refs.rodrigues(list(a / n), 2.0 * n)


def value(cn, u):
    """one element value of class cn from six numbers in [-1,1]"""
    u = [float(x) for x in u]
    if cn == "SO3":
        return _rot3(u)
    if cn == "SE3":
        return refs.rt(_rot3(u), np.array(u[3:]) * 3.0)
    if cn == "SO2":
        return refs.rot2(3.0 * u[0])
    if cn == "SE2":
        return refs.rt(refs.rot2(3.0 * u[0]), np.array(u[1:3]) * 3.0)
    if cn == "Quaternion":
        return np.array([u[0] * 2, u[1] * 2, u[2] * 2, u[3] * 2 + 0.25])
    if cn == "UnitQuaternion":
        return refs.r2q_ref(_rot3(u)) if hasattr(refs, "r2q_ref") else _q_of(_rot3(u))
    if cn == "Twist3":
        return np.array(u) * 1.5
    if cn == "Twist2":
        return np.array(u[:3]) * 1.5
    if cn == "Plucker":
        p, w = np.array(u[:3]) * 3.0, np.array(u[3:]) + np.array([0.0, 0.0, 1.5])
        return np.r_[np.cross(w, p), w]          # library convention: moment v = w x p, stored [v, w]
    if cn in ("SpatialVelocity", "SpatialAcceleration", "SpatialForce", "SpatialMomentum"):
        return np.array(u) * 2.0
    raise KeyError(cn)


def _q_of(R):
    """unit quaternion (s >= 0) of a rotation matrix, reference implementation (Shepperd)"""
    t = np.trace(R)
    cands = [t, R[0, 0], R[1, 1], R[2, 2]]
    k = int(np.argmax(cands))
    if k == 0:
        s = np.sqrt(1.0 + t) / 2.0
        q = np.array([s, (R[2, 1] - R[1, 2]) / (4 * s), (R[0, 2] - R[2, 0]) / (4 * s), (R[1, 0] - R[0, 1]) / (4 * s)])
    else:
        i = k - 1
        j, m = (i + 1) % 3, (i + 2) % 3
        r = np.sqrt(1.0 + R[i, i] - R[j, j] - R[m, m])
        q = np.zeros(4)
        q[1 + i] = r / 2.0
        q[0] = (R[m, j] - R[j, m]) / (2 * r)
        q[1 + j] = (R[j, i] + R[i, j]) / (2 * r)
        q[1 + m] = (R[m, i] + R[i, m]) / (2 * r)
    q = q / np.linalg.norm(q)
    return q if q[0] >= 0 else -q


def make(cn, us):
    cls = getattr(L, cn)
    vals = [value(cn, u) for u in us]
    try:
        return cls([v.copy() for v in vals], check=False)
    except TypeError:
        return cls([v.copy() for v in vals])


def fresh(X):
    cls = type(X)
    vals = [np.array(v, copy=True) for v in X.data]
    try:
        return cls(vals, check=False)
    except TypeError:
        return cls(vals)


# --------------------------------------------------------------------------- outcomes

def snap(r):
    """deep copy of a result as plain nested data"""
    if r is None or isinstance(r, (bool, str, int, float, complex)):
        return r
    if isinstance(r, np.ndarray):
        return np.array(r, copy=True)
    if isinstance(r, np.generic):
        return r.item()
    if isinstance(getattr(r, "data", None), list) and not isinstance(r, np.ndarray):
        return ("obj", type(r).__name__, [snap(x) for x in r.data])
    if hasattr(r, "real") and hasattr(r, "dual") and type(r).__name__.endswith("DualQuaternion"):
        return ("dq", type(r).__name__, snap(r.real), snap(r.dual))
    if isinstance(r, (list, tuple)):
        return (type(r).__name__, [snap(x) for x in r])
    if isinstance(r, dict):
        return ("dict", {k: snap(v) for k, v in r.items()})
    if hasattr(r, "n") and hasattr(r, "d") and type(r).__name__ == "Plane":
        return ("plane", snap(r.n), snap(r.d))
    return ("repr", repr(r))


def same(a, b, tol=1e-12):
    if isinstance(a, np.ndarray) or isinstance(b, np.ndarray):
        try:
            A, B = np.asarray(a), np.asarray(b)
            if A.shape != B.shape:
                return False
            if A.dtype.kind in "OUS" or B.dtype.kind in "OUS":
                return bool(np.all(A == B))
            A, B = A.astype(float), B.astype(float)
            sc = max(1.0, float(np.max(np.abs(B))) if B.size else 1.0)
            return bool(np.all(np.isnan(A) == np.isnan(B))) and bool(np.all(np.abs(np.nan_to_num(A - B)) <= tol * sc))
        except Exception:  # noqa
            return False
    if isinstance(a, tuple) and isinstance(b, tuple):
        if len(a) != len(b):
            return False
        return all(same(x, y, tol) for x, y in zip(a, b))
    if isinstance(a, list) and isinstance(b, list):
        return len(a) == len(b) and all(same(x, y, tol) for x, y in zip(a, b))
    if isinstance(a, dict) and isinstance(b, dict):
        return set(a) == set(b) and all(same(a[k], b[k], tol) for k in a)
    if isinstance(a, (int, float)) and isinstance(b, (int, float)) and not isinstance(a, bool) and not isinstance(b, bool):
        if a != a or b != b:
            return (a != a) == (b != b)
        return abs(a - b) <= tol * max(1.0, abs(b))
    return type(a) is type(b) and a == b


def outcome(f, *a):
    try:
        with contextlib.redirect_stdout(io.StringIO()):
            r = f(*a)
    except Exception as e:  # noqa
        return ("raise", type(e).__name__), None
    return ("ok", snap(r)), r


# --------------------------------------------------------------------------- catalogue

def catalogue(cn):
    """[(name, tags, f(X, P, aux))]: P single-valued partner of the same class; aux: dict of fixed extra arguments"""
    b = L.base
    C = []

    def add(name, tags, f):
        C.append((name, set(tags.split()), f))
    if cn in ("SO2", "SE2", "SO3", "SE3"):
        d = 2 if cn.endswith("2") else 3
        add("inv", "C01 C02 C06 C09", lambda X, P, a: X.inv())
        add("X*P", "C01 C02 C09", lambda X, P, a: X * P)
        add("P*X", "C01 C02 C09", lambda X, P, a: P * X)
        add("X/P", "C01 C02 C09", lambda X, P, a: X / P)
        add("P/X", "C01 C02 C09", lambda X, P, a: P / X)
        add("X**3", "C01 C02 C09", lambda X, P, a: X ** 3)
        add("X**-2", "C01 C02 C09", lambda X, P, a: X ** -2)
        add("prod", "C01 C02", lambda X, P, a: X.prod())
        add("X*p", "C06 C09", lambda X, P, a: X * a["p%d" % d])
        add("X*Pm", "C06", lambda X, P, a: X * a["Pm%d" % d])
        add("X*Pm'", "C06", lambda X, P, a: X * a["Pm%db" % d])          # a second array of the same shape
        add("inv*p", "C06", lambda X, P, a: X.inv() * a["p%d" % d])
        add("norm", "C14 C01", lambda X, P, a: X.norm())
        add("log", "C03 C09", lambda X, P, a: X.log())
        add("log/twist", "C03", lambda X, P, a: X.log(twist=True))
        add("det", "C09", lambda X, P, a: X.det())
        add("R", "C09", lambda X, P, a: X.R)
        add("A", "C10 C09", lambda X, P, a: X.A)
        add("X==P", "C08 C09", lambda X, P, a: X == P)
        add("X!=P", "C08 C09", lambda X, P, a: X != P)
        add("X+P", "C08 C09", lambda X, P, a: X + P)
        add("X-P", "C08 C09", lambda X, P, a: X - P)
        add("X*2.5", "C08 C09", lambda X, P, a: X * 2.5)
        add("interp(s)", "C11 C01 C09", lambda X, P, a: X.interp(0.3))
        add("interp(P,s)", "C11", lambda X, P, a: X.interp(P, 0.3) if len(X) == 1 else X.interp(0.6))
        if d == 3:
            add("rpy", "C05 C09 C15", lambda X, P, a: X.rpy())
            add("rpy/deg/xyz", "C05 C15", lambda X, P, a: X.rpy(unit="deg", order="xyz"))
            add("eul", "C05 C09 C15", lambda X, P, a: X.eul())
            add("angvec", "C05", lambda X, P, a: X.angvec())
            add("UnitQuaternion(X)", "C04", lambda X, P, a: L.UnitQuaternion(X))
        else:
            add("theta", "C05 C09 C15", lambda X, P, a: X.theta())
            add("theta/deg", "C05 C15", lambda X, P, a: X.theta("deg"))
        if cn in ("SE3", "SE2"):
            add("t", "C09 C06", lambda X, P, a: X.t)
        if cn == "SE2":
            add("xyt", "C05 C09", lambda X, P, a: X.xyt())
            add("Twist2", "C03 C04", lambda X, P, a: X.Twist2())
            add("SE3()", "C04", lambda X, P, a: X.SE3())
        if cn == "SO2":
            add("SE2()", "C04", lambda X, P, a: X.SE2())
        if cn == "SE3":
            add("Ad", "C13 C20", lambda X, P, a: X.Ad())
            add("jacob", "C13", lambda X, P, a: X.jacob())
            add("delta(P)", "C13", lambda X, P, a: X.delta(P))
            add("Twist3", "C03 C04", lambda X, P, a: X.Twist3())
            add("X*vel", "C20", lambda X, P, a: X * L.SpatialVelocity(a["v6"].copy()))
            add("X*force", "C20", lambda X, P, a: X * L.SpatialForce(a["v6"].copy()))
            add("X*line", "C19", lambda X, P, a: X * L.Plucker(a["line"].copy()))
            add("UDQ(X)", "C04 C06 C12", lambda X, P, a: L.UnitDualQuaternion(X).vec)
    elif cn in ("Quaternion", "UnitQuaternion"):
        add("norm", "C12 C09 C14", lambda X, P, a: X.norm())
        add("conj", "C12 C09", lambda X, P, a: X.conj())
        add("unit", "C12 C14 C09", lambda X, P, a: X.unit())
        add("vec", "C12", lambda X, P, a: X.vec)
        add("s", "C12 C09", lambda X, P, a: X.s)
        add("v", "C12 C09", lambda X, P, a: X.v)
        add("matrix", "C12", lambda X, P, a: X.matrix)
        add("inner(P)", "C12", lambda X, P, a: X.inner(P))
        add("X*P", "C12 C02 C09 C01", lambda X, P, a: X * P)
        add("P*X", "C12 C02 C09", lambda X, P, a: P * X)
        add("X**3", "C12 C02 C09 C01", lambda X, P, a: X ** 3)
        add("X**-2", "C12 C02 C01", lambda X, P, a: X ** -2)
        add("X+P", "C12 C08 C09", lambda X, P, a: X + P)
        add("X-P", "C12 C08 C09", lambda X, P, a: X - P)
        add("X*2.5", "C12 C08 C09", lambda X, P, a: X * 2.5)
        add("X==P", "C08 C09 C04", lambda X, P, a: X == P)
        add("log", "C12", lambda X, P, a: X.log())
        add("exp", "C12", lambda X, P, a: X.exp())
        if cn == "UnitQuaternion":
            add("inv", "C02 C01 C09", lambda X, P, a: X.inv())
            add("X/P", "C02 C01 C09", lambda X, P, a: X / P)
            add("R", "C04 C09", lambda X, P, a: X.R)
            add("SO3()", "C04", lambda X, P, a: X.SO3())
            add("X*p", "C06 C09", lambda X, P, a: X * a["p3"])
            add("interp(s)", "C11 C01", lambda X, P, a: X.interp(0.3))
            add("interp(P,s)", "C11", lambda X, P, a: X.interp(0.3, P))
            add("rpy", "C05 C09", lambda X, P, a: X.rpy())
            add("eul", "C05 C09", lambda X, P, a: X.eul())
            add("angvec", "C05", lambda X, P, a: X.angvec())
            add("vec3", "C12", lambda X, P, a: X.vec3)
            add("dot", "C12", lambda X, P, a: X.dot(a["p3"]))
            add("dotb", "C12", lambda X, P, a: X.dotb(a["p3"]))
    elif cn in ("Twist3", "Twist2"):
        add("S", "C03 C18", lambda X, P, a: X.S)
        add("v", "C18 C09", lambda X, P, a: X.v)
        add("w", "C18 C09", lambda X, P, a: X.w)
        add("exp(th)", "C03 C18 C02", lambda X, P, a: X.exp(0.7))
        add("exp(th,deg)", "C03 C18 C15", lambda X, P, a: X.exp(40.0, "deg"))
        add("exp()", "C03 C18 C02", lambda X, P, a: X.exp())
        add("inv", "C02 C18", lambda X, P, a: X.inv())
        add("X*P", "C02 C18", lambda X, P, a: X * P)
        add("P*X", "C02", lambda X, P, a: P * X)
        add("X*2.0", "C18", lambda X, P, a: X * 2.0)
        add("2.0*X", "C18", lambda X, P, a: 2.0 * X)
        add("unit", "C14 C18", lambda X, P, a: X.unit())
        add("isprismatic", "C18 C09", lambda X, P, a: X.isprismatic)
        add("isrevolute", "C18 C09", lambda X, P, a: X.isrevolute)
        add("isunit", "C18", lambda X, P, a: X.isunit)
        add("prod", "C02", lambda X, P, a: X.prod())
        if cn == "Twist3":
            add("SE3()", "C03 C04 C18", lambda X, P, a: X.SE3())
            add("se3()", "C03 C18", lambda X, P, a: X.se3())
            add("Ad", "C13", lambda X, P, a: X.Ad())
            add("ad", "C13", lambda X, P, a: X.ad())
            add("pitch", "C18", lambda X, P, a: X.pitch())
            add("pole", "C18", lambda X, P, a: X.pole())
            add("theta", "C18", lambda X, P, a: X.theta())
            add("line", "C18 C19", lambda X, P, a: X.line())
            add("X*SE3", "C08 C04", lambda X, P, a: X * L.SE3(a["T4"].copy(), check=False))
        else:
            add("SE2()", "C03 C04 C18", lambda X, P, a: X.SE2())
            add("se2()", "C03 C18", lambda X, P, a: X.se2())
            add("X*SE2", "C08 C04", lambda X, P, a: X * L.SE2(a["T3"].copy(), check=False))
    elif cn == "Plucker":
        add("v", "C19", lambda X, P, a: X.v)
        add("w", "C19", lambda X, P, a: X.w)
        add("uw", "C19", lambda X, P, a: X.uw)
        add("pp", "C19", lambda X, P, a: X.pp)
        add("ppd", "C19", lambda X, P, a: X.ppd)
        add("vec", "C19", lambda X, P, a: X.vec)
        add("point(l)", "C19", lambda X, P, a: X.point(0.7))
        add("point(ls)", "C19", lambda X, P, a: X.point([0.2, -1.5, 3.0]))
        add("closest", "C19", lambda X, P, a: tuple(X.closest(a["p3"])))
        add("contains", "C19", lambda X, P, a: X.contains(a["p3"]))
        add("intersect_plane", "C19", lambda X, P, a: tuple(X.intersect_plane([0.3, -0.5, 0.8, 1.5])))
        add("commonperp", "C19", lambda X, P, a: X.commonperp(P))
        add("distance", "C19", lambda X, P, a: X.distance(P))
        add("X==P", "C19", lambda X, P, a: X == P)
        add("X|P", "C19", lambda X, P, a: X | P)
        add("isparallel", "C19", lambda X, P, a: X.isparallel(P))
        add("SE3*X", "C19", lambda X, P, a: L.SE3(a["T4"].copy(), check=False) * X)
    elif cn in ("SpatialVelocity", "SpatialAcceleration", "SpatialForce", "SpatialMomentum"):
        add("-X", "C20", lambda X, P, a: -X)
        add("X+P", "C20", lambda X, P, a: X + P)
        add("X-P", "C20", lambda X, P, a: X - P)
        add("A", "C20", lambda X, P, a: X.A)
        add("SE3*X", "C20", lambda X, P, a: L.SE3(a["T4"].copy(), check=False) * X)
        if cn == "SpatialVelocity":
            add("cross(vel)", "C20", lambda X, P, a: X.cross(P))
            add("cross(force)", "C20", lambda X, P, a: X.cross(L.SpatialForce(a["v6"].copy())))
            add("I*v", "C20", lambda X, P, a: L.SpatialInertia(2.0, [0.1, 0.2, 0.3], np.diag([1.0, 2.0, 3.0])) * X)
        if cn == "SpatialAcceleration":
            add("I*a", "C20", lambda X, P, a: L.SpatialInertia(2.0, [0.1, 0.2, 0.3], np.diag([1.0, 2.0, 3.0])) * X)
    return C


CLASSES_BY_PROP = {
    "C01": ["SO3", "SE3", "SO2", "SE2", "UnitQuaternion"],
    "C02": ["SO3", "SE3", "SO2", "SE2", "UnitQuaternion", "Twist3", "Twist2"],
    "C03": ["SO3", "SE3", "SO2", "SE2", "Twist3", "Twist2"],
    "C04": ["SO3", "SE3", "SO2", "SE2", "UnitQuaternion", "Twist3", "Twist2"],
    "C05": ["SO3", "SE3", "SO2", "SE2", "UnitQuaternion"],
    "C06": ["SO3", "SE3", "SO2", "SE2", "UnitQuaternion"],
    "C08": ["SO3", "SE3", "SO2", "SE2", "Quaternion", "UnitQuaternion", "Twist3", "Twist2"],
    "C09": ["SO3", "SE3", "SO2", "SE2", "Quaternion", "UnitQuaternion", "Twist3", "Twist2"],
    "C11": ["SO3", "SE3", "SO2", "SE2", "UnitQuaternion"],
    "C12": ["Quaternion", "UnitQuaternion", "SE3"],
    "C13": ["SE3", "Twist3"],
    "C14": ["SO3", "SE3", "SO2", "SE2", "Quaternion", "UnitQuaternion", "Twist3", "Twist2"],
    "C15": ["SO3", "SE3", "SO2", "SE2", "Twist3", "Twist2"],
    "C18": ["Twist3", "Twist2"],
    "C19": ["Plucker", "SE3", "Twist3"],
    "C20": ["SpatialVelocity", "SpatialAcceleration", "SpatialForce", "SpatialMomentum", "SE3"],
}

U6 = st.lists(st.one_of(gens.fl(-1, 1), st.sampled_from([0.0, 0.5, -0.5, 1.0])), min_size=6, max_size=6)


def strategy(pid):
    return st.fixed_dictionaries({
        "kind": st.just("hist"), "cls": st.sampled_from(CLASSES_BY_PROP[pid]),
        "us": st.lists(U6, min_size=1, max_size=4), "y": U6, "p": U6,
        "mutation": st.sampled_from(MUTATIONS), "aux": st.lists(U6, min_size=3, max_size=3)})


def cells(pid):
    """deterministic enumeration: every class x every mutation x lengths 1..3"""
    us = [[0.3, -0.5, 0.8, 0.2, 0.7, -0.4], [-0.6, 0.2, 0.4, -0.9, 0.1, 0.5], [0.1, 0.9, -0.3, 0.6, -0.8, 0.25]]
    for cn in CLASSES_BY_PROP[pid]:
        for mut in MUTATIONS:
            for n in (1, 2, 3):
                yield {"kind": "hist", "cls": cn, "us": us[:n], "y": [0.7, 0.3, -0.2, -0.5, 0.4, 0.9], "p": [-0.2, 0.6, 0.5, 0.3, -0.7, 0.1],
                       "mutation": mut, "aux": [[0.4, -0.3, 0.9, 0.5, 0.2, -0.6], [0.8, 0.1, -0.5, -0.2, 0.6, 0.3], [-0.7, 0.5, 0.2, 0.9, -0.1, 0.4]]}


def _aux(case):
    a0, a1, a2 = [np.array(x, dtype=float) for x in case["aux"]]
    return {"p3": a0[:3] * 2, "p2": a0[:2] * 2, "Pm3": np.stack([a0[:3], a1[:3], a2[:3], a0[3:]], axis=1) * 2, "Pm2": np.stack([a0[:2], a1[:2], a2[:2], a0[3:5]], axis=1) * 2,
            "Pm3b": np.stack([a1[3:], a2[3:], a0[:3], a2[:3]], axis=1) * 2 + 0.5, "Pm2b": np.stack([a1[3:5], a2[3:5], a0[:2], a2[:2]], axis=1) * 2 + 0.5,
            "v6": a1 * 2, "line": value("Plucker", list(a2)), "T4": value("SE3", list(a1)), "T3": value("SE2", list(a1))}


def mutate(X, Y, how):
    n = len(X)
    if how == "set0":
        X[0] = Y
    elif how == "setlast":
        X[n - 1] = Y
    elif how == "reverse":
        if n >= 2:
            X.reverse()
        else:
            X[0] = Y
    elif how == "insert_pop":
        X.insert(0, Y)
        X.pop(1)
    else:
        X.append(Y)
        X.pop(0)


def check(c, case, pid):
    """c: Checker; returns nothing (violations are recorded on c)"""
    cn = case["cls"]
    cat = catalogue(cn)
    aux = _aux(case)
    X = make(cn, case["us"])
    Y = make(cn, [case["y"]])
    P = make(cn, [case["p"]])
    c.feat(cls=cn, n=len(X), mutation=case["mutation"])
    first = {}
    for name, tags, f in cat:
        o, r = outcome(f, X, P, aux)
        first[name] = (o, r)
    try:
        mutate(X, Y, case["mutation"])
    except Exception as e:  # noqa
        c.fail("mutation", "%s on a %s of length %d raised %s: %s" % (case["mutation"], cn, len(case["us"]), type(e).__name__, e))
        return
    F = fresh(X)
    for name, tags, f in cat:
        if pid not in tags and pid != "C17":
            continue
        oX, _ = outcome(f, X, P, aux)
        oF, _ = outcome(f, F, P, aux)
        if not same(oX, oF):
            c.fail("%s/stale" % name, "%s.%s after %s differs from the same call on a new object holding the same values:\n got  %r\n want %r"
                   % (cn, name, case["mutation"], _short(oX), _short(oF)), call=name)
    for name, tags, f in cat:
        if pid not in tags and pid != "C17":
            continue
        o, r = first[name]
        if name in ("A", "S"):
            continue          # .A / .S of a multi-valued object are the live list of values
        if o[0] == "ok" and not same(("ok", snap(r)), o):
            c.fail("%s/result_changed" % name, "the value returned by %s.%s changed after later calls on the same object" % (cn, name), call=name)
    check_self_operand(c, case, pid)


def self_operand_calls(cn):
    """[(name, tags, g(A, B))]: binary operations; oracle g(X, X) == g(X, copy of X)"""
    C = []

    def add(name, tags, g):
        C.append((name, set(tags.split()), g))
    if cn in ("SO2", "SE2", "SO3", "SE3"):
        add("X*X", "C01 C02 C09 C17", lambda A, B: A * B)
        add("X/X", "C01 C02 C09 C17", lambda A, B: A / B)
        add("X+X", "C08 C09 C17", lambda A, B: A + B)
        add("X-X", "C08 C09 C17", lambda A, B: A - B)
        add("X==X", "C08 C09 C17", lambda A, B: A == B)
        add("X!=X", "C08 C09 C17", lambda A, B: A != B)
        add("interp(X,s)", "C11 C17", lambda A, B: A.interp(B, 0.3) if len(A) == 1 else A.interp(0.3))
        if cn == "SE3":
            add("delta(X)", "C13 C17", lambda A, B: A.delta(B) if len(A) == 1 else None)
    elif cn in ("Quaternion", "UnitQuaternion"):
        add("X*X", "C12 C02 C09 C17 C01", lambda A, B: A * B)
        add("X+X", "C12 C08 C17", lambda A, B: A + B)
        add("X-X", "C12 C08 C17", lambda A, B: A - B)
        add("X==X", "C08 C04 C17", lambda A, B: A == B)
        add("inner(X)", "C12 C17", lambda A, B: A.inner(B))
        if cn == "UnitQuaternion":
            add("X/X", "C02 C01 C17", lambda A, B: A / B)
            add("interp(s,X)", "C11 C17", lambda A, B: A.interp(0.3, B) if len(A) == 1 else None)
    elif cn in ("Twist3", "Twist2"):
        add("X*X", "C02 C18 C17", lambda A, B: A * B)
    elif cn == "Plucker":
        add("X==X", "C19 C17", lambda A, B: A == B)
        add("X|X", "C19 C17", lambda A, B: A | B)
        add("distance(X)", "C19 C17", lambda A, B: A.distance(B))
        add("commonperp(X)", "C19 C17", lambda A, B: A.commonperp(B))
    elif cn in ("SpatialVelocity", "SpatialAcceleration", "SpatialForce", "SpatialMomentum"):
        add("X+X", "C20 C17", lambda A, B: A + B)
        add("X-X", "C20 C17", lambda A, B: A - B)
        if cn == "SpatialVelocity":
            add("cross(X)", "C20 C17", lambda A, B: A.cross(B) if len(A) == 1 else None)
    return C


def check_self_operand(c, case, pid):
    """the same object on both sides of an operator behaves like two objects holding the same values"""
    cn = case["cls"]
    X = make(cn, case["us"])
    F = fresh(X)
    for name, tags, g in self_operand_calls(cn):
        if pid not in tags:
            continue
        oXX, _ = outcome(g, X, X)
        oXF, _ = outcome(g, X, F)
        if not same(oXX, oXF):
            c.fail("%s/self_operand" % name, "%s with the same %s object on both sides gives %s, with an equal copy %s" % (name, cn, _short(oXX), _short(oXF)), call=name)
    if not same(snap(X), snap(F)):
        c.fail("self_operand/changed", "an operation with the same object on both sides changed it")


def _short(o):
    s = repr(o)
    return s if len(s) < 400 else s[:400] + "..."


# --------------------------------------------------------------------------- wiring into a property module

CLASSES_BY_PROP["C17"] = ["SO3", "SE3", "SO2", "SE2", "Quaternion", "UnitQuaternion", "Twist3", "Twist2", "Plucker",
                          "SpatialVelocity", "SpatialAcceleration", "SpatialForce", "SpatialMomentum"]

VARIANT_TEXT = (" Representation probes (sub-checks 'variant_cells', 'variants'): the property's calls must not depend on how the values are "
                "held: integer-typed pose matrices (also as FIRST value of a multi-valued object) versus float64; objects of 70 and 300 values "
                "versus single-valued results; operands carrying the coherent rounding of ((X**8)**8)**8 versus the same operands "
                "re-orthonormalised; a write through .A of a default-constructed object or of one Alloc slot must not change later default "
                "objects / other slots; 3000 consecutive products stay valid and never raise; matrices held column-major, as a transposed view, "
                "as a strided view of a larger array or with negative strides versus row-major copies of the same values.")
OWN_TEXT = (" Result ownership (sub-checks 'ownership_cells', 'ownership'): a returned value belongs to the caller; after every array in it "
            "is overwritten in place, the same call (and a second call of the table) on equal fresh inputs must return what it returned "
            "before (no shared module-level constants, cached arrays or reused buffers); zero angles / identity inputs included.")
AUG_TEXT = (" Augmented operators (sub-checks 'augmented_cells', 'augmented'): X op= Y must have exactly the outcome of X op Y (class, "
            "length, values, or the same exception class) for *=, /=, +=, -= on poses and *=, **= on quaternions, with right operands of "
            "the same class (1..4 values each side), every other class, scalars, vectors.")
RULE_TEXT = (" History probe (sub-checks 'history_cells', 'history'): the calls of this property are evaluated on an object, the object is "
             "changed in place by a documented list operation of the same length (item assignment, reverse, insert+pop, append+pop), "
             "and every call must then give the same outcome as on a new object built from the values now held (no stale cached "
             "results), while results returned earlier must not have changed (no reused result buffers); an operator with the same object "
             "on both sides must behave like two objects holding the same values.")


def run(case, pid):
    from .common import Checker
    if case["kind"] == "variant":
        from . import probes2
        return probes2.run(case, pid)
    if case["kind"] == "own":
        from . import probes3
        return probes3.run(case, pid)
    if case["kind"] == "aug":
        c = Checker("aug")
        aug_check(c, case, pid)
        return c.out
    c = Checker("hist")
    check(c, case, pid)
    return c.out


def classify(case):
    if case["kind"] == "variant":
        from . import probes2
        return probes2.classify(case)
    if case["kind"] == "own":
        from . import probes3
        return probes3.classify(case)
    if case["kind"] == "aug":
        return {"kind:aug": True, "aug:" + case["cls"] + case["op"]: True, "aug:right=" + case["rkind"]: True,
                "aug:broadcast": case["rkind"] == "same" and len(case["us"]) != len(case["rus"]), "nontrivial": True}
    return {"kind:hist": True, "hist:" + case["cls"]: True, "hist:" + case["mutation"]: True, "hist:multi": len(case["us"]) > 1, "nontrivial": True}


def subs(pid, n=(40, 1500)):
    from ..runner import Sub
    out = [Sub("history_cells", gen=lambda tier: cells(pid), shards=(2, 4)),
           Sub("history", strategy=strategy(pid), n=n, shards=(4, 16))]
    if pid in AUG_PROPS:
        out += [Sub("augmented_cells", gen=lambda tier: aug_cells(pid), shards=(2, 4)),
                Sub("augmented", strategy=aug_strategy(pid), n=n, shards=(2, 8))]
    from . import probes2, probes3
    out += probes2.subs(pid)
    if any(pid in t for _, t, _ in probes3.all_calls()):
        out += probes3.subs(pid)
    return out


# --------------------------------------------------------------------------- augmented operators
# The classes define  *=, /=, +=, -= (poses),  *=, **= (quaternions) and document them as  "left := left op right".
# Oracle: the augmented form has exactly the outcome of the binary operator (class, length, values, or the same
# exception class) for every right operand.

import operator as _op

AUG_OPS = {"*=": (_op.imul, _op.mul), "/=": (_op.itruediv, _op.truediv), "+=": (_op.iadd, _op.add), "-=": (_op.isub, _op.sub),
           "**=": (_op.ipow, _op.pow)}
AUG_TABLE = {"SO2": ["*=", "/=", "+=", "-="], "SE2": ["*=", "/=", "+=", "-="], "SO3": ["*=", "/=", "+=", "-="], "SE3": ["*=", "/=", "+=", "-="],
             "Quaternion": ["*=", "**="], "UnitQuaternion": ["*=", "**="]}
AUG_PROPS = {"C01": ["SO3", "SE3", "SO2", "SE2", "UnitQuaternion"], "C02": ["SO3", "SE3", "SO2", "SE2", "UnitQuaternion"],
             "C08": list(AUG_TABLE), "C09": list(AUG_TABLE), "C12": ["Quaternion", "UnitQuaternion"], "C04": ["UnitQuaternion", "SO3", "SE3"]}
RIGHT_KINDS = ["same", "same", "same", "other", "scalar", "int", "vector", "array"]
OTHERS = ["SO2", "SE2", "SO3", "SE3", "Quaternion", "UnitQuaternion", "Twist3", "Twist2"]


def aug_strategy(pid):
    return st.sampled_from(AUG_PROPS[pid]).flatmap(lambda cn: st.fixed_dictionaries({
        "kind": st.just("aug"), "cls": st.just(cn), "op": st.sampled_from(AUG_TABLE[cn]),
        "us": st.lists(U6, min_size=1, max_size=4), "rkind": st.sampled_from(RIGHT_KINDS), "rcls": st.sampled_from(OTHERS),
        "rus": st.lists(U6, min_size=1, max_size=4), "n": st.integers(-4, 6), "k": gens.fl(-3, 3)}))


def aug_cells(pid):
    us = [[0.3, -0.5, 0.8, 0.2, 0.7, -0.4], [-0.6, 0.2, 0.4, -0.9, 0.1, 0.5], [0.1, 0.9, -0.3, 0.6, -0.8, 0.25]]
    rus = [[0.7, 0.3, -0.2, -0.5, 0.4, 0.9], [-0.2, 0.6, 0.5, 0.3, -0.7, 0.1], [0.4, -0.3, 0.9, 0.5, 0.2, -0.6]]
    for cn in AUG_PROPS[pid]:
        for op in AUG_TABLE[cn]:
            for m in (1, 2, 3):
                for n in (1, 2, 3):
                    yield {"kind": "aug", "cls": cn, "op": op, "us": us[:m], "rkind": "same", "rcls": cn, "rus": rus[:n], "n": 3, "k": 2.5}
                for rk in ("scalar", "int", "vector", "array"):
                    yield {"kind": "aug", "cls": cn, "op": op, "us": us[:m], "rkind": rk, "rcls": cn, "rus": rus[:1], "n": 3, "k": 2.5}
                for oc in OTHERS:
                    if oc != cn:
                        yield {"kind": "aug", "cls": cn, "op": op, "us": us[:m], "rkind": "other", "rcls": oc, "rus": rus[:1], "n": 3, "k": 2.5}


def _right(case):
    rk, cn = case["rkind"], case["cls"]
    if case["op"] == "**=":
        return int(case["n"]) if rk != "scalar" else float(case["k"])
    if rk == "same":
        return make(cn, case["rus"])
    if rk == "other":
        return make(case["rcls"], case["rus"][:1])
    if rk == "scalar":
        return float(case["k"])
    if rk == "int":
        return int(case["n"])
    d = 2 if cn.endswith("2") else 3
    v = [float(x) for x in case["rus"][0][:d]]
    return v if rk == "vector" else np.array(v)


def aug_check(c, case, pid):
    cn, opn = case["cls"], case["op"]
    iop, bop = AUG_OPS[opn]
    c.feat(cls=cn, op=opn, m=len(case["us"]), rkind=case["rkind"], rcls=case["rcls"] if case["rkind"] == "other" else None,
           n=len(case["rus"]) if case["rkind"] == "same" else None)
    want, _ = outcome(lambda: bop(make(cn, case["us"]), _right(case)))
    Z = make(cn, case["us"])
    before = snap(Z)
    keep = Z

    def run():
        z = Z
        z = iop(z, _right(case))
        return z
    got, _ = outcome(run)
    if not same(got, want):
        c.fail("%s/%s" % (cn, opn), "%s %s <%s> gave %s but the binary operator gives %s" % (cn, opn, case["rkind"], _short(got), _short(want)))
    if got[0] == "raise" and not same(snap(keep), before):
        c.fail("%s/%s/left_changed_by_failed_op" % (cn, opn), "a rejected %s changed its left operand" % opn)


# case kinds added in the later adversarial rounds (DESIGN.md section 6), per property: part of the stated rule of what is generated
EXTRA_RULES = {
    "C01": " Further entries: interp between nearly opposite unit quaternions; quaternion 4-vectors of length 1 +- m x 10^-k (sub-check near_unit_quaternions); prod() over 1200 values.",
    "C02": " Further operand relations: twists with parallel rotational parts; rotation angles 5e-10..2e-8 (cos rounds to 1) and within 2e-7..1.6e-6 of a half turn.",
    "C03": " Further inputs: angles a hair either side of 10^-k from 0 and pi; translations around the 10-eps zero-vector size (grid exp3_zero_threshold); pure translations; batches of 2..7 twists for SE3.Exp.",
    "C04": " Further routes: Quaternion.Pure(w/2).exp(), Twist3[3|5].prod(); q*p, q*P, qvmul for q and -q; rpy/eul read back from a three-valued UnitQuaternion; expression-tree tolerance grows with the number of times a leaf enters.",
    "C05": " Further inputs: exact zeros in every slot of the packed forms; option strings built at run time.",
    "C06": " Further inputs: products of unit dual quaternions of either sign; micro-scale data (1e-8..1e-3) with one result coordinate 1e-8..1e-1 of the others.",
    "C08": " Further kinds: rarr (right-operand arrays of 9 shapes for + - /), larr with lists / tuples, scalarvalue (0, 1, -1, False), linebool (^ | == != answer with a bool).",
    "C09": " Further calls: interp(vector s, start) and interp at s = 0, 1 per value; conversions SE2.SE3(z) / Twist2() / Twist3() per value; == of 1 against M values in both orders; constructor lengths 1..9 and 17; prismatic twists in degrees.",
    "C11": " Further inputs: integer-typed poses of int8/16/32/64 with translations over the whole range of the type; relative rotations just above the stated 1e-6.",
    "C12": " Further kinds: bigint (Python-int lists with components to 1e5, powers to +-6); DualQuaternion parts replaced after use; scalar parts to +-300, vector norms pi - 10^-14 and pi - 8..64 ulp; powers of quaternions with exactly-zero components.",
    "C13": " Further forms: round:float32 / round:float16 (arbitrary reals rounded to that type); vex/vexa with check=True incl. exactly-zero rotational / translational parts.",
    "C14": " Further inputs: UnitQuaternion(..., norm=False).unit(); stacks of 4 and 5 quaternion rows; twists whose whole vector has norm 1 (+- ulp).",
    "C15": " Further kinds: stype (each scalar slot as every NumPy scalar type), thetalen / wronglen (wrong-length vectors must raise), printunit (numbers inside the text of trprint / printline in both units), table entries with the scalar parameter at 0, 1, 0.5 (slerp, qpow, angvec2r, trotx), invalid options with all-zero angles.",
    "C17": " Further pool members: column-major arrays and objects holding them, bounds arrays for intersect_volume; -= and /= on the list classes that do not define them.",
    "C18": " Further kinds: thetatype (11 element types x scalar / list / tuple / array / mixed sequences, degrees); theta vectors that are exact or nearly exact arithmetic progressions; isprismatic of a three-valued Twist2.",
    "C19": " Further relations: nearly_parallel (1e-8..1e-3 rad), a line and its reversal, != against ==; plane coefficient vectors scaled by 1e-5..10; closest() for query points on the line.",
    "C20": " Further inputs: exactly-zero linear / angular halves; masses 1e-18..1e9 with each 3x3 block judged on its own scale; objects of 5, 6, 7 and 9000 values.",
}
