"""
C03  Exponential and logarithm are correct and mutually inverse on the whole group.
"""
import math

import numpy as np
from hypothesis import strategies as st

from .. import gens, refs
from ..runner import Sub
from . import probes
from .common import L, Checker, arr

PROPERTY_ID = "C03"
RULE = ("algebra elements: rotation vector = axis (all directions incl. coordinate and near-degenerate) x magnitude "
        "(log-uniform 1e-12..pi, pi-10^-k, exact 0 and pi), translation part 0..1e6, vector and matrix forms, twist=True/False, "
        "with and without explicit theta, 3D and 2D, base functions and class methods (Exp, log, pose<->twist). Oracle: 50-digit "
        "mpmath matrix exponential for exp; for L=log(T): finite, real, algebra form, |rotation|<=pi, reference exp(L)=T; "
        "log(exp S)=S for |w|<=pi-1e-6. Non-trivial: rotation magnitude < 1e-6, or within 1e-4 of pi, or |t| > 1e3, or pure "
        "translation, or matrix form.")
RULE = RULE + probes.RULE_TEXT + (probes.AUG_TEXT if PROPERTY_ID in probes.AUG_PROPS else "") + probes.VARIANT_TEXT + probes.OWN_TEXT + probes.EXTRA_RULES.get(PROPERTY_ID, "")
ASSUMPTIONS = ["mpmath (50 digits, scaling-and-squaring Taylor series) is the reference exponential; the closed-form reference in pbt/refs.py is cross-checked against it at start-up",
               "tolerance 1e-7*max(1,|t|)", "rotation magnitudes in (2e-15, 1e-12) are not generated (the statement starts at 1e-12)",
               "SE2.Exp/SO2.Exp receive ndarrays: a Python list there is documented as a sequence of elements"]

PI = math.pi
TOL = 1e-7


def rotvec():
    mags = st.one_of(gens.rot_angles(-12), gens.rot_angles(-12), gens.logmag(-4, -1))      # extra weight on 1e-4..1e-1 (series / closed-form switch-overs)
    return st.tuples(gens.direction3(), mags).map(lambda t: {"axis": t[0], "mag": t[1]})


def noise(n):
    """rounding-size perturbation of the rotation block (what composition of valid members leaves behind): None or
    {'k': size in eps, 'sym': symmetric pattern?, 'pat': n numbers in [-1,1]} -- well inside the library's 100-eps membership test"""
    return st.one_of(st.none(), st.none(), st.fixed_dictionaries({"k": st.sampled_from([1.0, 3.0, 8.0]), "sym": st.booleans(),
                                                                  "pat": st.lists(st.one_of(gens.fl(-1, 1), st.sampled_from([0.0, 1.0, -1.0])), min_size=n, max_size=n)}))


def add_noise(R, nz):
    if not nz:
        return R
    d = R.shape[0]
    N = np.array(nz["pat"], dtype=float).reshape(d, d)
    if nz["sym"]:
        N = (N + N.T) / 2
    return R + nz["k"] * np.finfo(float).eps * N


def rotvec_exp():
    """for the exponential alone the rotation magnitude is unbounded: up to several turns"""
    mags = st.one_of(gens.rot_angles(-12), gens.rot_angles(-12), gens.logmag(-4, -1), gens.fl(PI, 25.0), st.sampled_from([2 * PI, 4 * PI, 3 * PI]))
    return st.tuples(gens.direction3(), mags).map(lambda t: {"axis": t[0], "mag": t[1]})


def tiny_vec():
    """translational parts of the size of rounding residues, in particular around the 10-eps size below which the library
    calls a vector zero (whether by length or by largest element must not matter)"""
    mag = st.one_of(gens.logmag(-17, -12), gens.logmag(-3, 0).map(lambda e: 10 * 2.220446049250313e-16 * (1 + e)),
                    gens.logmag(-3, -0.31).map(lambda e: 10 * 2.220446049250313e-16 * (1 - e)))
    return st.tuples(gens.direction3(), mag).map(lambda t: [x * t[1] for x in t[0]])


def gen_zero_threshold(tier):
    """pure translations (and translations with a rounding-size rotation) whose length is around the library's 10-eps
    'zero vector' size, along coordinate, diagonal and generic directions"""
    eps = 2.220446049250313e-16
    for d in ([1, 1, 1], [1, -1, 1], [1, 1, 0], [0, 1, -1], [1, 0, 0], [0.6, 0.8, 0], [2, 3, 6], [-1, 2, 2]):
        u = [x / math.sqrt(sum(y * y for y in d)) for x in d]
        for m in (0.5, 0.9, 1.001, 1.1, 1.3, 1.5, 1.7, 2.0, 3.0, 10.0, 100.0):
            for matrix in (False, True):
                for theta_form in (False, True):
                    yield {"kind": "exp3", "w": {"axis": [0.0, 0.0, 1.0], "mag": 0.5}, "v": [x * m * 10 * eps for x in u], "se": True, "matrix": matrix,
                           "theta_form": theta_form, "norm6": False, "wzero": True}


def s_exp3():
    return st.fixed_dictionaries({"kind": st.just("exp3"), "w": rotvec_exp(), "v": st.one_of(gens.trans(3, -6, 6), gens.trans(3, -6, 6), st.just([0.0, 0.0, 0.0]), tiny_vec()),
                                  "wzero": st.sampled_from([False, False, False, True]), "batch": st.sampled_from([0, 0, 0, 2, 3, 5, 6, 7]),
                                  "se": st.booleans(), "matrix": st.booleans(), "theta_form": st.booleans(),
                                  "norm6": st.sampled_from([False, False, False, False, True])})


def s_log3():
    return st.fixed_dictionaries({"kind": st.just("log3"), "w": rotvec(), "v": st.one_of(gens.trans(3, -6, 6), st.just([0.0, 0.0, 0.0])),
                                  "se": st.booleans(), "twist": st.booleans(), "via": st.sampled_from(["rod", "quat", "conj"]),
                                  "noise": noise(9)})


def s_exp2():
    return st.fixed_dictionaries({"kind": st.just("exp2"), "w": st.one_of(gens.angle2(), gens.signed_logmag(-12, 0.49), gens.signed_logmag(-4, -1), gens.fl(-25.0, 25.0)),
                                  "v": st.one_of(gens.trans(2, -6, 6), st.just([0.0, 0.0])),
                                  "se": st.booleans(), "matrix": st.booleans(), "theta_form": st.booleans()})


def s_log2():
    return st.fixed_dictionaries({"kind": st.just("log2"), "w": st.one_of(gens.angle2(), gens.signed_logmag(-12, 0.49), gens.signed_logmag(-4, -1)),
                                  "v": st.one_of(gens.trans(2, -6, 6), st.just([0.0, 0.0])),
                                  "se": st.booleans(), "twist": st.booleans(), "noise": noise(4)})


THETA_TYPES = ["int", "float", "np.float64", "np.float32", "np.int64", "np.int32", "np.int16", "np.int8", "np.uint8",
               "array:float64", "array:float32", "array:int64", "array:int16", "array:int8", "array:uint8", "list:int",
               "list:np.float32", "list:np.int8", "tuple:np.float32"]


def _theta_conv(kind, vals):
    """the integer-valued angle(s) `vals` carried by the given scalar / array type"""
    if kind.startswith("array:"):
        return np.array(vals, dtype=np.dtype(kind[6:]))
    if kind == "list:int":
        return [int(v) for v in vals]
    if kind.startswith(("list:np.", "tuple:np.")):
        f = getattr(np, kind.split("np.")[1])
        seq = [f(v) for v in vals]
        return seq if kind.startswith("list") else tuple(seq)
    f = {"int": int, "float": float}.get(kind) or getattr(np, kind[3:])
    return f(vals[0])


def s_thetatype():
    return st.fixed_dictionaries({"kind": st.just("thetatype"), "dim": st.sampled_from([2, 3]), "type": st.sampled_from(THETA_TYPES),
                                  "deg": st.lists(st.integers(-120, 120), min_size=1, max_size=3), "unit": st.sampled_from(["deg", "rad"]),
                                  "axis": gens.direction3(), "q": gens.trans(3, -2, 1), "prismatic": st.booleans()})


def gen_thetatypes(tier):
    for dim in (2, 3):
        for ty in THETA_TYPES:
            for unit in ("deg", "rad"):
                for pris in (False, True):
                    yield {"kind": "thetatype", "dim": dim, "type": ty, "deg": [90, 45, 77], "unit": unit, "axis": [0.6, 0.0, 0.8], "q": [1.0, -2.0, 0.5], "prismatic": pris}


def _thetatype(case):
    """exp(S, theta) = exp(theta S) for a unit twist, whatever numeric type carries the (integer-valued) angle, in either unit"""
    dim, kind, unit = case["dim"], case["type"], case["unit"]
    c = Checker("thetatype", dim=dim, type=kind, unit=unit, prismatic=case["prismatic"])
    vals = [int(v) for v in case["deg"]] if unit == "deg" else [(abs(int(v)) % 4) * (1 if v >= 0 else -1) for v in case["deg"]]       # small integers as radians
    if "uint" in kind:
        vals = [abs(v) for v in vals]
    multi = kind.startswith(("array:", "list:", "tuple:"))
    if not multi:
        vals = vals[:1]
    rad = [v * PI / 180.0 if unit == "deg" else float(v) for v in vals]
    if dim == 3:
        w = refs.unit(case["axis"])
        S = np.r_[w, 0.0, 0.0, 0.0] if case["prismatic"] else np.r_[-np.cross(w, arr(case["q"])), w]
        wants = [refs.expm_se3(S[:3] * t, S[3:] * t) for t in rad]
        tw_cls, base_exp = L.Twist3, L.base.trexp
    else:
        d2 = refs.unit(case["axis"][:2] if any(case["axis"][:2]) else [1.0, 0.0])
        q = arr(case["q"])[:2]
        S = np.r_[d2, 0.0] if case["prismatic"] else np.r_[q[1], -q[0], 1.0]
        wants = [refs.expm_se2(S[:2] * t, S[2] * t) for t in rad]
        tw_cls, base_exp = L.Twist2, L.base.trexp2
    sc = max(1.0, float(np.max(np.abs(arr(case["q"])))))
    theta = _theta_conv(kind, vals)
    ok, X = c.lib("Twist.exp", lambda: tw_cls(S.copy()).exp(theta, unit))
    if ok and c.true("Twist.exp/len", hasattr(X, "data") and len(X) == len(wants), "Twist%d.exp(%s %r, %r) gave %r" % (dim, kind, vals, unit, X)):
        for i, Wm in enumerate(wants):
            c.eq("Twist.exp/value", np.asarray(X.data[i], dtype=float), Wm, TOL, sc)
    if unit == "rad" and not multi:
        ok, E = c.lib("trexp(S,theta)", base_exp, S.copy(), theta)
        if ok:
            c.eq("trexp(S,theta)/value", E, wants[0], TOL, sc)
    return c.out


def check_case(case):
    if case.get("kind") in ("hist", "aug", "variant", "own"):
        return probes.run(case, PROPERTY_ID)
    return {"exp3": _exp3, "log3": _log3, "exp2": _exp2, "log2": _log2, "thetatype": _thetatype}[case["kind"]](case)


def _wv(case):
    w = refs.unit(case["w"]["axis"]) * case["w"]["mag"]
    v = arr(case["v"])
    return w, v


def _exp3(case):
    b = L.base
    w, v = _wv(case)
    th = case["w"]["mag"]
    se = case["se"]
    if case.get("wzero") and se:
        w, th = np.zeros(3), 0.0          # pure translation
    if case.get("norm6") and se:
        # the 6-vector as a whole has norm 1 (|w| < 1 in general): not a unit twist, and must not be treated as one
        n6 = float(np.linalg.norm(np.r_[v, w]))
        if n6 > 1e-3 and math.isfinite(n6):
            v, w = v / n6, w / n6
            th = float(np.linalg.norm(w))
    c = Checker("exp3", theta=th, pi_minus_theta=PI - th, se=se, matrix=case["matrix"])
    if se:
        hat = refs.hat6(v, w)
        vec = np.r_[v, w]
    else:
        hat = refs.skew3(w)
        vec = w.copy()
    want = refs.mp_expm(hat)
    sc = max(1.0, float(np.max(np.abs(want[:3, 3])))) if se else 1.0
    c.feat(tmax=sc)
    arg = hat.copy() if case["matrix"] else vec.copy()
    ok, E = c.lib("trexp", b.trexp, arg)
    if ok:
        c.eq("trexp/value", E, want, TOL, sc)
    # exp(S, theta) = exp(theta S) for a unit twist
    if case["theta_form"]:
        if th > 0:
            unit_vec, theta = vec / th, th
        elif se and np.linalg.norm(v) > 0:
            theta = float(np.linalg.norm(v))
            unit_vec = vec / theta
        else:
            unit_vec = None
        if unit_vec is not None and np.all(np.isfinite(unit_vec)):   # v/|w| overflows for |w| ~ 1e-308: not a finite input
            uarg = (refs.hat6(unit_vec[:3], unit_vec[3:]) if se else refs.skew3(unit_vec)) if case["matrix"] else unit_vec
            ok, E2 = c.lib("trexp(S,theta)", b.trexp, uarg, theta)
            if ok:
                c.eq("trexp(S,theta)/value", E2, want, TOL, sc)
            # a negative theta is the inverse motion
            okn, E3 = c.lib("trexp(S,-theta)", b.trexp, uarg.copy(), -theta)
            if okn:
                c.eq("trexp(S,-theta)/value", E3, refs.mp_expm(-hat), TOL, sc)
    # class level
    if se:
        ok, X = c.lib("SE3.Exp", L.SE3.Exp, arg.copy())
        if ok and c.true("SE3.Exp/type", type(X) is L.SE3 and len(X) == 1, "SE3.Exp gave %s len %s" % (type(X).__name__, len(X))):
            c.eq("SE3.Exp/value", X.A, want, TOL, sc)
        # a batch of twists (list / tuple / array of rows) gives one exponential per twist, whatever the batch size - in
        # particular as many twists as a twist has components
        nb = case.get("batch", 0)
        if nb:
            rows = [vec * (1.0 - 0.07 * i) for i in range(nb)]
            for frm, barg in (("list", [r.copy() for r in rows]), ("tuple", tuple(r.copy() for r in rows)), ("array", np.array(rows))):
                okb, XB = c.lib("SE3.Exp[batch]", L.SE3.Exp, barg)
                if okb and c.true("SE3.Exp[batch]/len", type(XB) is L.SE3 and len(XB) == nb, "SE3.Exp of %d twists (%s) gave %s of %s" % (
                        nb, frm, type(XB).__name__, len(XB) if hasattr(XB, "__len__") else "?"), batch=nb, form=frm):
                    for i in (0, nb - 1):
                        oks, Xs = c.lib("SE3.Exp[batch]/single", L.SE3.Exp, rows[i].copy())
                        if oks:
                            c.eq("SE3.Exp[batch]/element", XB.data[i], Xs.A, 1e-12, sc, batch=nb)
        ok, tw = c.lib("Twist3", L.Twist3, arg.copy())
        if ok:
            c.eq("Twist3/S", tw.S, vec, 1e-12, max(1.0, float(np.max(np.abs(vec)))))
            ok2, X = c.lib("Twist3.exp", tw.exp)
            if ok2 and c.true("Twist3.exp/type", type(X) is L.SE3 and len(X) == 1, "Twist3.exp gave %s" % type(X).__name__):
                c.eq("Twist3.exp/value", X.A, want, TOL, sc)
            ok2, X = c.lib("Twist3.SE3", tw.SE3)
            if ok2 and c.true("Twist3.SE3/type", type(X) is L.SE3 and len(X) == 1, "Twist3.SE3 gave %s" % type(X).__name__):
                c.eq("Twist3.SE3/value", X.A, want, TOL, sc)
    else:
        ok, X = c.lib("SO3.Exp", L.SO3.Exp, arg.copy())
        if ok and c.true("SO3.Exp/type", type(X) is L.SO3 and len(X) == 1, "SO3.Exp gave %s len %s" % (type(X).__name__, len(X))):
            c.eq("SO3.Exp/value", X.A, want, TOL)
    return c.out


def _judge_log3(c, site, Lg, T, se, twist, S_want, th):
    """L is the library log of T (vector if twist else matrix)"""
    try:
        A = np.asarray(Lg)
    except Exception as e:  # noqa
        c.fail(site + "/numeric", "log returned %r (%s)" % (Lg, e))
        return
    if not c.true(site + "/real", A.dtype.kind in "fiu", "log has dtype %s: %r" % (A.dtype, A)):
        return
    A = A.astype(float)
    shape = ((6,) if se else (3,)) if twist else ((4, 4) if se else (3, 3))
    if not c.true(site + "/shape", A.shape == shape, "log shape %s, expected %s" % (A.shape, shape)):
        return
    if not c.true(site + "/finite", bool(np.all(np.isfinite(A))), "log not finite: %s" % np.array2string(A, precision=4)):
        return
    sc = max(1.0, float(np.max(np.abs(T[:3, 3])))) if se else 1.0
    if twist:
        v, w = (A[:3], A[3:]) if se else (np.zeros(3), A)
    else:
        Wm = A[:3, :3]
        c.eq(site + "/skew", Wm + Wm.T, np.zeros((3, 3)), 1e-12)
        if se:
            c.eq(site + "/lastrow", A[3, :], np.zeros(4), 0)
        w = refs.vex3(Wm)
        v = A[:3, 3] if se else np.zeros(3)
    wn = float(np.linalg.norm(w))
    c.true(site + "/magnitude", wn <= PI + 1e-9, "rotation magnitude %.17g > pi" % wn)
    E = refs.expm_se3(v, w) if se else refs.expm_so3(w)
    c.eq(site + "/exp(log)", E, T, TOL, sc)
    if th <= PI - 1e-6:
        got = np.r_[v, w] if se else w
        c.eq(site + "/log(exp)", got, S_want, TOL, max(1.0, float(np.max(np.abs(S_want[:3])))) if se else 1.0)


def _log3(case):
    b = L.base
    w, v = _wv(case)
    th = case["w"]["mag"]
    se, twist = case["se"], case["twist"]
    c = Checker("log3", theta=th, pi_minus_theta=PI - th, se=se, twist=twist)
    R = add_noise(refs.rot_of({"axis": case["w"]["axis"], "angle": th, "via": case["via"]}), case.get("noise"))
    if se:
        T = refs.expm_se3(v, w)
        T[:3, :3] = R
        S_want = np.r_[v, w]
    else:
        T = R
        S_want = w
    c.feat(tmax=max(1.0, float(np.max(np.abs(T[:3, 3])))) if se else 1.0)
    ok, Lg = c.lib("trlog", b.trlog, T.copy(), twist=twist)
    if ok:
        _judge_log3(c, "trlog", Lg, T, se, twist, S_want, th)
    cls = L.SE3 if se else L.SO3
    ok, X = c.lib("ctor", cls, T.copy(), check=False)
    if ok:
        ok2, Lg = c.lib("pose.log", X.log, twist=twist)
        if ok2:
            _judge_log3(c, "pose.log", Lg, T, se, twist, S_want, th)
        if se:
            ok2, tw = c.lib("SE3.Twist3", X.Twist3)
            if ok2 and c.true("SE3.Twist3/type", type(tw) is L.Twist3 and len(tw) == 1, "SE3.Twist3() gave %s" % type(tw).__name__):
                _judge_log3(c, "SE3.Twist3", tw.S, T, True, True, S_want, th)
            ok2, tw = c.lib("Twist3(SE3)", L.Twist3, X)
            if ok2 and c.true("Twist3(SE3)/type", type(tw) is L.Twist3 and len(tw) == 1, "Twist3(SE3) gave %s" % type(tw).__name__):
                _judge_log3(c, "Twist3(SE3)", tw.S, T, True, True, S_want, th)
    return c.out


def _exp2(case):
    b = L.base
    w, v = float(case["w"]), arr(case["v"])
    se = case["se"]
    c = Checker("exp2", theta=abs(w), pi_minus_theta=PI - abs(w), se=se, matrix=case["matrix"])
    if se:
        hat = refs.hat3(v, w)
        vec = np.r_[v, w]
    else:
        hat = np.array([[0.0, -w], [w, 0.0]])
        vec = np.array([w])
    want = refs.mp_expm(hat)
    sc = max(1.0, float(np.max(np.abs(want[:2, 2])))) if se else 1.0
    arg = hat.copy() if case["matrix"] else vec.copy()
    ok, E = c.lib("trexp2", b.trexp2, arg)
    if ok:
        c.eq("trexp2/value", E, want, TOL, sc)
    if case["theta_form"]:
        if w != 0:
            theta = abs(w)
            unit_vec = vec / theta
        elif se and np.linalg.norm(v) > 0:
            theta = float(np.linalg.norm(v))
            unit_vec = vec / theta
        else:
            unit_vec = None
        if unit_vec is not None and np.all(np.isfinite(unit_vec)):   # v/|w| overflows for |w| ~ 1e-308: not a finite input
            uarg = (refs.hat3(unit_vec[:2], unit_vec[2]) if se else np.array([[0.0, -unit_vec[0]], [unit_vec[0], 0.0]])) if case["matrix"] else unit_vec
            ok, E2 = c.lib("trexp2(S,theta)", b.trexp2, uarg, theta)
            if ok:
                c.eq("trexp2(S,theta)/value", E2, want, TOL, sc)
            okn, E3 = c.lib("trexp2(S,-theta)", b.trexp2, uarg.copy(), -theta)
            if okn:
                c.eq("trexp2(S,-theta)/value", E3, refs.mp_expm(-hat), TOL, sc)
    if se:
        ok, X = c.lib("SE2.Exp", L.SE2.Exp, arg.copy())
        if ok and c.true("SE2.Exp/type", type(X) is L.SE2 and len(X) == 1, "SE2.Exp gave %s len %s" % (type(X).__name__, len(X))):
            c.eq("SE2.Exp/value", X.A, want, TOL, sc)
        ok, tw = c.lib("Twist2", L.Twist2, arg.copy())
        if ok:
            c.eq("Twist2/S", tw.S, vec, 1e-12, max(1.0, float(np.max(np.abs(vec)))))
            ok2, X = c.lib("Twist2.exp", tw.exp)
            if ok2 and c.true("Twist2.exp/type", type(X) is L.SE2 and len(X) == 1, "Twist2.exp gave %s" % type(X).__name__):
                c.eq("Twist2.exp/value", X.A, want, TOL, sc)
            ok2, X = c.lib("Twist2.SE2", tw.SE2)
            if ok2 and c.true("Twist2.SE2/type", type(X) is L.SE2 and len(X) == 1, "Twist2.SE2 gave %s" % type(X).__name__):
                c.eq("Twist2.SE2/value", X.A, want, TOL, sc)
    else:
        ok, X = c.lib("SO2.Exp", L.SO2.Exp, arg.copy())
        if ok and c.true("SO2.Exp/type", type(X) is L.SO2 and len(X) == 1, "SO2.Exp gave %s len %s" % (type(X).__name__, len(X))):
            c.eq("SO2.Exp/value", X.A, want, TOL)
    return c.out


def _judge_log2(c, site, Lg, T, se, twist, S_want, th):
    try:
        A = np.asarray(Lg)
    except Exception as e:  # noqa
        c.fail(site + "/numeric", "log returned %r (%s)" % (Lg, e))
        return
    if not c.true(site + "/real", A.dtype.kind in "fiu", "log has dtype %s: %r" % (A.dtype, A)):
        return
    A = A.astype(float)
    shape = ((3,) if se else (1,)) if twist else ((3, 3) if se else (2, 2))
    if not c.true(site + "/shape", A.shape == shape, "log shape %s, expected %s" % (A.shape, shape)):
        return
    if not c.true(site + "/finite", bool(np.all(np.isfinite(A))), "log not finite: %s" % np.array2string(A, precision=4)):
        return
    sc = max(1.0, float(np.max(np.abs(T[:2, 2])))) if se else 1.0
    if twist:
        v, w = (A[:2], float(A[2])) if se else (np.zeros(2), float(A[0]))
    else:
        c.eq(site + "/skew", A[:2, :2] + A[:2, :2].T, np.zeros((2, 2)), 1e-12)
        if se:
            c.eq(site + "/lastrow", A[2, :], np.zeros(3), 0)
        w = float(A[1, 0] - A[0, 1]) / 2.0
        v = A[:2, 2] if se else np.zeros(2)
    c.true(site + "/magnitude", abs(w) <= PI + 1e-9, "rotation magnitude %.17g > pi" % abs(w))
    E = refs.expm_se2(v, w) if se else refs.rot2(w)
    c.eq(site + "/exp(log)", E, T, TOL, sc)
    if th <= PI - 1e-6:
        got = np.r_[v, w] if se else np.array([w])
        c.eq(site + "/log(exp)", got, S_want, TOL, max(1.0, float(np.max(np.abs(S_want[:2])))) if se else 1.0)


def _log2(case):
    b = L.base
    w, v = float(case["w"]), arr(case["v"])
    se, twist = case["se"], case["twist"]
    th = abs(w)
    c = Checker("log2", theta=th, pi_minus_theta=PI - th, se=se, twist=twist)
    if se:
        T = refs.expm_se2(v, w)
        S_want = np.r_[v, w]
        T[:2, :2] = add_noise(T[:2, :2], case.get("noise"))
    else:
        T = add_noise(refs.rot2(w), case.get("noise"))
        S_want = np.array([w])
    ok, Lg = c.lib("trlog2", b.trlog2, T.copy(), twist=twist)
    if ok:
        _judge_log2(c, "trlog2", Lg, T, se, twist, S_want, th)
    cls = L.SE2 if se else L.SO2
    ok, X = c.lib("ctor", cls, T.copy(), check=False)
    if ok:
        ok2, Lg = c.lib("pose.log", X.log, twist=twist)
        if ok2:
            _judge_log2(c, "pose.log", Lg, T, se, twist, S_want, th)
        if se:
            ok2, tw = c.lib("SE2.Twist2", X.Twist2)
            if ok2 and c.true("SE2.Twist2/type", type(tw) is L.Twist2 and len(tw) == 1, "SE2.Twist2() gave %s" % type(tw).__name__):
                _judge_log2(c, "SE2.Twist2", tw.S, T, True, True, S_want, th)
            ok2, tw = c.lib("Twist2(SE2)", L.Twist2, X)
            if ok2 and c.true("Twist2(SE2)/type", type(tw) is L.Twist2 and len(tw) == 1, "Twist2(SE2) gave %s" % type(tw).__name__):
                _judge_log2(c, "Twist2(SE2)", tw.S, T, True, True, S_want, th)
    return c.out


def classify(case):
    if case.get("kind") in ("hist", "aug", "variant", "own"):
        return probes.classify(case)
    if case.get("kind") == "thetatype":
        return {"kind:thetatype": True, "thetatype:" + case["type"]: True, "deg": case["unit"] == "deg", "nontrivial": case["type"] not in ("float", "np.float64")}
    k = case["kind"]
    th = case["w"]["mag"] if k.endswith("3") else abs(case["w"])
    tm = max([abs(x) for x in case["v"]] + [0.0])
    lab = {"kind:" + k: True,
           "theta<1e-6": 0 < th < 1e-6, "theta=0": th == 0, "pi-theta<1e-4": PI - th < 1e-4, "theta=pi": th == PI,
           "|v|>1e3": tm > 1e3, "pure_translation": th == 0 and tm > 0,
           "rounding_noise": bool(case.get("noise")), "matrix_form": bool(case.get("matrix")), "twist=True": bool(case.get("twist")), "se": case["se"]}
    lab["nontrivial"] = bool((th < 1e-6) or (PI - th < 1e-4) or tm > 1e3 or lab["pure_translation"] or case.get("matrix"))
    return lab


def subchecks(tier):
    return [
        Sub("exp3", strategy=s_exp3(), n=(400, 8000), shards=(6, 16)),
        Sub("exp3_zero_threshold", gen=gen_zero_threshold, shards=(1, 2)),
        Sub("log3", strategy=s_log3(), n=(700, 15000), shards=(5, 16)),
        Sub("exp2", strategy=s_exp2(), n=(500, 6000), shards=(5, 16)),
        Sub("log2", strategy=s_log2(), n=(700, 12000), shards=(4, 16)),
        Sub("theta_types", gen=gen_thetatypes, shards=(2, 4)),
        Sub("theta_type_values", strategy=s_thetatype(), n=(150, 3000), shards=(2, 8)),
        *probes.subs(PROPERTY_ID),
    ]
