"""
C04  All representations of the same motion agree and conversions are homomorphisms.
"""
import math

import numpy as np
from hypothesis import strategies as st

from .. import gens, refs
from ..runner import Sub
from . import probes
from .common import L, Checker, arr

PROPERTY_ID = "C04"
RULE = ("rotations incl. angles within 1e-9 of 0 and pi on every axis (all three largest-diagonal branches of quaternion "
        "extraction), translations <= 1e6; ordered pairs of representations {SO3, SE3, UnitQuaternion, Twist3, UnitDualQuaternion} "
        "and {SO2, SE2, Twist2}: convert-and-back, q == -q, convert(X*Y) = convert(X)*convert(Y), convert(X^-1) = convert(X)^-1; "
        "shared named constructors (Rx Ry Rz RPY x orders, Eul, AngVec, EulerVec, OA, Exp) across classes vs the reference "
        "rotation; embeddings SO2->SE2, SO3->SE3, SE2->SE3 as homomorphisms preserving the action on points; expression "
        "trees evaluated independently per representation. Non-trivial: angle within 1e-6 of 0 or pi, or |t|>1e3, or axis "
        "length outside [0.5,2], or tree depth>=2.")
RULE = RULE + probes.RULE_TEXT + (probes.AUG_TEXT if PROPERTY_ID in probes.AUG_PROPS else "") + probes.VARIANT_TEXT + probes.OWN_TEXT + probes.EXTRA_RULES.get(PROPERTY_ID, "")
ASSUMPTIONS = ["all values compared as matrices to 1e-6 relative to max(1,|t|); quaternions through the reference q2r (sign-free)",
               "UnitDualQuaternion has no inverse method: only products and round trips are checked for it"]

PI = math.pi
ORDERS = ["zyx", "xyz", "yxz", "vehicle", "arm", "camera"]
TOL = 1e-6


def rot_near():
    """rotation spec whose angle is biased to within 1e-9 of 0 / pi"""
    ang = st.one_of(gens.rot_angles(-15), gens.logmag(-15, -9), gens.logmag(-15, -9).map(lambda d: PI - d), st.sampled_from([0.0, PI]))
    generic = st.fixed_dictionaries({"axis": gens.direction3(), "angle": ang, "via": st.sampled_from(["rod", "quat", "conj"])})
    noisy = st.fixed_dictionaries({"axis": gens.direction3(), "angle": ang, "via": st.sampled_from(["rod", "quat", "conj"]), "noise": gens.rounding_noise()})
    return st.one_of(generic, generic, generic, generic, noisy, gens.cube_rot())      # + exact axis relabellings (tied / zero matrix entries)


def pose():
    return st.fixed_dictionaries({"rot": rot_near(), "t": gens.trans(3, -6, 6)})


def s_round():
    return st.fixed_dictionaries({"kind": st.just("round"), "X": pose(), "Y": pose()})


def s_ctor():
    return st.fixed_dictionaries({"kind": st.just("ctor"), "a": st.lists(gens.angles(many_turns=False), min_size=3, max_size=3),
                                  "axis": gens.axis3(-3, 6), "mag": gens.rot_angles(-12), "unit": st.sampled_from(["rad", "deg"]),
                                  "order": st.sampled_from(ORDERS), "sep": gens.fl(1e-3, PI - 1e-3), "perp": gens.direction3(),
                                  "len2": st.one_of(st.just(1.0), gens.logmag(-3, 6)), "t": gens.trans(3, -6, 6),
                                  "turns": st.one_of(gens.rot_angles(-12), gens.fl(PI, 25.0))})


def s_embed():
    return st.fixed_dictionaries({"kind": st.just("embed"), "X2": gens.pose2(t_hi=6), "Y2": gens.pose2(t_hi=6), "X3": pose(), "Y3": pose(),
                                  "p": st.lists(gens.signed_logmag(-3, 3), min_size=3, max_size=3), "z": gens.signed_logmag(-3, 3)})


def tree(depth):
    leaf = st.integers(0, 2).map(lambda i: ["leaf", i])

    def ext(ch):
        return st.one_of(st.tuples(st.just("mul"), ch, ch).map(list), st.tuples(st.just("mul"), ch, ch).map(list),
                         st.tuples(st.just("inv"), ch).map(list), st.tuples(st.just("pow"), ch, st.integers(-8, 8)).map(list))
    return st.recursive(leaf, ext, max_leaves=2 ** depth // 2)


def depth_of(t):
    return 0 if t[0] == "leaf" else 1 + max(depth_of(x) for x in t[1:] if isinstance(x, list))


def s_tree(maxdepth):
    return st.fixed_dictionaries({"kind": st.just("tree"), "leaves": st.lists(pose(), min_size=3, max_size=3),
                                  "tree": tree(maxdepth).filter(lambda t: depth_of(t) <= maxdepth)})


def check_case(case):
    if case.get("kind") in ("hist", "aug", "variant", "own"):
        return probes.run(case, PROPERTY_ID)
    return {"round": _round, "ctor": _ctor, "embed": _embed, "tree": _tree}[case["kind"]](case)


# ---- conversions between representations, each returning a 4x4 (or 3x3) float matrix ----------

def inv4(T):
    return refs.rt(T[:3, :3].T, -T[:3, :3].T @ T[:3, 3])


def m_of(obj):
    """matrix of a library object of any 3-D representation"""
    if isinstance(obj, L.SE3):
        return np.asarray(obj.A, dtype=float)
    if isinstance(obj, L.SO3):
        return refs.rt(np.asarray(obj.A, dtype=float), np.zeros(3))
    if isinstance(obj, L.UnitQuaternion):
        return refs.rt(refs.q2r(np.asarray(obj.vec, dtype=float)), np.zeros(3))
    if isinstance(obj, L.Twist3):
        S = np.asarray(obj.S, dtype=float)
        return refs.expm_se3(S[:3], S[3:])
    if isinstance(obj, L.UnitDualQuaternion):
        r = np.asarray(obj.real.vec, dtype=float)
        d = np.asarray(obj.dual.vec, dtype=float)
        tq = 2.0 * refs.qmul(d, refs.qconj(r))
        return refs.rt(refs.q2r(r), tq[1:])
    raise TypeError(type(obj))


REPS = ["SO3", "SE3", "UnitQuaternion", "Twist3", "UnitDualQuaternion"]


def to_rep(rep, T):
    """build representation rep from the reference matrix T by the library's own conversion from an SE3/SO3 object"""
    X = L.SE3(T.copy(), check=False)
    if rep == "SE3":
        return X
    if rep == "SO3":
        return L.SO3(T[:3, :3].copy(), check=False)
    if rep == "UnitQuaternion":
        return L.UnitQuaternion(X)
    if rep == "Twist3":
        return L.Twist3(X)
    return L.UnitDualQuaternion(X)


def back(rep, obj):
    """convert a representation back to SE3/SO3 with the library's conversion"""
    if rep == "SE3":
        return obj
    if rep == "SO3":
        return L.SE3.SO3(obj)
    if rep == "UnitQuaternion":
        return obj.SE3()
    if rep == "Twist3":
        return obj.SE3()
    return obj.SE3()


def rot_only(rep):
    return rep in ("SO3", "UnitQuaternion")


def _round(case):
    TX, TY = refs.pose3_of(case["X"]), refs.pose3_of(case["Y"])
    ang = case["X"]["rot"]["angle"]
    sc = max(1.0, float(np.max(np.abs(TX[:3, 3]))), float(np.max(np.abs(TY[:3, 3]))), float(np.max(np.abs((TX @ TY)[:3, 3]))))
    c = Checker("round", angle=ang, pi_minus_angle=PI - ang, tmax=sc)

    def expect(T, rep):
        return refs.rt(T[:3, :3], np.zeros(3)) if rot_only(rep) else T

    objs = {}
    for rep in REPS:
        ok, o = c.lib("to:" + rep, to_rep, rep, TX)
        if not ok:
            continue
        objs[rep] = o
        c.eq("value:" + rep, m_of(o), expect(TX, rep), TOL, sc)
        ok2, bk = c.lib("back:" + rep, back, rep, o)
        if ok2:
            c.eq("roundtrip:" + rep, m_of(bk), expect(TX, rep), TOL, sc)
        # homomorphism
        ok3, oy = c.lib("to:" + rep, to_rep, rep, TY)
        if ok3:
            ok4, prod = c.lib("mul:" + rep, lambda: o * oy)
            if ok4:
                c.eq("hom/mul:" + rep, m_of(prod), expect(TX @ TY, rep), TOL, sc)
                if rep == "UnitDualQuaternion":
                    # the library's own conversion of a PRODUCT (whose real part may have a negative scalar part), seeded C04_15
                    ok6, ps = c.lib("mul:UDQ.SE3()", prod.SE3)
                    if ok6:
                        c.eq("hom/mul:UDQ.SE3()", m_of(ps), TX @ TY, TOL, sc)
            if rep != "UnitDualQuaternion":
                ok5, iv = c.lib("inv:" + rep, o.inv)
                if ok5:
                    c.eq("hom/inv:" + rep, m_of(iv), expect(inv4(TX), rep), TOL, sc)
    # second-level conversions between non-matrix representations
    if "UnitQuaternion" in objs:
        q = objs["UnitQuaternion"]
        ok, r = c.lib("UQ.SO3", q.SO3)
        if ok:
            c.eq("UQ.SO3", m_of(r), refs.rt(TX[:3, :3], np.zeros(3)), TOL)
        ok, q2 = c.lib("UQ(SO3)", lambda: L.UnitQuaternion(L.SO3(TX[:3, :3].copy(), check=False)))
        if ok:
            c.eq("UQ(SO3)", m_of(q2), refs.rt(TX[:3, :3], np.zeros(3)), TOL)
        # the library's own == between the same rotation obtained by two routes (matrix -> quaternion, axis-angle constructor):
        # True when the two quaternions agree up to sign to a few ulp, False when they differ by more than 1e-6
        spec = case["X"]["rot"]
        ok, qa = c.lib("UQ.AngVec", lambda: L.UnitQuaternion.AngVec(spec["angle"], list(spec["axis"])))
        if ok:
            v1, v2 = np.asarray(q.vec, dtype=float), np.asarray(qa.vec, dtype=float)
            dq = min(float(np.linalg.norm(v1 - v2)), float(np.linalg.norm(v1 + v2)))
            oke, e = c.lib("UQ==UQ", lambda: q == qa)
            okn, ne = c.lib("UQ!=UQ", lambda: q != qa)
            if dq <= 1e-15:
                if oke:
                    c.true("==/same_rotation_two_routes", e is True or e == True, "UnitQuaternion(R) == UnitQuaternion.AngVec(..) is %r although they differ by %.2g" % (e, dq), dq=dq)  # noqa
                if okn:
                    c.true("!=/same_rotation_two_routes", ne is False or ne == False, "UnitQuaternion(R) != UnitQuaternion.AngVec(..) is %r although they differ by %.2g" % (ne, dq), dq=dq)  # noqa
        ok, q3 = c.lib("UQ(R)", lambda: L.UnitQuaternion(TX[:3, :3].copy()))
        if ok:
            c.eq("UQ(R)", m_of(q3), refs.rt(TX[:3, :3], np.zeros(3)), TOL)
        ok, q4 = c.lib("UQ(T)", lambda: L.UnitQuaternion(TX.copy()))
        if ok:
            c.eq("UQ(T)", m_of(q4), refs.rt(TX[:3, :3], np.zeros(3)), TOL)
        ok, q5 = c.lib("UQ([SO3,SO3])", lambda: L.UnitQuaternion([L.SO3(TX[:3, :3].copy(), check=False), L.SO3(TY[:3, :3].copy(), check=False)]))
        if ok and c.true("UQ([SO3,SO3])/len", len(q5) == 2, "UnitQuaternion of two SO3 holds %d values" % len(q5)):
            c.eq("UQ([SO3,SO3])", refs.q2r(np.asarray(q5.data[1], dtype=float)), TY[:3, :3], TOL)
        # q and -q are the same rotation and compare equal
        v = np.asarray(q.vec, dtype=float)
        ok, qn = c.lib("UQ(-q)", lambda: L.UnitQuaternion([float(-x) for x in v]))
        if ok:
            ok2, e = c.lib("q==-q", lambda: q == qn)
            if ok2:
                c.true("q==-q", e is True or e == True, "q == -q gave %r" % (e,))  # noqa
            ok2, e = c.lib("q!=-q", lambda: q != qn)
            if ok2:
                c.true("q!=-q", e is False or e == False, "q != -q gave %r" % (e,))  # noqa
            c.eq("R(-q)=R(q)", np.asarray(qn.R, dtype=float), np.asarray(q.R, dtype=float), 1e-12)
            # ... and both act on points as the rotation matrix does (single point, 3 x N array, base function)
            p3 = np.array([0.7, -1.3, 2.1])
            P3 = np.array([[0.7, -0.2, 1.5, 0.3], [-1.3, 0.4, 0.5, -2.2], [2.1, 1.1, -0.6, 0.9]])
            for nm_, qq_ in (("q", q), ("-q", qn)):
                okp, r_ = c.lib(nm_ + "*p", lambda: qq_ * p3.copy())
                if okp:
                    c.eq(nm_ + "*p/value", np.asarray(r_, dtype=float).ravel(), TX[:3, :3] @ p3, TOL, 3.0)
                okp, r_ = c.lib(nm_ + "*P", lambda: qq_ * P3.copy())
                if okp:
                    c.eq(nm_ + "*P/value", np.asarray(r_, dtype=float), TX[:3, :3] @ P3, TOL, 3.0)
                okp, r_ = c.lib("qvmul(" + nm_ + ",p)", L.base.qvmul, np.asarray(qq_.vec, dtype=float).copy(), p3.copy())
                if okp:
                    c.eq("qvmul(" + nm_ + ",p)/value", np.asarray(r_, dtype=float).ravel(), TX[:3, :3] @ p3, TOL, 3.0)
        # axis-angle extraction describes the same rotation for both representatives of the double cover
        for nm_, qq_ in (("q", q), ("-q", L.UnitQuaternion([float(-x) for x in v]))):
            okv, av = c.lib(nm_ + ".angvec", qq_.angvec)
            if okv:
                try:
                    th_, ax_ = float(av[0]), np.asarray(av[1], dtype=float)
                    Rb = refs.rodrigues(ax_, th_) if float(np.linalg.norm(ax_)) > 0 else np.eye(3)
                except Exception as e:  # noqa
                    c.fail(nm_ + ".angvec/fields", "angvec returned %r (%s)" % (av, e))
                else:
                    c.eq(nm_ + ".angvec/same_rotation", Rb, TX[:3, :3], TOL)
        # the unary minus gives that antipodal representative: a UnitQuaternion with negated components, the same rotation
        ok, qm = c.lib("-q", lambda: -q)
        if ok and c.true("-q/type", type(qm) is L.UnitQuaternion and len(qm) == 1, "-q is %s" % type(qm).__name__):
            c.eq("-q/value", np.asarray(qm.vec, dtype=float), -v, 1e-12)
            c.eq("-q/operand", np.asarray(q.vec, dtype=float), v, 0)
            ok2, e = c.lib("-q==q", lambda: qm == q)
            if ok2:
                c.true("-q==q", e is True or e == True, "(-q) == q gave %r" % (e,))  # noqa
    if "Twist3" in objs and "UnitDualQuaternion" in objs:
        ok, X2 = c.lib("Twist3->SE3->UDQ", lambda: L.UnitDualQuaternion(objs["Twist3"].SE3()))
        if ok:
            c.eq("Twist3->SE3->UDQ", m_of(X2), TX, TOL, sc)
    # base level r2q / q2r round trip and branches
    b = L.base
    ok, qq = c.lib("r2q", b.r2q, TX[:3, :3].copy())
    if ok:
        qq = np.asarray(qq, dtype=float)
        c.eq("r2q/unit", np.linalg.norm(qq), 1.0, 1e-9)
        c.eq("q2r_ref(r2q)", refs.q2r(qq), TX[:3, :3], TOL)
        ok2, Rb = c.lib("q2r", b.q2r, qq.copy())
        if ok2:
            c.eq("q2r(r2q)", Rb, TX[:3, :3], TOL)
        qref = refs.q_of(case["X"]["rot"])
        ok2, Rb = c.lib("q2r", b.q2r, qref.copy())
        if ok2:
            c.eq("q2r/value", Rb, refs.q2r(qref), 1e-12)
        ok2, e = c.lib("isequal", b.isequal, qref.copy(), -qref, unitq=True)
        if ok2:
            c.true("isequal(q,-q)", bool(e), "isequal(q, -q, unitq=True) is False")
    return c.out


def _ctor(case):
    k = 180.0 / PI if case["unit"] == "deg" else 1.0
    a = case["a"]
    unit = case["unit"]
    c = Checker("ctor", unit=unit, order=case["order"], alen=float(np.linalg.norm(case["axis"])))
    from .c05_angles import rpy_ref

    def cmp(name, builders, Rref):
        T = refs.rt(Rref, np.zeros(3))
        for rep, f in builders:
            ok, o = c.lib("%s:%s" % (name, rep), f)
            if ok:
                c.eq("%s:%s/value" % (name, rep), m_of(o), T, TOL)

    for nm, Rf in (("Rx", refs.rotx), ("Ry", refs.roty), ("Rz", refs.rotz)):
        cmp(nm, [(rep, (lambda rep=rep, nm=nm: getattr(getattr(L, rep), nm)(a[0] * k, unit))) for rep in ("SO3", "SE3", "UnitQuaternion", "Twist3")], Rf(a[0]))
    ang = [x * k for x in a]
    cmp("RPY", [(rep, (lambda rep=rep: getattr(L, rep).RPY(ang, order=case["order"], unit=unit))) for rep in ("SO3", "SE3", "UnitQuaternion")],
        rpy_ref(a[0], a[1], a[2], case["order"]))
    # the same constructors given several rows at once (multi-valued result, element i = row i)
    rows = [ang, ang[::-1], [ang[1], ang[2], ang[0]]]
    refsR = [rpy_ref(r[0] / k, r[1] / k, r[2] / k, case["order"]) for r in rows]
    for rep in ("SO3", "SE3"):
        for frm, arg in (("list", rows), ("array", np.array(rows))):
            ok, X = c.lib("RPY[N]:%s" % rep, lambda: getattr(L, rep).RPY(arg, order=case["order"], unit=unit))
            if ok and c.true("RPY[N]:%s/len" % rep, len(X) == 3, "RPY of three rows holds %d values" % len(X)):
                for i in range(3):
                    c.eq("RPY[N]:%s/value" % rep, np.asarray(X.data[i], dtype=float)[:3, :3], refsR[i], TOL, form=frm)
            ok, X = c.lib("Eul[N]:%s" % rep, lambda: getattr(L, rep).Eul(arg, unit=unit))
            if ok and len(X) == 3:
                for i in range(3):
                    r = rows[i]
                    c.eq("Eul[N]:%s/value" % rep, np.asarray(X.data[i], dtype=float)[:3, :3], refs.rotz(r[0] / k) @ refs.roty(r[1] / k) @ refs.rotz(r[2] / k), TOL, form=frm)
    # angles read back from a multi-valued unit quaternion, in the same convention and unit: one row per value, and the row
    # handed to the constructor of the same convention rebuilds that value (whatever angles were chosen)
    okq, Qm = c.lib("UnitQuaternion[N]", lambda: L.UnitQuaternion([refs.q_of_R(R_) for R_ in refsR]))
    if okq and len(Qm) == 3:
        for nm_, get, mk_ in (("rpy", lambda: Qm.rpy(order=case["order"], unit=unit), lambda r_: L.SO3.RPY(list(r_), order=case["order"], unit=unit)),
                              ("rpy/positional", lambda: Qm.rpy(unit, case["order"]), lambda r_: L.SO3.RPY(list(r_), order=case["order"], unit=unit)),
                              ("eul", lambda: Qm.eul(unit=unit), lambda r_: L.SO3.Eul(list(r_), unit=unit))):
            okr, A_ = c.lib("UnitQuaternion[N].%s" % nm_, get)
            if not okr:
                continue
            A_ = np.asarray(A_, dtype=float)
            if not c.true("UnitQuaternion[N].%s/shape" % nm_, A_.shape == (3, 3), "angles of three values have shape %s" % (A_.shape,)):
                continue
            # rows or columns: the docstring says one row per value; three values make the two layouts indistinguishable by
            # shape, so the rebuilt rotations decide
            for i in range(3):
                okb, Xi = c.lib("UnitQuaternion[N].%s/rebuild" % nm_, mk_, A_[i])
                if okb:
                    c.eq("UnitQuaternion[N].%s/rebuild/value" % nm_, np.asarray(Xi.A, dtype=float), refsR[i], TOL, index=i)
    cmp("Eul", [(rep, (lambda rep=rep: getattr(L, rep).Eul(ang, unit=unit))) for rep in ("SO3", "SE3", "UnitQuaternion")],
        refs.rotz(a[0]) @ refs.roty(a[1]) @ refs.rotz(a[2]))
    axis = list(case["axis"])
    cmp("AngVec", [(rep, (lambda rep=rep: getattr(L, rep).AngVec(a[0] * k, axis, unit=unit))) for rep in ("SO3", "SE3", "UnitQuaternion")],
        refs.rodrigues(case["axis"], a[0]))
    w = refs.unit(case["axis"]) * case["mag"]
    cmp("EulerVec", [(rep, (lambda rep=rep: getattr(L, rep).EulerVec(list(w)))) for rep in ("SO3", "SE3", "UnitQuaternion")],
        refs.expm_so3(w))
    cmp("Exp", [("SO3", lambda: L.SO3.Exp(w.copy())), ("SE3", lambda: L.SE3.Exp(np.r_[0.0, 0.0, 0.0, w])), ("Twist3", lambda: L.Twist3(np.r_[0.0, 0.0, 0.0, w]))],
        refs.expm_so3(w))
    # a general twist (rotation of up to several turns, translation with a component along the axis) through the
    # matrix, twist and dual-quaternion routes
    w2 = refs.unit(case["axis"]) * case.get("turns", case["mag"])
    tv = arr(case["t"])
    tv = tv / max(1.0, float(np.max(np.abs(tv)))) * 3.0
    Tfull = refs.mp_expm(refs.hat6(tv, w2))
    S6 = np.r_[tv, w2]
    tsc = max(1.0, float(np.max(np.abs(Tfull[:3, 3]))))
    for rep, f in (("SE3.Exp", lambda: L.SE3.Exp(S6.copy())), ("Twist3.SE3", lambda: L.Twist3(S6.copy()).SE3()), ("Twist3.exp", lambda: L.Twist3(S6.copy()).exp()),
                   ("UDQ(Twist3.SE3)", lambda: L.UnitDualQuaternion(L.Twist3(S6.copy()).SE3()).SE3()),
                   ("Twist3*Twist3", lambda: (L.Twist3(S6 / 2) * L.Twist3(S6 / 2)).SE3()),
                   ("Twist3[3].prod", lambda: L.Twist3([L.Twist3(S6 / 3), L.Twist3(S6 / 3), L.Twist3(S6 / 3)]).prod().SE3()),
                   ("Twist3[5].prod", lambda: L.Twist3([L.Twist3(S6 / 5)] * 5).prod().SE3())):
        ok, o_ = c.lib("twist:" + rep, f)
        if ok:
            c.eq("twist:%s/value" % rep, m_of(o_), Tfull, TOL, tsc)
    # exponential coordinates of the quaternion: exp of the pure quaternion w/2 is the rotation exp([w]), whatever |w|
    okq, qe = c.lib("Quaternion.Pure(w/2).exp", lambda: L.Quaternion.Pure(list(w2 / 2.0)).exp())
    if okq and float(np.linalg.norm(w2)) > 1e-6:
        c.eq("Quaternion.Pure(w/2).exp/rotation", m_of(qe)[:3, :3], Tfull[:3, :3], TOL)
    # two-vector frame: third column along a, second in the plane of (o, a)
    av = refs.unit(case["axis"])
    perp = np.cross(av, refs.unit(case["perp"]))
    if np.linalg.norm(perp) < 1e-3:
        perp = np.cross(av, [1.0, 0, 0]) if abs(av[0]) < 0.9 else np.cross(av, [0, 1.0, 0])
    perp = perp / np.linalg.norm(perp)
    o = (math.cos(case["sep"]) * av + math.sin(case["sep"]) * perp) * case["len2"]
    n = np.cross(o, case["axis"])
    n = n / np.linalg.norm(n)
    Roa = np.stack([n, np.cross(av, n), av], axis=1)
    cmp("OA", [(rep, (lambda rep=rep: getattr(L, rep).OA(list(o), axis))) for rep in ("SO3", "SE3", "UnitQuaternion")], Roa)
    return c.out


def _embed(case):
    c = Checker("embed")
    X2, Y2 = refs.pose2_of(case["X2"]), refs.pose2_of(case["Y2"])
    X3, Y3 = refs.pose3_of(case["X3"]), refs.pose3_of(case["Y3"])
    p = arr(case["p"])
    z = case["z"]
    # SO2 -> SE2
    A, Bq = L.SO2(X2[:2, :2].copy(), check=False), L.SO2(Y2[:2, :2].copy(), check=False)
    ok, e = c.lib("SO2.SE2", lambda: (A.SE2(), Bq.SE2(), (A * Bq).SE2(), A.inv().SE2()))
    if ok:
        ea, eb, eab, eai = e
        if c.true("SO2.SE2/type", all(type(x) is L.SE2 for x in e), "SO2.SE2() gave %s" % type(ea).__name__):
            c.eq("SO2.SE2/value", ea.A, refs.rt(X2[:2, :2], np.zeros(2)), TOL)
            c.eq("SO2.SE2/hom", (ea * eb).A, eab.A, TOL)
            c.eq("SO2.SE2/inv", ea.inv().A, eai.A, TOL)
            c.eq("SO2.SE2/points", np.asarray(ea * list(p[:2]), dtype=float).ravel(), np.asarray(A * list(p[:2]), dtype=float).ravel(), TOL, max(1.0, float(np.max(np.abs(p)))))
    # SO3 -> SE3
    A3, B3 = L.SO3(X3[:3, :3].copy(), check=False), L.SO3(Y3[:3, :3].copy(), check=False)
    ok, e = c.lib("SE3.SO3", lambda: (L.SE3.SO3(A3), L.SE3.SO3(B3), L.SE3.SO3(A3 * B3), L.SE3.SO3(A3.inv()), L.SE3.SO3(X3[:3, :3].copy())))
    if ok:
        ea, eb, eab, eai, em = e
        if c.true("SE3.SO3/type", all(type(x) is L.SE3 for x in e), "SE3.SO3() gave %s" % type(ea).__name__):
            c.eq("SE3.SO3/value", ea.A, refs.rt(X3[:3, :3], np.zeros(3)), TOL)
            c.eq("SE3.SO3/matrix_arg", em.A, ea.A, 0)
            c.eq("SE3.SO3/hom", (ea * eb).A, eab.A, TOL)
            c.eq("SE3.SO3/inv", ea.inv().A, eai.A, TOL)
            c.eq("SE3.SO3/points", np.asarray(ea * list(p), dtype=float).ravel(), np.asarray(A3 * list(p), dtype=float).ravel(), TOL, max(1.0, float(np.max(np.abs(p)))))
    # SE2 -> SE3
    S2a, S2b = L.SE2(X2.copy(), check=False), L.SE2(Y2.copy(), check=False)
    sc = max(1.0, float(np.max(np.abs(X2[:2, 2]))), float(np.max(np.abs(Y2[:2, 2]))), float(np.max(np.abs((X2 @ Y2)[:2, 2]))), float(np.max(np.abs(p))))
    ok, e = c.lib("SE2.SE3", lambda: (S2a.SE3(), S2b.SE3(), (S2a * S2b).SE3(), S2a.inv().SE3()))
    if ok:
        ea, eb, eab, eai = e
        if c.true("SE2.SE3/type", all(type(x) is L.SE3 and len(x) == 1 for x in e), "SE2.SE3() gave %s" % type(ea).__name__):
            want = np.eye(4)
            want[:2, :2] = X2[:2, :2]
            want[:2, 3] = X2[:2, 2]
            c.eq("SE2.SE3/value", ea.A, want, TOL, sc)
            c.eq("SE2.SE3/hom", (ea * eb).A, eab.A, TOL, sc)
            c.eq("SE2.SE3/inv", ea.inv().A, eai.A, TOL, sc)
            q2 = np.asarray(S2a * list(p[:2]), dtype=float).ravel()
            q3 = np.asarray(ea * [p[0], p[1], p[2]], dtype=float).ravel()
            c.eq("SE2.SE3/points", q3, np.r_[q2, p[2]], TOL, sc)
    ok, ez = c.lib("SE2.SE3(z)", lambda: S2a.SE3(z))
    if ok:
        want = np.eye(4)
        want[:2, :2] = X2[:2, :2]
        want[:2, 3] = X2[:2, 2]
        want[2, 3] = z
        c.eq("SE2.SE3(z)/value", ez.A, want, TOL, max(sc, abs(z)))
    # planar twist round trip
    ok, tw = c.lib("SE2.Twist2", S2a.Twist2)
    if ok:
        S = np.asarray(tw.S, dtype=float)
        c.eq("SE2.Twist2/roundtrip", refs.expm_se2(S[:2], S[2]), X2, TOL, sc)
        ok2, bk = c.lib("Twist2.SE2", tw.SE2)
        if ok2:
            c.eq("Twist2.SE2/roundtrip", bk.A, X2, TOL, sc)
        ok2, tw2 = c.lib("Twist2*Twist2", lambda: tw * S2b.Twist2())
        if ok2:
            S2 = np.asarray(tw2.S, dtype=float)
            c.eq("Twist2/hom", refs.expm_se2(S2[:2], S2[2]), X2 @ Y2, TOL, sc)
    return c.out


def _tree(case):
    Ts = [refs.pose3_of(s) for s in case["leaves"]]
    c = Checker("tree", depth=depth_of(case["tree"]))
    inter = []

    def ev_ref(t):
        if t[0] == "leaf":
            M = Ts[t[1]]
        elif t[0] == "mul":
            M = ev_ref(t[1]) @ ev_ref(t[2])
        elif t[0] == "pow":
            A = ev_ref(t[1])
            M = np.eye(4)
            for _ in range(abs(t[2])):
                M = M @ A
                inter.append(M)
            if t[2] < 0:
                M = inv4(M)
        else:
            M = inv4(ev_ref(t[1]))
        inter.append(M)
        return M

    def ev_lib(t, leaves, noinv):
        if t[0] == "leaf":
            return leaves[t[1]]
        if t[0] == "mul":
            return ev_lib(t[1], leaves, noinv) * ev_lib(t[2], leaves, noinv)
        x = ev_lib(t[1], leaves, noinv)
        if t[0] == "pow":
            return x ** t[2]
        return x.inv()

    want = ev_ref(case["tree"])
    sc = max(1.0, max(float(np.max(np.abs(M[:3, 3]))) for M in inter))
    if sc > 1e12:
        return c.out
    has_inv = "inv" in str(case["tree"])
    has_pow = "pow" in str(case["tree"])

    def mult(t):
        # how many times leaf values enter the result: the conversion of ONE leaf into another representation is good
        # to a few 1e-8 only (matrix -> quaternion of a matrix carrying rounding noise: square root of eps), and a
        # power multiplies that angle error by its exponent
        if t[0] == "leaf":
            return 1
        if t[0] == "mul":
            return mult(t[1]) + mult(t[2])
        if t[0] == "pow":
            return max(1, abs(t[2])) * mult(t[1])
        return mult(t[1])
    tol_tree = max(TOL, 1e-7 * mult(case["tree"]))
    c.feat(multiplicity=mult(case["tree"]))
    for rep in REPS:
        if rep == "UnitDualQuaternion" and has_inv:
            continue
        if has_pow and rep not in ("SO3", "SE3", "UnitQuaternion"):
            continue          # integer powers exist for the matrix classes and quaternions only
        ok, leaves = c.lib("leaves:" + rep, lambda: [to_rep(rep, T) for T in Ts])
        if not ok:
            continue
        ok, r = c.lib("eval:" + rep, ev_lib, case["tree"], leaves, False)
        if ok:
            w = refs.rt(want[:3, :3], np.zeros(3)) if rot_only(rep) else want
            c.eq("value:" + rep, m_of(r), w, tol_tree, sc)
    return c.out


def classify(case):
    if case.get("kind") in ("hist", "aug", "variant", "own"):
        return probes.classify(case)
    k = case["kind"]
    lab = {"kind:" + k: True}
    if k == "round":
        a = case["X"]["rot"]["angle"]
        tm = max(abs(x) for x in case["X"]["t"])
        ax = [abs(x) for x in case["X"]["rot"]["axis"]]
        lab.update({"angle<1e-6": a < 1e-6, "pi-angle<1e-6": PI - a < 1e-6, "|t|>1e3": tm > 1e3, "dominant_axis:%d" % int(np.argmax(ax)): True})
        lab["nontrivial"] = bool(a < 1e-6 or PI - a < 1e-6 or tm > 1e3)
    elif k == "ctor":
        al = math.sqrt(sum(x * x for x in case["axis"]))
        lab["nontrivial"] = bool(not (0.5 <= al <= 2) or case["unit"] == "deg" or case["order"] != "zyx")
    elif k == "tree":
        lab["nontrivial"] = depth_of(case["tree"]) >= 2
    else:
        lab["nontrivial"] = True
    return lab


def subchecks(tier):
    return [
        Sub("round", strategy=s_round(), n=(300, 10000), shards=(8, 16)),
        Sub("ctor", strategy=s_ctor(), n=(300, 8000), shards=(4, 16)),
        Sub("embed", strategy=s_embed(), n=(300, 8000), shards=(3, 16)),
        Sub("tree", strategy=s_tree(3 if tier == "quick" else 5), n=(200, 6000), shards=(4, 16)),
        *probes.subs(PROPERTY_ID),
    ]
