"""
C11  Interpolation: endpoints, validity, linear translation, constant-rate rotation.
"""
import math

import numpy as np
from hypothesis import strategies as st

from .. import gens, refs
from ..runner import Sub
from . import probes
from .common import L, Checker, arr

PROPERTY_ID = "C11"
RULE = ("pairs (start, end = start * delta) with relative rotation angle log-uniform 1e-12..pi-1e-6, translations to 1e6; "
        "s in {0, 1, 10^-k, 1-10^-k, uniform}, s outside [0,1], scalar and vector s; with/without start; shortest on/off; "
        "routes trinterp, trinterp2, slerp, pose.interp, UnitQuaternion.interp. Oracle: endpoints, validity, "
        "t(s)=(1-s)t0+s t1, R0'R(s)=exp(s theta' k) with (k,theta) the reference axis-angle of R0'R1 and theta' in "
        "{theta, theta-2pi} (theta when the shorter arc is requested), the same for all s of one pair; 2-D angle linear between "
        "the two atan2 angles; out-of-range s raises (3-D matrix and quaternion routes); vector s = map over scalars; all "
        "routes agree. Non-trivial: relative angle < 1e-6 or > pi/2, or negative quaternion dot product, or s within 1e-9 of "
        "an end, or vector s.")
RULE = RULE + probes.RULE_TEXT + (probes.AUG_TEXT if PROPERTY_ID in probes.AUG_PROPS else "") + probes.VARIANT_TEXT + probes.OWN_TEXT + probes.EXTRA_RULES.get(PROPERTY_ID, "")
ASSUMPTIONS = ["tolerance 1e-6 (relative to max(1,|t|) for translations), validity 1e-9",
               "antipodal quaternion pairs (|dot| > 0.999 with the long arc) are outside the domain and skipped (counted under label antipodal_skipped)",
               "2-D routes are not required to reject s outside [0,1]"]

PI = math.pi


def s_values():
    return st.one_of(st.sampled_from([0.0, 1.0, 0.5]),
                     st.integers(1, 15).map(lambda k: 10.0 ** -k),
                     st.integers(1, 15).map(lambda k: 1.0 - 10.0 ** -k),
                     gens.fl(0, 1), gens.fl(0, 1))


def rel_angle():
    return st.one_of(gens.logmag(-12, 0.49), gens.logmag(-6, 0.49).map(lambda d: PI - d), gens.fl(1e-3, PI - 1e-6), gens.fl(PI / 2, PI - 1e-6),
                     gens.logmag(-6.5, -3), gens.logmag(-6, -5.3))     # extra weight where a tolerance-sized shortcut would bite (just above the stated 1e-6)


def s_interp3():
    return st.fixed_dictionaries({
        "kind": st.just("interp3"), "start": gens.pose3(t_hi=6, lo_exp=-6), "has_start": st.booleans(),
        "daxis": gens.direction3(), "dangle": rel_angle(), "t1": gens.trans(3, -6, 6),
        "s": st.lists(s_values(), min_size=1, max_size=4), "bad_s": st.one_of(gens.logmag(-12, 1).map(lambda x: -x), gens.logmag(-12, 1).map(lambda x: 1 + x)),
        "shortest": st.booleans(), "se": st.booleans(), "flip": st.booleans(),
        # rounding-size perturbation of the end pose (what a product of valid poses looks like: trace may exceed 3 by an ulp)
        "noise1": st.one_of(st.none(), st.none(), st.none(), gens.rounding_noise())})


def s_interp2():
    return st.fixed_dictionaries({
        "kind": st.just("interp2"), "start": gens.pose2(t_hi=6), "has_start": st.booleans(),
        "end": gens.pose2(t_hi=6), "s": st.lists(s_values(), min_size=1, max_size=4), "se": st.booleans()})


def s_intdtype():
    q = st.integers(-2, 2)
    return st.fixed_dictionaries({"kind": st.just("intdtype"), "k0": q, "k1": q, "t0": st.lists(st.integers(-9, 9), min_size=3, max_size=3),
                                  "t1": st.lists(st.integers(-9, 9), min_size=3, max_size=3), "s": s_values(),
                                  "int_start": st.booleans(), "int_end": st.booleans(), "has_start": st.booleans(), "dim": st.sampled_from([2, 3]),
                                  # element type of the integer-typed poses; translations are then spread over the range of that type
                                  "itype": st.sampled_from([None, None, "int8", "int16", "int32", "int64"]),
                                  "f0": st.lists(gens.fl(-1, 1), min_size=3, max_size=3), "f1": st.lists(gens.fl(-1, 1), min_size=3, max_size=3)})


def _intdtype(case):
    """poses whose entries are all integers (quarter turns, integer translations) given as integer-typed arrays"""
    b = L.base
    dim, s = case["dim"], case["s"]
    c = Checker("intdtype", dim=dim, int_start=case["int_start"], int_end=case["int_end"])

    def pose(k, t):
        R2 = np.round(refs.rot2(k * PI / 2)) + 0.0       # + 0.0 turns -0.0 into +0.0 (atan2 distinguishes them)
        if dim == 2:
            return refs.rt(R2, np.array(t[:2], dtype=float))
        R3 = np.eye(3)
        R3[:2, :2] = R2
        return refs.rt(R3, np.array(t, dtype=float))
    it = case.get("itype")
    if it:
        hi = float(np.iinfo(it).max) if it != "int64" else 2.0 ** 40
        t0 = [int(round(x * hi * 0.97)) for x in case["f0"]]
        t1 = [int(round(x * hi * 0.97)) for x in case["f1"]]
        c.feat(itype=it)
    else:
        t0, t1 = case["t0"], case["t1"]
    T0f, T1f = pose(case["k0"], t0), pose(case["k1"], t1)
    T0 = T0f.astype(it or int) if case["int_start"] else T0f.copy()
    T1 = T1f.astype(it or int) if case["int_end"] else T1f.copy()
    f = b.trinterp2 if dim == 2 else b.trinterp
    start = T0 if case["has_start"] else None
    ok1, got = c.lib("int", f, start, T1, s)
    ok2, want = c.lib("float", f, (T0f.copy() if case["has_start"] else None), T1f.copy(), s)
    if ok1 and ok2:
        c.eq("int=float", got, want, 1e-12, max(1.0, float(np.max(np.abs(np.asarray(want, dtype=float))))))
        res = refs.se_residual(np.asarray(got, dtype=float))
        c.true("valid", res <= 1e-9, "interpolation of integer-typed poses leaves the group: residual %.3g" % res)
    c.eq("operand/end", T1, T1f, 0)
    c.eq("operand/start", T0, T0f, 0)
    return c.out


def check_case(case):
    if case.get("kind") in ("hist", "aug", "variant", "own"):
        return probes.run(case, PROPERTY_ID)
    return {"interp3": _interp3, "interp2": _interp2, "intdtype": _intdtype}[case["kind"]](case)


def _rot_check(c, site, R0, Rs_list, s_list, k, th, shortest_required):
    """R0' R(s) = exp(s th' k) with th' in {th, th-2pi}, one th' for all s"""
    cands = [th] if shortest_required else [th, th - 2 * PI]
    best = None
    for thp in cands:
        e = 0.0
        for Rs, s in zip(Rs_list, s_list):
            want = refs.rodrigues(k, s * thp) if k is not None else np.eye(3)
            e = max(e, refs.err(R0.T @ Rs, want))
        if best is None or e < best[0]:
            best = (e, thp)
    c.true(site, best[0] <= 1e-6, "rotation does not turn at constant rate about the fixed axis: error %.3g (best arc %.6g of theta %.6g)" % (best[0], best[1], th), err=best[0])
    return best[1]


def _interp3(case):
    b = L.base
    se = case["se"]
    R0 = refs.rot_of(case["start"]["rot"]) if case["has_start"] else np.eye(3)
    t0 = arr(case["start"]["t"]) if case["has_start"] else np.zeros(3)
    D = refs.rodrigues(case["daxis"], case["dangle"])
    R1 = refs.polish(R0 @ D)
    nz = case.get("noise1")
    if nz:
        Nn = np.array(nz["pat"], dtype=float).reshape(3, 3)
        R1 = R1 + nz["k"] * np.finfo(float).eps * ((Nn + Nn.T) / 2 if nz.get("sym") else Nn)
    t1 = arr(case["t1"])
    k, th = refs.axis_angle(R0.T @ R1)
    ss = case["s"]
    sc = max(1.0, float(np.max(np.abs(t0))), float(np.max(np.abs(t1))))
    c = Checker("interp3", rel_angle=case["dangle"], se=se, has_start=case["has_start"])
    T0 = refs.rt(R0, t0) if se else R0
    T1 = refs.rt(R1, t1) if se else R1
    start_arg = T0.copy() if case["has_start"] else None

    def split(M):
        M = np.asarray(M, dtype=float)
        if se:
            return M[:3, :3], M[:3, 3], M
        return M, None, M

    # the matrix routes pick the quaternion signs internally; a pair whose library quaternions are antipodal
    # (dot < -0.999) with the long arc is outside the stated domain: all matrix-route checks are skipped for it
    if _matrix_antipodal(R0, R1):
        c.feat(matrix_antipodal=True)
        return _quat_routes(c, case, R0, k, th, None, None, False)
    # ---- base.trinterp
    Rs, ok_all = [], True
    for s in ss:
        ok, M = c.lib("trinterp", b.trinterp, start_arg, T1.copy(), s)
        if not ok:
            ok_all = False
            break
        M = np.asarray(M, dtype=float)
        if not c.true("trinterp/shape", M.shape == T1.shape, "trinterp returned shape %s" % (M.shape,)):
            ok_all = False
            break
        R, t, _ = split(M)
        res = refs.se_residual(M) if se else refs.so_residual(M)
        c.true("trinterp/valid", res <= 1e-9, "interpolated value leaves the group: residual %.3g at s=%r" % (res, s), s=s)
        if se:
            c.eq("trinterp/translation", t, (1 - s) * t0 + s * t1, 1e-6, sc, s=s)
        if s == 0:
            c.eq("trinterp/s=0", M, T0, 1e-6, sc)
        if s == 1:
            c.eq("trinterp/s=1", M, T1, 1e-6, sc)
        Rs.append(R)
    arc = None
    if ok_all and Rs:
        arc = _rot_check(c, "trinterp/rotation", R0, Rs, ss, k, th, False)
    c.must_raise("trinterp/range", b.trinterp, start_arg, T1.copy(), case["bad_s"])
    # ---- class method
    cls = L.SE3 if se else L.SO3
    X1 = cls(T1.copy(), check=False)
    X0 = cls(T0.copy(), check=False) if case["has_start"] else None
    for s, R_base in zip(ss, Rs if ok_all else [None] * len(ss)):
        ok, Y = c.lib("pose.interp", lambda: X1.interp(s, X0) if X0 is not None else X1.interp(s))
        if ok and c.true("pose.interp/type", type(Y) is cls and len(Y) == 1, "interp returned %s" % type(Y).__name__):
            if R_base is not None:
                R, t, M = split(Y.A)
                c.eq("pose.interp=trinterp", R, R_base, 1e-6, s=s)
                if se:
                    c.eq("pose.interp/translation", t, (1 - s) * t0 + s * t1, 1e-6, sc, s=s)
    ok, Yv = c.lib("pose.interp/vector", lambda: X1.interp(list(ss), X0) if X0 is not None else X1.interp(list(ss)))
    if ok and ok_all:
        if c.true("pose.interp/vector/type", type(Yv) is cls and len(Yv) == len(ss), "interp over %d values of s returned %s (len %s)" % (len(ss), type(Yv).__name__, len(Yv) if hasattr(Yv, "__len__") else "?")):
            for A, R_base, s in zip(Yv.data, Rs, ss):
                c.eq("pose.interp/vector=scalar", np.asarray(A, dtype=float)[:3, :3], R_base, 1e-6, s=s)
    c.must_raise("pose.interp/range", lambda: X1.interp(case["bad_s"], X0) if X0 is not None else X1.interp(case["bad_s"]))
    return _quat_routes(c, case, R0, k, th, Rs, arc, ok_all)


def _matrix_antipodal(R0, R1):
    try:
        return float(np.dot(L.base.r2q(R0), L.base.r2q(R1))) < -0.999
    except Exception:  # noqa
        return False


def _quat_routes(c, case, R0, k, th, Rs, arc, ok_all):
    b = L.base
    ss = case["s"]
    # ---- quaternion routes built from the same rotations
    q0 = refs.q_of(case["start"]["rot"]) if case["has_start"] else np.array([1.0, 0, 0, 0])
    q1 = refs.qmul(q0, refs.q_of({"axis": case["daxis"], "angle": case["dangle"]}))
    q1 = q1 / np.linalg.norm(q1)
    if case["flip"]:
        q1 = -q1
    dot = float(np.dot(q0, q1))
    shortest = case["shortest"]
    c.feat(dot=dot, shortest=shortest)
    if not shortest and dot < -0.999:
        return c.out                       # antipodal pair with the long arc: outside the domain
    thq = th if (shortest or dot >= 0) else th - 2 * PI
    Rq = []
    okq = True
    for s in ss:
        ok, q = c.lib("slerp", b.slerp, q0.copy(), q1.copy(), s, shortest)
        if not ok:
            okq = False
            break
        q = np.asarray(q, dtype=float)
        c.eq("slerp/unit", np.linalg.norm(q), 1.0, 1e-9, s=s)
        if s == 0:
            c.true("slerp/s=0", min(refs.err(q, q0), refs.err(q, -q0)) <= 1e-6, "slerp(0) is not the start")
        if s == 1:
            c.true("slerp/s=1", min(refs.err(q, q1), refs.err(q, -q1)) <= 1e-6, "slerp(1) is not the end")
        want = refs.rodrigues(k, s * thq) if k is not None else np.eye(3)
        c.eq("slerp/rotation", R0.T @ refs.q2r(q), want, 1e-6, s=s, dot=dot)
        Rq.append(refs.q2r(q))
    c.must_raise("slerp/range", b.slerp, q0.copy(), q1.copy(), case["bad_s"], shortest)
    U0, U1 = L.UnitQuaternion([float(x) for x in q0]), L.UnitQuaternion([float(x) for x in q1])
    for i, s in enumerate(ss):
        if case["has_start"]:
            ok, U = c.lib("UnitQuaternion.interp", lambda: U0.interp(s, U1, shortest=shortest))
        else:
            ok, U = c.lib("UnitQuaternion.interp", lambda: U1.interp(s, shortest=shortest))
        if ok and c.true("UnitQuaternion.interp/type", type(U) is L.UnitQuaternion and len(U) == 1, "interp returned %s" % type(U).__name__):
            qq = np.asarray(U.vec, dtype=float)
            c.eq("UnitQuaternion.interp/unit", np.linalg.norm(qq), 1.0, 1e-9, s=s)
            want = refs.rodrigues(k, s * thq) if k is not None else np.eye(3)
            c.eq("UnitQuaternion.interp/rotation", R0.T @ refs.q2r(qq), want, 1e-6, s=s, dot=dot)
            if okq and i < len(Rq):
                c.eq("UnitQuaternion.interp=slerp", refs.q2r(qq), Rq[i], 1e-6, s=s)
    c.must_raise("UnitQuaternion.interp/range", (lambda: U0.interp(case["bad_s"], U1, shortest=shortest)) if case["has_start"] else (lambda: U1.interp(case["bad_s"], shortest=shortest)))
    # ---- the matrix route agrees with the quaternion route taken over the same arc
    if ok_all and arc is not None and okq and abs(arc - thq) < 1e-9:
        for R_a, R_b, s in zip(Rs, Rq, ss):
            c.eq("trinterp=slerp", R_a, R_b, 1e-6, s=s)
    return c.out


def _interp2(case):
    b = L.base
    se = case["se"]
    th0 = case["start"]["angle"] if case["has_start"] else 0.0
    t0 = arr(case["start"]["t"]) if case["has_start"] else np.zeros(2)
    th1, t1 = case["end"]["angle"], arr(case["end"]["t"])
    R0, R1 = refs.rot2(th0), refs.rot2(th1)
    a0 = math.atan2(R0[1, 0], R0[0, 0])
    a1 = math.atan2(R1[1, 0], R1[0, 0])
    T0 = refs.rt(R0, t0) if se else R0
    T1 = refs.rt(R1, t1) if se else R1
    sc = max(1.0, float(np.max(np.abs(t0))), float(np.max(np.abs(t1))))
    c = Checker("interp2", se=se, has_start=case["has_start"])
    start_arg = T0.copy() if case["has_start"] else None
    cls = L.SE2 if se else L.SO2
    X1 = cls(T1.copy(), check=False)
    X0 = cls(T0.copy(), check=False) if case["has_start"] else None
    outs = []
    for s in case["s"]:
        want = refs.rot2(a0 * (1 - s) + s * a1)
        want = refs.rt(want, (1 - s) * t0 + s * t1) if se else want
        ok, M = c.lib("trinterp2", b.trinterp2, start_arg, T1.copy(), s)
        if ok:
            M = np.asarray(M, dtype=float)
            if c.true("trinterp2/shape", M.shape == T1.shape, "trinterp2 returned %r" % (M,)):
                res = refs.se_residual(M) if se else refs.so_residual(M)
                c.true("trinterp2/valid", res <= 1e-9, "interpolated value leaves the group: residual %.3g" % res)
                c.eq("trinterp2/value", M, want, 1e-6, sc, s=s)
                if s == 0:
                    c.eq("trinterp2/s=0", M, T0, 1e-6, sc)
                if s == 1:
                    c.eq("trinterp2/s=1", M, T1, 1e-6, sc)
                outs.append(M)
        ok, Y = c.lib("pose.interp", lambda: X1.interp(s, X0) if X0 is not None else X1.interp(s))
        if ok and c.true("pose.interp/type", type(Y) is cls and len(Y) == 1, "interp returned %s" % type(Y).__name__):
            c.eq("pose.interp/value", Y.A, want, 1e-6, sc, s=s)
    ss = case["s"]
    ok, Yv = c.lib("pose.interp/vector", lambda: X1.interp(list(ss), X0) if X0 is not None else X1.interp(list(ss)))
    if ok and len(outs) == len(ss):
        if c.true("pose.interp/vector/type", type(Yv) is cls and len(Yv) == len(ss), "interp over %d values of s returned %s" % (len(ss), type(Yv).__name__)):
            for A, M in zip(Yv.data, outs):
                c.eq("pose.interp/vector=scalar", A, M, 1e-9, sc)
    return c.out


def classify(case):
    if case.get("kind") in ("hist", "aug", "variant", "own"):
        return probes.classify(case)
    k = case["kind"]
    if k == "intdtype":
        return {"kind:intdtype": True, "nontrivial": bool(case["int_start"] or case["int_end"])}
    lab = {"kind:" + k: True, "vector_s": len(case["s"]) > 1,
           "s_near_end": any(0 < s < 1e-9 or 0 < 1 - s < 1e-9 for s in case["s"]), "s_is_end": any(s in (0.0, 1.0) for s in case["s"]),
           "no_start": not case["has_start"]}
    if k == "interp3":
        R0 = refs.rot_of(case["start"]["rot"]) if case["has_start"] else np.eye(3)
        lab["matrix_antipodal_skipped"] = _matrix_antipodal(R0, refs.polish(R0 @ refs.rodrigues(case["daxis"], case["dangle"])))
        d = case["dangle"]
        lab.update({"rel<1e-6": d < 1e-6, "rel>pi/2": d > PI / 2, "rel_near_pi": PI - d < 1e-3, "shortest": case["shortest"], "flipped_q": case["flip"]})
        lab["nontrivial"] = bool(d < 1e-6 or d > PI / 2 or case["flip"] or lab["s_near_end"] or lab["vector_s"])
    else:
        lab["nontrivial"] = bool(lab["s_near_end"] or lab["vector_s"])
    return lab


def subchecks(tier):
    return [
        Sub("interp3", strategy=s_interp3(), n=(600, 12000), shards=(10, 16)),
        Sub("interp2", strategy=s_interp2(), n=(300, 8000), shards=(4, 16)),
        Sub("intdtype", strategy=s_intdtype(), n=(300, 4000), shards=(2, 8)),
        *probes.subs(PROPERTY_ID),
    ]
