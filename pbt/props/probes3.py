"""
Result-ownership probe (kind "own"): a value the library returned belongs to the caller.

Whatever the caller then does to it - here: overwrite every array it contains in place - must not change what the
library returns afterwards for equal inputs ("evaluating the same call twice on equal inputs returns equal outputs",
and every constructor / operation keeps returning valid members).  This catches results that are really shared
module-level constants, cached arrays (lru_cache), or buffers kept by an object.

For one call f and its arguments:
    r1 = f(args);  s1 = deep copy of r1;  scribble(r1);  r2 = f(equal fresh args)   ->   r2 must equal s1
and the arguments must not have been changed by the scribbling (a result that is a *view* of an argument is the
documented behaviour of a few accessors, listed in VIEWS, and is not judged).
"""
import contextlib
import io

import numpy as np
from hypothesis import strategies as st

from .. import gens, refs
from . import probes
from .common import L

# accessors documented / designed to return the stored array or a view of it
VIEWS = {"A", "S", "R", "t", "v", "w", "s", "vec", "inv", "X**3", "pp", "uw", "transl", "transl2", "t2r", "tr2rt", "plane"}


def scribble(r, depth=0):
    """overwrite, in place, every writable array reachable from a result"""
    if depth > 4:
        return
    if isinstance(r, np.ndarray):
        if r.flags.writeable and r.dtype.kind in "fiu" and r.size:
            try:
                r[...] = 7
            except Exception:  # noqa
                pass
        return
    d = getattr(r, "data", None)
    if isinstance(d, list) and not isinstance(r, np.ndarray):
        for e in d:
            scribble(e, depth + 1)
        return
    if isinstance(r, (list, tuple)):
        for e in r:
            scribble(e, depth + 1)
        return
    for attr in ("real", "dual"):
        if hasattr(r, attr) and type(r).__name__.endswith("DualQuaternion"):
            scribble(getattr(r, attr), depth + 1)


def base_calls():
    """[(name, tags, f(a))]: a = dict of fixed numeric arguments (fresh copies are made for every call)"""
    b = L.base
    C = []

    def add(name, tags, f):
        C.append((name, set(tags.split()), f))
    for nm in ("rotx", "roty", "rotz", "trotx", "troty", "trotz"):
        add(nm, "C01 C05 C15 C17", (lambda nm: lambda a: getattr(b, nm)(a["th"]))(nm))
        add(nm + "/deg", "C01 C15 C17", (lambda nm: lambda a: getattr(b, nm)(a["th"] * 180 / np.pi, "deg"))(nm))
        add(nm + "/0", "C01 C17", (lambda nm: lambda a: getattr(b, nm)(0))(nm))
        add(nm + "/0deg", "C01 C17", (lambda nm: lambda a: getattr(b, nm)(0.0, unit="deg"))(nm))
    add("rot2", "C01 C05 C15 C17", lambda a: b.rot2(a["th"]))
    add("rot2/0", "C01 C17", lambda a: b.rot2(0))
    add("rot2/deg", "C01 C15 C17", lambda a: b.rot2(a["th"] * 180 / np.pi, "deg"))
    add("trot2", "C01 C17", lambda a: b.trot2(a["th"]))
    add("trot2/0", "C01 C17", lambda a: b.trot2(0.0))
    add("transl/0", "C01 C06 C17", lambda a: b.transl(0, 0, 0))
    add("transl", "C01 C06 C17", lambda a: b.transl(a["v3"].copy()))
    add("transl2", "C01 C17", lambda a: b.transl2(a["v3"][:2].copy()))
    add("rpy2r", "C01 C05 C17", lambda a: b.rpy2r(list(a["v3"] * 0.3)))
    add("rpy2r/0", "C01 C05 C17", lambda a: b.rpy2r([0, 0, 0]))
    add("eul2r", "C01 C05 C17", lambda a: b.eul2r(list(a["v3"] * 0.3)))
    add("eul2r/0", "C01 C05 C17", lambda a: b.eul2r(0, 0, 0))
    add("angvec2r", "C01 C05 C17", lambda a: b.angvec2r(a["th"], list(a["v3"])))
    add("angvec2r/0", "C01 C05 C17", lambda a: b.angvec2r(0, [1, 0, 0]))
    add("oa2r", "C01 C17", lambda a: b.oa2r([0, 1, 0], [0, 0, 1]))
    add("trexp/so3", "C01 C03 C17", lambda a: b.trexp(a["v3"] * 0.3))
    add("trexp/so3/0", "C01 C03 C17", lambda a: b.trexp(np.zeros(3)))
    add("trexp/se3", "C01 C03 C17 C18", lambda a: b.trexp(a["v6"] * 0.3))
    add("trexp/se3/0", "C01 C03 C17 C18", lambda a: b.trexp(np.zeros(6)))
    add("trexp/theta0", "C01 C03 C17 C18", lambda a: b.trexp(np.r_[0.0, 0.0, 0.0, 0.0, 0.0, 1.0], 0.0))
    add("trexp2/0", "C01 C03 C17 C18", lambda a: b.trexp2(np.zeros(3)))
    add("trexp2", "C01 C03 C17 C18", lambda a: b.trexp2(a["v3"] * 0.3))
    add("trlog/eye", "C03 C17", lambda a: b.trlog(np.eye(4)))
    add("trlog/eye3", "C03 C17", lambda a: b.trlog(np.eye(3), twist=True))
    add("trlog", "C03 C17", lambda a: b.trlog(a["T4"].copy()))
    add("trlog2/eye", "C03 C17", lambda a: b.trlog2(np.eye(3)))
    add("trinv", "C02 C17", lambda a: b.trinv(a["T4"].copy()))
    add("trinterp/0", "C11 C01 C17", lambda a: b.trinterp(None, a["T4"].copy(), 0))
    add("trinterp", "C11 C01 C17", lambda a: b.trinterp(None, a["T4"].copy(), 0.4))
    add("trinterp/eye", "C11 C01 C17", lambda a: b.trinterp(None, np.eye(4), 0.4))
    add("trinterp2/eye", "C11 C01 C17", lambda a: b.trinterp2(None, np.eye(3), 0.4))
    add("trnorm", "C14 C01 C17", lambda a: b.trnorm(a["T4"].copy()))
    add("trnorm/eye", "C14 C01 C17", lambda a: b.trnorm(np.eye(3)))
    add("q2r", "C01 C04 C17", lambda a: b.q2r(a["q"].copy()))
    add("q2r/eye", "C01 C04 C17", lambda a: b.q2r([1, 0, 0, 0]))
    add("r2q/eye", "C04 C17", lambda a: b.r2q(np.eye(3)))
    add("eye", "C12 C17", lambda a: b.eye())
    add("pure", "C12 C17", lambda a: b.pure(a["v3"].copy()))
    add("unit", "C14 C12 C17", lambda a: b.unit(a["q"].copy()))
    add("conj", "C12 C17", lambda a: b.conj(a["q"].copy()))
    add("qqmul", "C12 C17", lambda a: b.qqmul(a["q"].copy(), a["q"][::-1].copy()))
    add("qpow/0", "C12 C17", lambda a: b.qpow(a["q"].copy(), 0))
    add("slerp/0", "C11 C17", lambda a: b.slerp(a["q"] / np.linalg.norm(a["q"]), np.r_[1.0, 0, 0, 0], 0))
    add("skew", "C13 C17", lambda a: b.skew(a["v3"].copy()))
    add("skew/0", "C13 C17", lambda a: b.skew([0, 0, 0]))
    add("skewa", "C13 C17", lambda a: b.skewa(a["v6"].copy()))
    add("vex", "C13 C17", lambda a: b.vex(refs.skew3(a["v3"])))
    add("adjoint", "C13 C17", lambda a: b.adjoint(a["T4"].copy()))
    add("adjoint/eye", "C13 C17", lambda a: b.adjoint(np.eye(4)))
    add("tr2jac/eye", "C13 C17", lambda a: b.tr2jac(np.eye(4)))
    add("delta2tr/0", "C13 C17", lambda a: b.delta2tr(np.zeros(6)))
    add("tr2delta/eye", "C13 C17", lambda a: b.tr2delta(np.eye(4)))
    add("unitvec", "C14 C17", lambda a: b.unitvec(a["v3"].copy()))
    add("unittwist", "C14 C17", lambda a: b.unittwist(a["v6"].copy()))
    add("cross", "C13 C17", lambda a: b.cross(a["v3"].copy(), a["v3"][::-1].copy()))
    add("getvector", "C15 C17", lambda a: b.getvector(list(a["v3"])))
    add("h2e", "C06 C17", lambda a: b.h2e(np.r_[a["v3"], 2.0]))
    add("e2h", "C06 C17", lambda a: b.e2h(a["v3"].copy()))
    add("homtrans", "C06 C17", lambda a: b.homtrans(a["T4"].copy(), a["v3"].copy()))
    add("tr2rpy/eye", "C05 C17", lambda a: b.tr2rpy(np.eye(3)))
    add("tr2eul/eye", "C05 C17", lambda a: b.tr2eul(np.eye(3)))
    add("tr2angvec/eye", "C05 C17", lambda a: tuple(b.tr2angvec(np.eye(3))))
    add("tr2xyt/eye", "C05 C17", lambda a: b.tr2xyt(np.eye(3)))
    add("rodrigues/0", "C01 C03 C17", lambda a: b.rodrigues(np.zeros(3)))
    add("rodrigues", "C01 C03 C17", lambda a: b.rodrigues(a["v3"] * 0.3))
    return C


def class_calls():
    """constructors and class-level operations returning new values"""
    C = []

    def add(name, tags, f):
        C.append((name, set(tags.split()), f))
    for cn in ("SO3", "SE3"):
        cls = lambda cn=cn: getattr(L, cn)  # noqa
        add(cn + "()", "C01 C02 C17", (lambda cls: lambda a: cls()())(cls))
        for ax in ("Rx", "Ry", "Rz"):
            add("%s.%s" % (cn, ax), "C01 C04 C17", (lambda cls, ax: lambda a: getattr(cls(), ax)(a["th"]))(cls, ax))
            add("%s.%s/0" % (cn, ax), "C01 C04 C17", (lambda cls, ax: lambda a: getattr(cls(), ax)(0))(cls, ax))
            add("%s.%s/0deg" % (cn, ax), "C01 C04 C17", (lambda cls, ax: lambda a: getattr(cls(), ax)(0.0, "deg"))(cls, ax))
        add(cn + ".RPY/0", "C01 C04 C05 C17", (lambda cls: lambda a: cls().RPY([0, 0, 0]))(cls))
        add(cn + ".Eul/0", "C01 C04 C05 C17", (lambda cls: lambda a: cls().Eul([0, 0, 0]))(cls))
        add(cn + ".AngVec/0", "C01 C04 C05 C17", (lambda cls: lambda a: cls().AngVec(0, [0, 0, 1]))(cls))
        add(cn + ".Exp/0", "C01 C03 C17", (lambda cls, cn: lambda a: cls().Exp(np.zeros(3 if cn == "SO3" else 6)))(cls, cn))
        add(cn + ".Alloc", "C10 C01 C17", (lambda cls: lambda a: cls().Alloc(2))(cls))
        add(cn + ".interp/0", "C11 C17", (lambda cls: lambda a: cls().Rx(a["th"]).interp(0))(cls))
        add(cn + ".X*inv", "C02 C17", (lambda cls: lambda a: cls().Rx(a["th"]) * cls().Rx(a["th"]).inv())(cls))
        add(cn + ".X**0", "C02 C17", (lambda cls: lambda a: cls().Rx(a["th"]) ** 0)(cls))
        add(cn + ".prod", "C01 C02 C17", (lambda cls: lambda a: cls().Rx([a["th"], 0.2]).prod())(cls))
    add("SE3(0,0,0)", "C01 C06 C17", lambda a: L.SE3(0, 0, 0))
    add("SE3.Tx/0", "C01 C17", lambda a: L.SE3.Tx(0))
    add("SE3.Delta/0", "C13 C17", lambda a: L.SE3.Delta(np.zeros(6)))
    for cn in ("SO2", "SE2"):
        cls = lambda cn=cn: getattr(L, cn)  # noqa
        add(cn + "()", "C01 C02 C17", (lambda cls: lambda a: cls()())(cls))
        add(cn + "(th)", "C01 C05 C17", (lambda cls: lambda a: cls()(a["th"]))(cls))
        add(cn + "(0)", "C01 C05 C17", (lambda cls: lambda a: cls()(0.0))(cls))
        add(cn + "(th,deg)", "C01 C15 C17", (lambda cls: lambda a: cls()(30.0, unit="deg"))(cls))
        add(cn + ".X*inv", "C02 C17", (lambda cls: lambda a: cls()(a["th"]) * cls()(a["th"]).inv())(cls))
        add(cn + ".X**0", "C02 C17", (lambda cls: lambda a: cls()(a["th"]) ** 0)(cls))
        add(cn + ".interp/0", "C11 C17", (lambda cls: lambda a: cls()(a["th"]).interp(0))(cls))
    add("SO2([a,b])", "C01 C09 C17", lambda a: L.SO2([a["th"], a["th"]]))
    add("SE2(x,y,th)", "C01 C05 C17", lambda a: L.SE2(1.0, 2.0, a["th"]))
    add("UQ()", "C01 C02 C12 C17", lambda a: L.UnitQuaternion())
    add("UQ.Rx", "C01 C04 C17", lambda a: L.UnitQuaternion.Rx(a["th"]))
    add("UQ.Rx/0", "C01 C04 C17", lambda a: L.UnitQuaternion.Rx(0))
    add("UQ.q*inv", "C02 C12 C17", lambda a: L.UnitQuaternion.Rx(a["th"]) * L.UnitQuaternion.Rx(a["th"]).inv())
    add("UQ.interp/0", "C11 C17", lambda a: L.UnitQuaternion.Rx(a["th"]).interp(0))
    add("UQ.interp/1", "C11 C17", lambda a: L.UnitQuaternion.Rx(a["th"]).interp(1))
    add("UQ.R", "C04 C17", lambda a: L.UnitQuaternion.Rx(a["th"]).R.copy() if False else L.UnitQuaternion.Rx(a["th"]).SO3())
    add("Q()", "C12 C17", lambda a: L.Quaternion())
    add("Q.matrix", "C12 C17", lambda a: L.Quaternion(a["q"].copy()).matrix)
    add("Q**0", "C12 C17", lambda a: L.Quaternion(a["q"].copy()) ** 0)
    add("Q.conj", "C12 C17", lambda a: L.Quaternion(a["q"].copy()).conj())
    add("DQ.matrix", "C12 C17", lambda a: L.DualQuaternion(L.Quaternion(a["q"].copy()), L.Quaternion(a["q"][::-1].copy())).matrix())
    add("UDQ(SE3())", "C12 C04 C17", lambda a: L.UnitDualQuaternion(L.SE3()).vec)
    add("Twist3()", "C02 C18 C17", lambda a: L.Twist3())
    add("Twist3().exp", "C03 C18 C17", lambda a: L.Twist3().exp())
    add("Twist3.exp(0)", "C03 C18 C17", lambda a: L.Twist3.Revolute([0, 0, 1], [1, 0, 0]).exp(0))
    add("Twist3.exp", "C03 C18 C17", lambda a: L.Twist3.Revolute([0, 0, 1], [1, 0, 0]).exp(a["th"]))
    add("Twist3.Ad/0", "C13 C17", lambda a: L.Twist3().Ad())
    add("Twist3.ad", "C13 C17", lambda a: L.Twist3(a["v6"].copy()).ad())
    add("Twist3.Rx/0", "C18 C04 C17", lambda a: L.Twist3.Rx(0))
    add("Twist3*SE3", "C08 C17", lambda a: L.Twist3() * L.SE3())
    add("Twist2()", "C02 C18 C17", lambda a: L.Twist2())
    add("Twist2.exp(0)", "C03 C18 C17", lambda a: L.Twist2.Revolute([1, 2]).exp(0))
    add("SE3.Ad/eye", "C13 C20 C17", lambda a: L.SE3().Ad())
    add("SE3.jacob/eye", "C13 C17", lambda a: L.SE3().jacob())
    add("Plucker.point", "C19 C17", lambda a: L.Plucker.PQ([1, 2, 3], [4, 5, 7]).point(0.0))
    add("Plucker.closest", "C19 C17", lambda a: tuple(L.Plucker.PQ([1, 2, 3], [4, 5, 7]).closest([0, 0, 0])))
    add("Plucker.pp", "C19 C17", lambda a: np.array(L.Plucker.PQ([1, 2, 3], [4, 5, 7]).pp))
    add("SI()", "C20 C17", lambda a: L.SpatialInertia().A)
    add("SI(m,r)", "C20 C17", lambda a: L.SpatialInertia(2.0, [0.1, 0.2, 0.3]).A)
    add("SV.cross", "C20 C17", lambda a: L.SpatialVelocity(a["v6"].copy()).cross(L.SpatialVelocity(a["v6"][::-1].copy())))
    add("SE3*SV", "C20 C17", lambda a: L.SE3() * L.SpatialVelocity(a["v6"].copy()))
    return C


ALL = None


def all_calls():
    global ALL
    if ALL is None:
        ALL = base_calls() + class_calls()
    return ALL


PIDS = sorted({t for _, tags, _ in [(0, {"C01", "C02", "C03", "C04", "C05", "C06", "C08", "C09", "C10", "C11", "C12", "C13", "C14", "C15", "C17", "C18", "C19", "C20"}, 0)] for t in tags})


def strategy(pid):
    names = [n for n, t, f in all_calls() if pid in t]
    return st.fixed_dictionaries({"kind": st.just("own"), "name": st.sampled_from(names), "th": st.one_of(gens.fl(-3, 3), st.sampled_from([0.5, 1.0, np.pi / 2])),
                                  "u": probes.U6, "second": st.sampled_from(names)})


def cells(pid):
    names = [n for n, t, f in all_calls() if pid in t]
    for n in names:
        for th in (0.7, np.pi / 2):
            yield {"kind": "own", "name": n, "th": th, "u": [0.3, -0.5, 0.8, 0.2, 0.7, -0.4], "second": n}


def _args(case):
    u = np.array(case["u"], dtype=float)
    v3 = u[:3] * 2 + np.array([0.0, 0.0, 0.25])
    return {"th": float(case["th"]), "v3": v3, "v6": u * 1.5 + np.array([0, 0, 0, 0, 0, 0.25]), "q": np.r_[u[3] + 1.5, u[:3]],
            "T4": refs.rt(refs.rodrigues(list(refs.unit(v3)), 0.9), u[3:] * 2)}


def _arrays(r, out, depth=0):
    """every ndarray reachable from a result (the objects themselves, not copies)"""
    if depth > 4:
        return
    if isinstance(r, np.ndarray):
        out.append(r)
        return
    d = getattr(r, "data", None)
    if isinstance(d, list) and not isinstance(r, np.ndarray):
        for e in d:
            _arrays(e, out, depth + 1)
    elif isinstance(r, (list, tuple)):
        for e in r:
            _arrays(e, out, depth + 1)
    elif type(r).__name__.endswith("DualQuaternion"):
        _arrays(getattr(r, "real", None), out, depth + 1)
        _arrays(getattr(r, "dual", None), out, depth + 1)


def check(c, case, pid):
    """r1 = f(args); the caller overwrites r1 in place; f (and a second call g) on equal fresh inputs must still give what they
    gave before.  The overwritten arrays are restored afterwards, so a shared buffer does not leak into later cases."""
    table = {n: f for n, t, f in all_calls()}
    f, g = table.get(case["name"]), table.get(case["second"])
    if f is None:
        return
    c.feat(call=case["name"], second=case["second"])
    o1, r1 = probes.outcome(f, _args(case))
    if o1[0] != "ok":
        return
    og1 = probes.outcome(g, _args(case))[0] if g is not None and g is not f else None
    arrs = []
    _arrays(r1, arrs)
    saved = [(a, a.copy()) for a in arrs if a.flags.writeable and a.dtype.kind in "fiu" and a.size]
    try:
        for a, _ in saved:
            a[...] = 7
        o2, _ = probes.outcome(f, _args(case))
        og2 = probes.outcome(g, _args(case))[0] if og1 is not None else None
    finally:
        for a, cp in saved:
            a[...] = cp
    if not probes.same(o2, o1, 1e-12):
        c.fail("%s/result_is_shared" % case["name"], "after the caller overwrote the value returned by %s, the same call on equal inputs returns %s instead of %s"
               % (case["name"], probes._short(o2), probes._short(o1)))
    elif og1 is not None and not probes.same(og2, og1, 1e-12):
        c.fail("%s/shares_buffer_with/%s" % (case["second"], case["name"]), "after the caller overwrote the value returned by %s, %s returns %s instead of %s"
               % (case["name"], case["second"], probes._short(og2), probes._short(og1)))


RULE_TEXT = (" Result ownership (sub-checks 'ownership_cells', 'ownership'): a returned value belongs to the caller; after every array in it is "
             "overwritten in place, the same call (and a second call of the table) on equal fresh inputs must return what it returned before "
             "(no shared module-level constants, cached arrays or reused buffers); zero angles / identity inputs included.")


def run(case, pid):
    from .common import Checker
    c = Checker("own")
    with contextlib.redirect_stdout(io.StringIO()):
        check(c, case, pid)
    return c.out


def classify(case):
    return {"kind:own": True, "nontrivial": True, "own:identity_input": case["name"].endswith(("/0", "/eye", "()", "/0deg", "(0)"))}


def subs(pid, n=(40, 1500)):
    from ..runner import Sub
    return [Sub("ownership_cells", gen=lambda tier: cells(pid), shards=(2, 4)),
            Sub("ownership", strategy=strategy(pid), n=n, shards=(2, 8))]
