"""
C17  Functions and operators never modify their arguments.
"""
import inspect
import operator as _op

import numpy as np
from hypothesis import strategies as st

from .. import gens, refs
from ..runner import Sub
from . import probes
from .common import L, Checker, arr

PROPERTY_ID = "C17"
RULE = ("(a) histories: a pool of values (arrays, lists, tuples, objects of every class, single- and multi-valued) on which a "
        "sequence of library callables is run, every result joining the pool so that results flow into later calls; after "
        "each call a byte-level snapshot of EVERY pool member is compared with the one taken before - only the receiver of a "
        "documented list mutator may change; each non-random call is repeated on deep copies and must give an equal result. "
        "(b) table: every entry of the C15 spec table with its arguments in list / tuple / ndarray form. (c) reflection: every "
        "public zero-argument method and property of every class, single- and multi-valued receivers. Non-trivial: a history "
        "in which a result of one call is an argument of a later call, or a multi-valued receiver, or an augmented operator. "
        "Histories come from a Hypothesis RuleBasedStateMachine (sub-check 'machine': every table callable is a rule, oracle "
        "after every step), from a list-of-steps strategy, and from exhaustive single calls and ordered pairs.")
RULE = RULE + probes.RULE_TEXT + (probes.AUG_TEXT if PROPERTY_ID in probes.AUG_PROPS else "") + probes.VARIANT_TEXT + probes.OWN_TEXT + probes.EXTRA_RULES.get(PROPERTY_ID, "")
ASSUMPTIONS = ["returning a view of an argument is not a mutation", "callables needing a display or a file (plot, animate, printline) are excluded; counted in evidence",
               "random constructors are excluded from the repeat-call clause only"]

KINDS = ["R3", "T4", "R2", "T3", "v3", "v6", "q4", "v2", "s", "SO3", "SE3", "SO2", "SE2", "UQ", "Q", "Tw3", "Tw2", "Pl", "SV", "DQ", "l3", "t3", "b6"]


# --------------------------------------------------------------------------- #
# snapshots

def snap(x):
    if isinstance(x, np.ndarray):
        return ("a", x.shape, x.dtype.str, x.tobytes())
    if isinstance(x, (list, tuple)):
        return (type(x).__name__, tuple(snap(e) for e in x))
    d = getattr(x, "data", None)
    if isinstance(d, list):
        return ("o", type(x).__name__, tuple(snap(e) for e in d))
    if hasattr(x, "real") and hasattr(x, "dual") and not isinstance(x, (int, float, complex, np.generic)):
        return ("dq", type(x).__name__, snap(x.real), snap(x.dual))
    if hasattr(x, "plane"):
        return ("plane", snap(x.plane))
    return ("s", repr(x))


def deep(x):
    if isinstance(x, np.ndarray):
        return x.copy()
    if isinstance(x, list):
        return [deep(e) for e in x]
    if isinstance(x, tuple):
        return tuple(deep(e) for e in x)
    d = getattr(x, "data", None)
    if isinstance(d, list):
        # an equal object built from the values alone: nothing cached on x is carried over
        try:
            y = x.__class__.Empty()
            y.data = [deep(e) for e in d]
            return y
        except Exception:  # noqa
            try:
                y = x.__class__.__new__(x.__class__)
                y.data = [deep(e) for e in d]
                return y
            except Exception:  # noqa
                return x
    if hasattr(x, "real") and hasattr(x, "dual") and not isinstance(x, (int, float, complex, np.generic)):
        return x.__class__(deep(x.real), deep(x.dual))
    return x


def equal_out(a, b):
    """equal results; floating-point values to 1e-12 relative (the same data in a different memory layout may be
    summed in a different order by BLAS)"""
    if snap(a) == snap(b):
        return True
    return _close(a, b)


def _close(a, b):
    if isinstance(a, np.ndarray) or isinstance(b, np.ndarray) or isinstance(a, (float, np.floating)):
        try:
            A, Bv = np.asarray(a, dtype=float), np.asarray(b, dtype=float)
        except Exception:  # noqa
            return False
        if A.shape != Bv.shape:
            return False
        if A.size == 0:
            return True
        sc = max(1.0, float(np.max(np.abs(A[np.isfinite(A)]))) if np.any(np.isfinite(A)) else 1.0)
        return bool(np.array_equal(np.isfinite(A), np.isfinite(Bv))) and bool(np.all(np.abs(np.nan_to_num(A - Bv)) <= 1e-12 * sc))
    if isinstance(a, (list, tuple)):
        return isinstance(b, (list, tuple)) and len(a) == len(b) and all(_close(x, y) for x, y in zip(a, b))
    da, db = getattr(a, "data", None), getattr(b, "data", None)
    if isinstance(da, list):
        return type(a) is type(b) and isinstance(db, list) and len(da) == len(db) and all(_close(x, y) for x, y in zip(da, db))
    if hasattr(a, "real") and hasattr(a, "dual") and hasattr(b, "real") and hasattr(b, "dual"):
        return _close(a.real, b.real) and _close(a.dual, b.dual)
    if hasattr(a, "plane") and hasattr(b, "plane"):
        return _close(a.plane, b.plane)
    return snap(a) == snap(b)


# --------------------------------------------------------------------------- #
# operation table for histories:  name -> (arg kinds, function, flags)

def ops():
    b = L.base
    O = {}

    def add(name, kinds, fn, **fl):
        O[name] = (kinds, fn, fl)
    # base functions on matrices
    for nm in ("t2r", "trinv", "trnorm", "tr2rpy", "tr2eul", "tr2angvec", "tr2jac", "trlog", "tr2delta", "transl"):
        add("b." + nm + "(T4)", ["T4"], getattr(b, nm))
    for nm in ("r2t", "tr2rpy", "tr2eul", "tr2angvec", "trlog", "r2q", "trnorm", "isrot", "isR"):
        add("b." + nm + "(R3)", ["R3"], getattr(b, nm))
    add("b.adjoint(T4)", ["T4"], b.adjoint)
    add("b.trlog(T4,twist)", ["T4"], lambda T: b.trlog(T, twist=True))
    add("b.tr2rt(T4)", ["T4"], b.tr2rt)
    add("b.rt2tr(R3,v3)", ["R3", "v3"], b.rt2tr)
    add("b.trinterp(T4,T4,s)", ["T4", "T4"], lambda A, B: b.trinterp(A, B, 0.3))
    add("b.trinterp(R3,R3,s)", ["R3", "R3"], lambda A, B: b.trinterp(A, B, 0.6))
    add("b.tr2delta(T4,T4)", ["T4", "T4"], b.tr2delta)
    add("b.homtrans(T4,v3)", ["T4", "v3"], b.homtrans)
    add("b.homtrans(T4,l3)", ["T4", "l3"], b.homtrans)
    add("b.trexp(v6)", ["v6"], b.trexp)
    add("b.trexp(v3)", ["v3"], b.trexp)
    add("b.trexp(l3)", ["l3"], b.trexp)
    add("b.skew(v3)", ["v3"], b.skew)
    add("b.skewa(v6)", ["v6"], b.skewa)
    add("b.unitvec(v3)", ["v3"], b.unitvec)
    add("b.unitvec(l3)", ["l3"], b.unitvec)
    add("b.unittwist(v6)", ["v6"], b.unittwist)
    add("b.transl(v3)", ["v3"], b.transl)
    add("b.transl(t3)", ["t3"], b.transl)
    add("b.trotx(s,t=v3)", ["s", "v3"], lambda s, v: b.trotx(s, t=v))
    add("b.rpy2r(v3)", ["v3"], b.rpy2r)
    add("b.rpy2r(l3)", ["l3"], b.rpy2r)
    add("b.eul2tr(l3)", ["l3"], b.eul2tr)
    add("b.angvec2r(s,v3)", ["s", "v3"], b.angvec2r)
    add("b.oa2r(v3,v3)", ["v3", "v3"], b.oa2r)
    add("b.removesmall(T4)", ["T4"], b.removesmall)
    add("b.e2h(v3)", ["v3"], b.e2h)
    add("b.h2e(q4)", ["q4"], b.h2e)
    add("b.getvector(l3)", ["l3"], b.getvector)
    add("b.getvector(v3,col)", ["v3"], lambda v: b.getvector(v, 3, out="col"))
    add("b.getunit(l3,deg)", ["l3"], lambda v: b.getunit(v, "deg"))
    add("b.getunit(v3,deg)", ["v3"], lambda v: b.getunit(v, "deg"))
    # 2D
    for nm in ("trinv2", "trlog2", "tr2xyt", "t2r", "ishom2"):
        add("b." + nm + "(T3)", ["T3"], getattr(b, nm))
    add("b.trlog2(R2)", ["R2"], b.trlog2)
    add("b.trinterp2(T3,T3,s)", ["T3", "T3"], lambda A, B: b.trinterp2(A, B, 0.4))
    add("b.trot2(s,t=v2)", ["s", "v2"], lambda s, v: b.trot2(s, t=v))
    add("b.homtrans(T3,v2)", ["T3", "v2"], b.homtrans)
    # quaternion functions
    for nm in ("qnorm", "unit", "conj", "q2r", "matrix", "q2v"):
        add("b." + nm + "(q4)", ["q4"], getattr(b, nm))
    add("b.qqmul(q4,q4)", ["q4", "q4"], b.qqmul)
    add("b.qvmul(q4,v3)", ["q4", "v3"], b.qvmul)
    add("b.slerp(q4,q4,s)", ["q4", "q4"], lambda p, q: b.slerp(b.unit(p), b.unit(q), 0.3))
    add("b.qpow(q4,3)", ["q4"], lambda q: b.qpow(q, 3))
    add("b.dot(q4,v3)", ["q4", "v3"], b.dot)
    # constructors from arrays / lists
    add("SO3(R3)", ["R3"], lambda R: L.SO3(R))
    add("SE3(T4)", ["T4"], lambda T: L.SE3(T))
    add("SE3([T4,T4])", ["T4", "T4"], lambda A, B: L.SE3([A, B]))
    add("SO2(R2)", ["R2"], lambda R: L.SO2(R))
    add("SE2(T3)", ["T3"], lambda T: L.SE2(T))
    add("UQ(R3)", ["R3"], lambda R: L.UnitQuaternion(R))
    add("UQ(q4)", ["q4"], lambda q: L.UnitQuaternion(q))
    add("UQ(l4)", ["q4"], lambda q: L.UnitQuaternion([float(x) for x in q]))
    add("Q(q4)", ["q4"], lambda q: L.Quaternion(q))
    add("Q(s,v3)", ["s", "v3"], lambda s, v: L.Quaternion(s, v))
    add("Tw3(v6)", ["v6"], lambda v: L.Twist3(v))
    add("Tw3(v3,v3)", ["v3", "v3"], lambda v, w: L.Twist3(v, w))
    add("Tw3(SE3)", ["SE3"], lambda X: L.Twist3(X[0]))
    add("Pl(v3,v3)", ["v3", "v3"], lambda v, w: L.Plucker.PointDir(v, [w[0], w[1], w[2] + 1.5]))
    add("SV(v6)", ["v6"], lambda v: L.SpatialVelocity(v))
    add("SE3(v3)", ["v3"], lambda v: L.SE3(v))
    add("SE3(l3)", ["l3"], lambda v: L.SE3(v))
    add("SE3.Rx(l3)", ["l3"], lambda v: L.SE3.Rx(v))
    add("SO3.RPY(l3)", ["l3"], lambda v: L.SO3.RPY(v))
    add("SO3.AngVec(s,v3)", ["s", "v3"], lambda s, v: L.SO3.AngVec(s, v))
    add("SE3.Exp(v6)", ["v6"], lambda v: L.SE3.Exp(v))
    add("SO3.Exp(v3)", ["v3"], lambda v: L.SO3.Exp(v))
    add("SE3.SO3(SO3)", ["SO3"], lambda X: L.SE3.SO3(X[0]))
    add("DQ(SE3)", ["SE3"], lambda X: L.UnitDualQuaternion(X[0]))
    # printing / string conversion (no file involved: file=None returns the string)
    add("b.trprint(T4)", ["T4"], lambda T: b.trprint(T, file=None))
    add("b.trprint(R3)", ["R3"], lambda R: b.trprint(R, file=None))
    add("b.trprint(T4,eul)", ["T4"], lambda T: b.trprint(T, orient="eul", file=None))
    add("b.trprint2(T3)", ["T3"], lambda T: b.trprint2(T, file=None))
    add("b.qprint(q4)", ["q4"], lambda q: b.qprint(q, file=None))
    for k in ("SO3", "SE3", "SO2", "SE2"):
        add("%s.printline" % k, [k], lambda X: X.printline(file=None))
        add("str(%s)" % k, [k], lambda X: str(X))
        add("repr(%s)" % k, [k], lambda X: repr(X))
    for k in ("UQ", "Q", "Tw3", "Tw2", "Pl", "SV"):
        add("str(%s)" % k, [k], lambda X: str(X))
        add("repr(%s)" % k, [k], lambda X: repr(X))
    add("str(DQ)", ["DQ"], lambda X: str(X))
    add("repr(DQ)", ["DQ"], lambda X: repr(X))
    add("str(SI)", ["v3"], lambda v: str(L.SpatialInertia(2.0, v, np.diag([1.0, 2.0, 3.0]))))
    add("repr(SI)", ["v3"], lambda v: repr(L.SpatialInertia(2.0, v, np.diag([1.0, 2.0, 3.0]))))
    add("str(Plane)", ["v3"], lambda v: str(L.Plane.PN([0.1, 0.2, 0.3], list(np.asarray(v, dtype=float) + np.array([0.0, 0.0, 4.0])))))
    add("SE3.Rand", [], lambda: L.SE3.Rand(N=2), random=True)
    add("UQ.Rand", [], lambda: L.UnitQuaternion.Rand(), random=True)
    # binary operators between objects
    binops = {"*": _op.mul, "/": _op.truediv, "+": _op.add, "-": _op.sub, "==": _op.eq, "!=": _op.ne}
    for k in ("SO3", "SE3", "SO2", "SE2"):
        for sym, f in binops.items():
            add("%s%s%s" % (k, sym, k), [k, k], f)
        add("%s**n" % k, [k], lambda X: X ** -2)
        add("%s*s" % k, [k, "s"], _op.mul)
        add("s*%s" % k, ["s", k], _op.mul)
        add("s-%s" % k, ["s", k], _op.sub)
        add("%s.inv" % k, [k], lambda X: X.inv())
        add("%s.log" % k, [k], lambda X: X.log())
        add("%s.interp" % k, [k], lambda X: X.interp(0.3))
        add("%s.norm" % k, [k], lambda X: X.norm()) if k in ("SO3", "SE3") else None
        add("%s.prod" % k, [k], lambda X: X.prod())
        add("%s.R" % k, [k], lambda X: X.R)
        add("%s.A" % k, [k], lambda X: X.A)
        add("%s[0]" % k, [k], lambda X: X[0])
        add("%s[::-1]" % k, [k], lambda X: X[::-1])
        add("%s(copy)" % k, [k], lambda X: X.__class__(X))
        add("%s([X,X])" % k, [k, k], lambda X, Y: X.__class__([X[0], Y[0]]))
        add("%s*=" % k, [k, k], lambda X, Y: _aug(X, Y, "imul"), aug=True)
        add("%s/=" % k, [k, k], lambda X, Y: _aug(X, Y, "itruediv"), aug=True)
        add("%s+=" % k, [k, k], lambda X, Y: _aug(X, Y, "iadd"), aug=True)
        add("%s-=" % k, [k, k], lambda X, Y: _aug(X, Y, "isub"), aug=True)
    add("SE3*v3", ["SE3", "v3"], lambda X, v: X * v)
    add("SE3*l3", ["SE3", "l3"], lambda X, v: X * v)
    add("SO3*v3", ["SO3", "v3"], lambda X, v: X * v)
    add("SE2*v2", ["SE2", "v2"], lambda X, v: X * v)
    add("SE3.t", ["SE3"], lambda X: X.t)
    add("SE3.rpy", ["SE3"], lambda X: X.rpy())
    add("SO3.eul", ["SO3"], lambda X: X.eul())
    add("SE3.Ad", ["SE3"], lambda X: one(X).Ad())
    add("SE3.delta", ["SE3", "SE3"], lambda X, Y: one(X).delta(one(Y)))
    add("SE3.jacob", ["SE3"], lambda X: one(X).jacob())
    add("SE3.Twist3", ["SE3"], lambda X: one(X).Twist3())
    add("SE2.xyt", ["SE2"], lambda X: X.xyt())
    add("SE2.SE3", ["SE2"], lambda X: X.SE3())
    add("SO2.SE2", ["SO2"], lambda X: X[0].SE2())
    add("SE3*Pl", ["SE3", "Pl"], lambda X, P: X[0] * P)
    add("SE3*SV", ["SE3", "SV"], lambda X, V: X[0] * V[0])
    for k in ("UQ", "Q"):
        add("%s*%s" % (k, k), [k, k], _op.mul)
        add("%s+%s" % (k, k), [k, k], _op.add)
        add("%s-%s" % (k, k), [k, k], _op.sub)
        add("%s==%s" % (k, k), [k, k], _op.eq)
        add("%s**n" % k, [k], lambda X: X ** 3)
        add("%s.conj" % k, [k], lambda X: X.conj())
        add("%s.norm" % k, [k], lambda X: X.norm())
        add("%s.vec" % k, [k], lambda X: X.vec)
        add("%s*s" % k, [k, "s"], _op.mul)
        add("%s*=" % k, [k, k], lambda X, Y: _aug(X, Y, "imul"), aug=True)
        add("%s.matrix" % k, [k], lambda X: X[0].matrix)
    add("UQ*Q", ["UQ", "Q"], _op.mul)
    add("UQ/UQ", ["UQ", "UQ"], _op.truediv)
    add("UQ*v3", ["UQ", "v3"], lambda X, v: X * v)
    add("UQ.inv", ["UQ"], lambda X: X.inv())
    add("UQ.R", ["UQ"], lambda X: X.R)
    add("UQ.SO3", ["UQ"], lambda X: X[0].SO3())
    add("UQ.SE3", ["UQ"], lambda X: X[0].SE3())
    add("UQ.rpy", ["UQ"], lambda X: X.rpy())
    add("UQ.interp", ["UQ", "UQ"], lambda X, Y: X[0].interp(0.4, Y[0]))
    add("UQ.interp/shortest", ["UQ", "UQ"], lambda X, Y: X[0].interp(0.4, Y[0], shortest=True))
    add("UQ.interp/shortest/nodest", ["UQ"], lambda X: X[0].interp(0.7, shortest=True))
    add("b.slerp(q4,q4,s,shortest)", ["q4", "q4"], lambda p, q: b.slerp(b.unit(p), -b.unit(q), 0.3, shortest=True))
    add("b.slerp(u4,u4)", ["UQ", "UQ"], lambda X, Y: b.slerp(X[0].vec, Y[0].vec, 0.3, shortest=True))
    add("UQ.angle", ["UQ", "UQ"], lambda X, Y: X[0].angle(Y[0]))
    add("UQ.dot", ["UQ", "v3"], lambda X, v: X[0].dot(v))
    add("UQ(SO3)", ["SO3"], lambda X: L.UnitQuaternion(X))
    add("Q.unit", ["Q"], lambda X: X.unit())
    add("Q.exp", ["Q"], lambda X: X[0].exp())
    add("Q.log", ["Q"], lambda X: X[0].log())
    add("Q.inner", ["Q", "Q"], lambda X, Y: X[0].inner(Y[0]))
    for k, se in (("Tw3", "SE3"), ("Tw2", "SE2")):
        add("%s*%s" % (k, k), [k, k], _op.mul)
        add("%s*%s" % (k, se), [k, se], _op.mul)
        add("%s*s" % k, [k, "s"], _op.mul)
        add("s*%s" % k, ["s", k], _op.mul)
        add("%s==%s" % (k, k), [k, k], _op.eq)
        add("%s.inv" % k, [k], lambda X: X.inv())
        add("%s.exp" % k, [k], lambda X: X[0].exp(0.7))
        add("%s.exp(list)" % k, [k], lambda X: X[0].exp([0.1, 0.2]))
        add("%s.S" % k, [k], lambda X: X.S)
        add("%s.prod" % k, [k], lambda X: X.prod())
        add("%s.unit" % k, [k], lambda X: X[0].unit)
    add("Tw3.ad", ["Tw3"], lambda X: X[0].ad())
    add("Tw3.Ad", ["Tw3"], lambda X: X[0].Ad())
    add("Tw3.SE3", ["Tw3"], lambda X: X[0].SE3())
    add("Tw3.se3", ["Tw3"], lambda X: X.se3())
    add("Tw3.line", ["Tw3"], lambda X: X.line())
    add("Tw3.pole", ["Tw3"], lambda X: X[0].pole())
    add("Tw3*SV", ["Tw3", "SV"], lambda X, V: X[0] * V[0])
    add("Tw2.SE2", ["Tw2"], lambda X: X[0].SE2())
    add("Pl.closest", ["Pl", "v3"], lambda P, x: tuple(P.closest(x)))
    add("Pl.point", ["Pl", "s"], lambda P, s: P.point(s))
    add("Pl*Pl", ["Pl", "Pl"], _op.mul)
    add("Pl==Pl", ["Pl", "Pl"], _op.eq)
    add("Pl.distance", ["Pl", "Pl"], lambda P, Q: P.distance(Q))
    add("Pl.commonperp", ["Pl", "Pl"], lambda P, Q: P.commonperp(Q))
    add("Pl.pp", ["Pl"], lambda P: P.pp)
    add("Pl.skew", ["Pl"], lambda P: P.skew)
    # augmented forms that the list base class does not define (-=, /=): they fall back to the binary operator, so the object
    # bound to the name before - and every array it shares with other objects - stays what it was
    for k in ("Q", "SV", "Tw3", "Tw2", "Pl"):
        add("%s-=" % k, [k, k], lambda X, Y: _aug(X, Y, "isub"), aug=True)
        add("%s[0]-=" % k, [k, k], lambda X, Y: _aug(X[0], Y[0], "isub"))
        add("%s/=s" % k, [k, "s"], lambda X, s_: _aug(X, s_, "itruediv"), aug=True)
    add("SV(copy)-=", ["SV", "SV"], lambda X, Y: _aug(X.__class__(X[0]), Y[0], "isub"))
    add("Pl.intersect_volume", ["Pl", "b6"], lambda P, bnd: one(P).intersect_volume(bnd))
    add("SV+SV", ["SV", "SV"], lambda A, B: A[0] + B[0])
    add("SV-SV", ["SV", "SV"], lambda A, B: A[0] - B[0])
    add("-SV", ["SV"], lambda A: -A)
    add("SV.cross", ["SV", "SV"], lambda A, B: one(A).cross(one(B)))
    add("SV@SV", ["SV", "SV"], lambda A, B: one(A) @ one(B))
    add("SI*SV", ["SV"], lambda A: L.SpatialInertia(2.0, [0.1, 0.2, 0.3], np.eye(3)) * A[0])
    add("DQ*DQ", ["DQ", "DQ"], _op.mul)
    add("DQ+DQ", ["DQ", "DQ"], _op.add)
    add("DQ.conj", ["DQ"], lambda D: D.conj())
    add("DQ.norm", ["DQ"], lambda D: D.norm())
    add("DQ.matrix", ["DQ"], lambda D: D.matrix())
    add("DQ.vec", ["DQ"], lambda D: D.vec)
    add("DQ.SE3", ["DQ"], lambda D: D.SE3())
    add("DQ*v3", ["DQ", "v3"], lambda D, v: D * v)
    # documented list mutators (receiver = first argument)
    for k in ("SO3", "SE3", "SO2", "SE2", "UQ", "Q", "Tw3", "Tw2", "SV"):
        add("%s.append" % k, [k, k], lambda X, Y: X.append(Y[0]), mutator=True)
        add("%s.extend" % k, [k, k], lambda X, Y: X.extend(Y), mutator=True)
        add("%s.insert" % k, [k, k], lambda X, Y: X.insert(0, Y[0]), mutator=True)
        add("%s.reverse" % k, [k], lambda X: X.reverse(), mutator=True)
        add("%s.setitem" % k, [k, k], lambda X, Y: X.__setitem__(0, Y[0]), mutator=True)
        add("%s.pop" % k, [k], lambda X: X.pop() if len(X) > 1 else None, mutator=True)
        # a receiver holding no values: the result must own its list (a later mutation of it may not reach the argument)
        add("%s.Empty+extend" % k, [k], lambda X: (lambda a: (a.extend(X), a)[1])(type(X).Empty()))
        add("%s.Empty+append" % k, [k], lambda X: (lambda a: (a.append(X[0]), a)[1])(type(X).Empty()))
        add("%s.clear+extend" % k, [k, k], lambda X, Y: (X.clear(), X.extend(Y))[1], mutator=True)
        add("%s.copyctor" % k, [k], lambda X: type(X)(X))
        add("%s.slice" % k, [k], lambda X: X[0:len(X)])
    return {k: v for k, v in O.items() if v is not None}


_CANARY_OBJ = None


def _canary(reset=False):
    """observable process-global state that no library call may change: 'the same call on equal inputs returns equal outputs'
    also across an intervening, unrelated call.  Every history starts from NumPy's default options, so a leak is reproducible."""
    global _CANARY_OBJ
    if reset:
        np.set_printoptions(edgeitems=3, infstr="inf", linewidth=75, nanstr="nan", precision=8, suppress=False, threshold=1000, formatter=None, sign="-", floatmode="maxprec", legacy=False)
        np.seterr(divide="warn", over="warn", under="ignore", invalid="warn")
    if _CANARY_OBJ is None:
        _CANARY_OBJ = (L.SO3(refs.rodrigues([0.3, -0.5, 0.8], 1.1), check=False), L.Quaternion([1.0, 0.123456789, -2.5, 1e-5]), np.array([1.0 / 3.0, 2e-7, 12345.678]))
    po = np.get_printoptions()
    return (tuple(sorted((k, repr(v)) for k, v in po.items())), tuple(sorted(np.geterr().items())), repr(_CANARY_OBJ[0]), str(_CANARY_OBJ[1]), repr(_CANARY_OBJ[2]))


def one(X):
    """the object itself if it holds one value (so that anything it caches is reused), else its first element"""
    return X if len(X) == 1 else X[0]


def _aug(X, Y, name):
    """X op= Y : the object bound to X before must stay unchanged; returns the new value"""
    return getattr(_op, name)(X, Y)


_OPS = None


def optable():
    global _OPS
    if _OPS is None:
        _OPS = ops()
    return _OPS


def kind_of(x):
    if isinstance(x, np.ndarray) and x.dtype.kind == "f":
        return {(3, 3): None, (4, 4): "T4", (2, 2): "R2", (3,): "v3", (6,): "v6", (4,): "q4", (2,): "v2"}.get(x.shape)
    for k, cn in (("SE3", "SE3"), ("SO3", "SO3"), ("SE2", "SE2"), ("SO2", "SO2"), ("UQ", "UnitQuaternion"), ("Q", "Quaternion"), ("Tw3", "Twist3"),
                  ("Tw2", "Twist2"), ("Pl", "Plucker"), ("SV", "SpatialVelocity"), ("DQ", "UnitDualQuaternion")):
        if type(x) is getattr(L, cn):
            if k in ("Pl",) and len(x) != 1:
                return None
            if hasattr(x, "__len__") and len(x) == 0:
                return None
            return k
    return None


def initial_pool(seeds):
    T = [refs.pose3_of(s) for s in seeds["p3"]]
    T2 = [refs.pose2_of(s) for s in seeds["p2"]]
    pool = {k: [] for k in KINDS}
    for M in T:
        pool["T4"].append(M.copy())
        pool["R3"].append(M[:3, :3].copy())
    Tres = refs.rt(refs.rotx(np.pi), np.array([1.2e-16, -0.0, 1.0]))       # residue 1.2e-16, -0.0 and sin(pi) entries
    pool["T4"].append(Tres.copy())
    pool["R3"].append(Tres[:3, :3].copy())
    # the same kind of values held column-major (transposed copies, MATLAB data): for those a transposed VIEW of the argument
    # is C-contiguous, which "ascontiguousarray(T.T)" style code then writes into
    pool["T4"].append(np.asfortranarray(T[1].copy()))
    pool["R3"].append(np.asfortranarray(T[2][:3, :3].copy()))
    for M in T2:
        pool["T3"].append(M.copy())
        pool["R2"].append(M[:2, :2].copy())
    pool["T3"].append(np.asfortranarray(T2[1].copy()))
    pool["R2"].append(np.asfortranarray(T2[2][:2, :2].copy()))
    for v in seeds["v6"]:
        v = arr(v)
        pool["v6"].append(v.copy())
        pool["v3"].append(v[:3].copy() + np.array([0.1, 0.2, 0.3]))
        pool["v2"].append(v[:2].copy())
        pool["q4"].append(v[:4].copy() + np.array([1.0, 0, 0, 0.5]))
        pool["l3"].append([float(x) for x in v[3:6]])
        pool["t3"].append(tuple(float(x) for x in v[1:4]))
    pool["s"] = [float(seeds["s"]), 0.25, 2]
    pool["b6"] = [np.array([-5.0, 5.0, -5.0, 5.0, -5.0, 5.0]), np.array([-2.0, 3.0, -1.0, 4.0, 0.0, 6.0]), np.array([[-4.0, 4.0], [-3.0, 3.0], [-6.0, 6.0]])]   # axis-aligned volumes
    pool["SO3"] = [L.SO3(T[0][:3, :3].copy()), L.SO3([M[:3, :3].copy() for M in T])]
    pool["SE3"] = [L.SE3(T[0].copy()), L.SE3([M.copy() for M in T]), L.SE3(Tres.copy(), check=False), L.SE3(np.asfortranarray(T[2].copy()))]
    pool["SO2"] = [L.SO2(T2[0][:2, :2].copy()), L.SO2([M[:2, :2].copy() for M in T2])]
    pool["SE2"] = [L.SE2(T2[0].copy()), L.SE2([M.copy() for M in T2]), L.SE2(refs.rt(refs.rot2(np.pi), [3.3e-17, -0.0]), check=False),
                   L.SE2(np.asfortranarray(T2[1].copy()))]
    qs = [refs.q_of(s["rot"]) for s in seeds["p3"]]
    pool["UQ"] = [L.UnitQuaternion(qs[0].copy()), L.UnitQuaternion([q.copy() for q in qs]),
                  L.UnitQuaternion([float(-x) for x in qs[0]]), L.UnitQuaternion([-qs[1], qs[2], -qs[0]])]   # both halves of the double cover
    pool["Q"] = [L.Quaternion(pool["q4"][0].copy()), L.Quaternion([q.copy() for q in pool["q4"]])]
    tw = [np.r_[arr(s["t"]), refs.unit(s["rot"]["axis"]) * min(s["rot"]["angle"], 3.0)] for s in seeds["p3"]]
    pool["Tw3"] = [L.Twist3(tw[0].copy()), L.Twist3([t.copy() for t in tw])]
    tw2 = [np.r_[arr(s["t"]), s["angle"]] for s in seeds["p2"]]
    pool["Tw2"] = [L.Twist2(tw2[0].copy()), L.Twist2([t.copy() for t in tw2])]
    pool["Pl"] = [L.Plucker.PointDir([1.0, 2.0, 3.0], [0.5, 1.0, -1.0]), L.Plucker.PQ([0.0, 1.0, 2.0], [3.0, -1.0, 0.5])]
    pool["SV"] = [L.SpatialVelocity(pool["v6"][0].copy()), L.SpatialVelocity([v.copy() for v in pool["v6"]])]
    pool["DQ"] = [L.UnitDualQuaternion(L.SE3(T[0].copy())), L.UnitDualQuaternion(L.SE3(T[1].copy()))]
    return pool


def s_history(maxlen):
    names = sorted(optable())
    seeds = st.fixed_dictionaries({
        "p3": st.lists(gens.pose3(t_hi=2, lo_exp=-3), min_size=3, max_size=3),
        "p2": st.lists(gens.pose2(t_hi=2), min_size=3, max_size=3),
        "v6": st.lists(st.lists(gens.fl(-3, 3), min_size=6, max_size=6), min_size=3, max_size=3),
        "s": gens.fl(0.1, 0.9)})
    step = st.tuples(st.sampled_from(names), st.integers(0, 50), st.integers(0, 50)).map(list)
    return st.fixed_dictionaries({"kind": st.just("history"), "seeds": seeds, "steps": st.lists(step, min_size=1, max_size=maxlen)})


def machine_spec():
    """stateful form: every library callable of the table is one rule (arguments = indices into the pool of values and
    earlier results); the runner appends each fired rule to 'steps' and runs the oracle on the history so far"""
    seeds = st.fixed_dictionaries({
        "p3": st.lists(gens.pose3(t_hi=2, lo_exp=-3), min_size=3, max_size=3),
        "p2": st.lists(gens.pose2(t_hi=2), min_size=3, max_size=3),
        "v6": st.lists(st.lists(gens.fl(-3, 3), min_size=6, max_size=6), min_size=3, max_size=3),
        "s": gens.fl(0.1, 0.9)})
    rules = {name: st.tuples(st.just(name), st.integers(0, 50), st.integers(0, 50)).map(list) for name in sorted(optable())}
    return {"init": st.fixed_dictionaries({"kind": st.just("history"), "seeds": seeds}), "key": "steps", "rules": rules}


DEFAULT_SEEDS = {
    "p3": [{"rot": {"axis": [0.3, -0.5, 0.8], "angle": 1.1, "via": "rod"}, "t": [1.0, -2.0, 3.0]},
           {"rot": {"axis": [-0.6, 0.2, 0.4], "angle": 0.7, "via": "rod"}, "t": [0.5, 4.0, -1.0]},
           {"rot": {"axis": [0.1, 0.9, -0.3], "angle": 2.3, "via": "rod"}, "t": [-3.0, 0.25, 2.0]}],
    "p2": [{"angle": 0.7, "t": [1.0, -2.0]}, {"angle": -1.9, "t": [0.5, 4.0]}, {"angle": 2.6, "t": [-3.0, 0.25]}],
    "v6": [[1.0, -2.0, 3.0, 0.5, 2.0, -1.0], [0.5, 1.0, -1.0, 2.0, -3.0, 1.5], [2.0, 0.25, 1.0, -1.0, 0.75, 3.0]], "s": 0.3}


def gen_each_op(tier):
    """every operation once on every combination of the first two pool members of each kind"""
    for name in sorted(optable()):
        for i in range(5):
            for j in range(3):
                yield {"kind": "history", "seeds": DEFAULT_SEEDS, "steps": [[name, i, j]]}


def gen_pairs(tier):
    """every ordered pair of operations (the result of the first is in the pool for the second)"""
    names = sorted(optable())
    sel = names if tier != "quick" else names[::3]
    for a in sel:
        for b2 in names:
            yield {"kind": "history", "seeds": DEFAULT_SEEDS, "steps": [[a, 1, 0], [b2, 99, 98]]}


def s_geom():
    return st.fixed_dictionaries({"kind": st.just("geom"), "p": st.lists(gens.fl(-3, 3), min_size=3, max_size=3), "d1": gens.direction3(), "d2": gens.direction3(),
                                  "len": st.sampled_from([1.0, 2.0, 0.5, 3.0]), "len2": st.sampled_from([None, None, 1.0, 4.0]),
                                  "n": gens.direction3(), "nlen": st.sampled_from([1.0, 2.0, 0.25]), "x": st.lists(gens.fl(-3, 3), min_size=3, max_size=3),
                                  "T": gens.pose3(t_hi=1)})


def gen_geom(tier):
    for ln in (1.0, 2.0, 0.5):
        for ln2 in (None, 1.0, 4.0):
            for nl in (1.0, 2.0):
                yield {"kind": "geom", "p": [1.0, 2.0, 3.0], "d1": [1.0, 0.0, 0.0], "d2": [0.0, 1.0, 0.0], "len": ln, "len2": ln2, "n": [0.0, 0.6, 0.8], "nlen": nl,
                       "x": [0.5, -1.0, 2.0], "T": {"rot": {"axis": [0.3, -0.5, 0.8], "angle": 0.7, "via": "rod"}, "t": [0.5, 1.0, -1.0]}}
                yield {"kind": "geom", "p": [-2.0, 0.5, 1.0], "d1": [0.6, 0.0, 0.8], "d2": [0.0, -1.0, 0.0], "len": ln, "len2": ln2, "n": [1.0, 0.0, 0.0], "nlen": nl,
                       "x": [1.5, 1.0, -2.0], "T": {"rot": {"axis": [1.0, 0.0, 0.0], "angle": 1.2, "via": "rod"}, "t": [0.0, 2.0, 1.0]}}


def _geom(case):
    """line / plane operands: two lines that meet in a point (direction vectors of equal or different, unit or non-unit
    length), a Plane object with a non-unit normal; every Plucker method leaves both lines, the plane and the arrays unchanged"""
    c = Checker("geom")
    p = np.array(case["p"], dtype=float)
    u1, u2 = refs.unit(case["d1"]), refs.unit(case["d2"])
    if float(np.linalg.norm(np.cross(u1, u2))) < 0.2:
        u2 = refs.unit(np.cross(u1, [0.3, 0.5, 0.8]))
    l1, l2 = case["len"], case["len2"] or case["len"]
    nrm = refs.unit(case["n"])
    if abs(float(np.dot(nrm, u1))) < 0.2:
        nrm = refs.unit(nrm + u1)
    try:
        L1 = L.Plucker.PointDir(list(p), list(u1 * l1))
        L2 = L.Plucker.PointDir(list(p), list(u2 * l2))
        PL = L.Plane.PN(list(p + np.array([0.5, 0.25, -1.0])), list(nrm * case["nlen"]))
        X = L.SE3(refs.pose3_of(case["T"]), check=False)
    except Exception as e:  # noqa
        c.fail("setup", "constructing the operands raised %r" % e)
        return c.out
    xv = np.array(case["x"], dtype=float)
    coeff = np.r_[nrm * case["nlen"], -1.5]
    operands = {"line1": L1, "line2": L2, "plane": PL, "x": xv, "coeff": coeff, "pose": X}
    ops = [("intersects", lambda: L1.intersects(L2)), ("^", lambda: L1 ^ L2), ("|", lambda: L1 | L2), ("==", lambda: L1 == L2), ("!=", lambda: L1 != L2),
           ("*", lambda: L1 * L2), ("distance", lambda: L1.distance(L2)), ("commonperp", lambda: L1.commonperp(L2)), ("isparallel", lambda: L1.isparallel(L2)),
           ("closest", lambda: L1.closest(xv)), ("contains", lambda: L1.contains(xv)), ("point", lambda: L1.point(0.7)),
           ("intersect_plane(Plane)", lambda: L1.intersect_plane(PL)), ("intersect_plane(array)", lambda: L1.intersect_plane(coeff)),
           ("Plane.contains", lambda: PL.contains(xv)), ("SE3*line", lambda: X * L1), ("pp", lambda: L1.pp), ("uw", lambda: L1.uw), ("ppd", lambda: L1.ppd),
           ("skew", lambda: L1.skew), ("str", lambda: str(L1)), ("str(Plane)", lambda: str(PL)), ("intersect_volume", lambda: L1.intersect_volume(np.array([-5.0, 5, -5, 5, -5, 5])))]
    for name, f in ops:
        before = {k: snap(v) for k, v in operands.items()}
        try:
            f()
        except Exception:  # noqa  (a rejected call must not modify anything either)
            pass
        for k, v in operands.items():
            if snap(v) != before[k]:
                c.fail("%s/mutated_%s" % (name, k), "Plucker.%s changed its operand '%s' (%s)" % (name, k, type(v).__name__), op=name, operand=k)
                return c.out
    return c.out


def check_case(case):
    if case.get("kind") in ("hist", "aug", "variant", "own"):
        return probes.run(case, PROPERTY_ID)
    if case["kind"] == "geom":
        return _geom(case)
    if case["kind"] == "history":
        return _history(case)
    if case["kind"] == "table":
        return _table(case)
    return _reflect(case)


def _history(case):
    c = Checker("history")
    pool = initial_pool(case["seeds"])
    table = optable()
    used_result = False
    nres = 0
    canary0 = _canary(reset=True)
    for step, (name, i, j) in enumerate(case["steps"]):
        kinds, fn, fl = table[name]
        args = []
        okk = True
        for pos, k in enumerate(kinds):
            if not pool[k]:
                okk = False
                break
            idx = (i if pos == 0 else j)
            # high indices address the most recent members (results of earlier calls)
            lst = pool[k]
            a = lst[-1 - (99 - idx) % len(lst)] if idx >= 90 else lst[idx % len(lst)]
            args.append(a)
        if not okk:
            continue
        everything = [x for k in KINDS for x in pool[k]]
        before = [snap(x) for x in everything]
        copies = [deep(a) for a in args]
        try:
            res = fn(*args)
            exc = None
        except Exception as e:  # noqa
            res, exc = None, e
        after = [snap(x) for x in everything]
        receiver = args[0] if fl.get("mutator") and args else None
        for x, b0, a0 in zip(everything, before, after):
            if b0 != a0:
                if receiver is not None and x is receiver:
                    continue
                role = "argument" if any(x is a for a in args) else "bystander"
                c.fail(name + "/mutated_" + role, "%s changed a %s of type %s%s" % (name, role, type(x).__name__, " (call raised %r)" % exc if exc else ""), op=name, role=role, step=step)
                return c.out
        if _canary() != canary0:
            c.fail(name + "/global_state", "%s changed process-global state (NumPy print / error options or the text form of an unrelated object): %r -> %r"
                   % (name, canary0, _canary()), op=name)
            return c.out
        if fl.get("aug") and exc is None and res is args[0]:
            c.fail(name + "/inplace", "augmented operator returned its left operand object", op=name)
        # repeatability on equal inputs
        if exc is None and not fl.get("random") and not fl.get("mutator"):
            try:
                res2 = fn(*copies)
            except Exception as e:  # noqa
                c.fail(name + "/repeat_raised", "second call on equal inputs raised %r" % e, op=name)
            else:
                if not equal_out(res, res2):
                    c.fail(name + "/repeat_differs", "two calls on equal inputs gave different results", op=name)
        if exc is None and res is not None:
            k = kind_of(res)
            if k is not None and len(pool[k]) < 12:
                pool[k].append(res)
                nres += 1
    return c.out


# ---- (b) spec table of C15 ---------------------------------------------------

def gen_table(tier):
    from . import c15_forms
    raw = [[1.0, -2.0, 3.0, 0.5, 2.0, -1.0, 4.0, 0.25], [0.5, 1.0, -1.0, 2.0, -3.0, 1.5, 0.75, -2.0]]
    for name in sorted(c15_forms.table()):
        for form in ("list", "tuple", "array", "row", "col"):
            yield {"kind": "table", "name": name, "form": form, "raw": raw, "anylen": 3, "ints": False}


def _table(case):
    from . import c15_forms
    sp = c15_forms.table()[case["name"]]
    c = Checker("table", name=sp.name, form=case["form"])
    if case["form"] not in sp.forms:
        return c.out
    vals = c15_forms._args(sp, case)
    if vals is None:
        return c.out
    args = [c15_forms.realise(v, case["form"], False) for v in vals]
    before = [snap(a) for a in args]
    try:
        r1 = sp.fn(args)
    except Exception:  # noqa
        r1 = None
    after = [snap(a) for a in args]
    for k, (b0, a0) in enumerate(zip(before, after)):
        c.true(sp.name + "/mutated_argument", b0 == a0, "%s modified its argument %d given as %s" % (sp.name, k, case["form"]), op=sp.name)
    try:
        r2 = sp.fn([c15_forms.realise(v, case["form"], False) for v in vals])
    except Exception:  # noqa
        r2 = None
    c.true(sp.name + "/repeat_differs", c15_forms.same_out(r1, r2), "two calls on equal inputs gave different results", op=sp.name)
    return c.out


# ---- (c) reflection over public zero-argument members ------------------------

SKIP = {"plot", "animate", "printline", "clear", "reverse", "pop", "sort", "copy", "Rand", "Empty", "Alloc", "about"}
REFLECT_CLASSES = ["SO2", "SE2", "SO3", "SE3", "Quaternion", "UnitQuaternion", "Twist2", "Twist3", "Plucker", "SpatialVelocity", "SpatialAcceleration",
                   "SpatialForce", "SpatialMomentum", "SpatialInertia", "DualQuaternion", "UnitDualQuaternion"]


def members(cn):
    cls = getattr(L, cn)
    out = []
    for name in sorted(dir(cls)):
        if name.startswith("_") or name in SKIP:
            continue
        try:
            attr = inspect.getattr_static(cls, name)
        except AttributeError:
            continue
        if isinstance(attr, property):
            out.append((name, "property"))
        elif isinstance(attr, (staticmethod, classmethod)):
            continue
        elif callable(attr):
            try:
                sig = inspect.signature(attr)
            except (TypeError, ValueError):
                continue
            req = [p for p in list(sig.parameters.values())[1:] if p.default is inspect._empty and p.kind in (p.POSITIONAL_ONLY, p.POSITIONAL_OR_KEYWORD)]
            if not req:
                out.append((name, "method"))
    return out


def gen_reflect(tier):
    for cn in REFLECT_CLASSES:
        for name, kind in members(cn):
            for multi in (False, True):
                yield {"kind": "reflect", "cls": cn, "member": name, "mkind": kind, "multi": multi}


def _receiver(cn, multi):
    pool = initial_pool(DEFAULT_SEEDS)
    m = {"SO2": "SO2", "SE2": "SE2", "SO3": "SO3", "SE3": "SE3", "Quaternion": "Q", "UnitQuaternion": "UQ", "Twist2": "Tw2", "Twist3": "Tw3",
         "Plucker": "Pl", "SpatialVelocity": "SV"}
    if cn in m:
        return pool[m[cn]][1 if multi and cn != "Plucker" else 0]
    v = [arr(x) for x in DEFAULT_SEEDS["v6"]]
    if cn in ("SpatialAcceleration", "SpatialForce", "SpatialMomentum"):
        cls = getattr(L, cn)
        return cls([x.copy() for x in v]) if multi else cls(v[0].copy())
    if cn == "SpatialInertia":
        return L.SpatialInertia(2.0, [0.1, 0.2, 0.3], np.diag([1.0, 2.0, 3.0]))
    if cn == "DualQuaternion":
        return L.DualQuaternion(L.Quaternion(v[0][:4].copy()), L.Quaternion(v[1][:4].copy()))
    return pool["DQ"][0]


def _reflect(case):
    cn, name = case["cls"], case["member"]
    c = Checker("reflect", cls=cn, member=name, multi=case["multi"])
    X = _receiver(cn, case["multi"])
    before = snap(X)
    try:
        r = getattr(X, name)
        if case["mkind"] == "method":
            r = r()
    except Exception:  # noqa  (many accessors are single-valued only: raising is fine, mutating is not)
        r = None
    c.true("%s.%s/mutated_receiver" % (cn, name), snap(X) == before, "%s.%s modified its receiver" % (cn, name), op="%s.%s" % (cn, name))
    return c.out


def classify(case):
    if case.get("kind") in ("hist", "aug", "variant", "own"):
        return probes.classify(case)
    k = case["kind"]
    lab = {"kind:" + k: True}
    if k == "history":
        steps = case["steps"]
        t = optable()
        lab["len>=2"] = len(steps) >= 2
        lab["result_reused"] = any(s[1] >= 90 or s[2] >= 90 for s in steps[1:])
        lab["augmented"] = any(t[s[0]][2].get("aug") for s in steps)
        lab["mutator"] = any(t[s[0]][2].get("mutator") for s in steps)
        lab["multi_receiver"] = any(s[1] % 2 == 1 for s in steps)
        lab["nontrivial"] = bool(lab["result_reused"] or lab["augmented"] or lab["multi_receiver"])
    elif k == "table":
        lab["nontrivial"] = case["form"] != "list"
    elif k == "geom":
        lab["nontrivial"] = case["len"] != 1.0 or case["nlen"] != 1.0
        lab["equal_nonunit_directions"] = case["len"] != 1.0 and case["len2"] in (None, case["len"])
    else:
        lab["nontrivial"] = case["multi"]
    return lab


def extra_evidence(tier):
    n = {cn: len(members(cn)) for cn in REFLECT_CLASSES}
    return {"history_operations": len(optable()), "reflected_members": n, "excluded_members": sorted(SKIP)}


def subchecks(tier):
    return [
        Sub("each_op", gen=gen_each_op, shards=(8, 16)),
        Sub("pairs", gen=gen_pairs, shards=(16, 16)),
        Sub("table", gen=gen_table, shards=(2, 4)),
        Sub("reflect", gen=gen_reflect, shards=(2, 4)),
        Sub("geometry_cells", gen=gen_geom, shards=(2, 4)),
        Sub("geometry", strategy=s_geom(), n=(60, 1500), shards=(2, 8)),
        Sub("histories", strategy=s_history(12 if tier == "quick" else 40), n=(150, 3000), shards=(8, 16)),
        Sub("machine", machine=machine_spec, n=(30, 600), shards=(8, 16), steps=(10, 30)),
        *probes.subs(PROPERTY_ID),
    ]
