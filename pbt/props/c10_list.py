"""
C10  List behaviour matches a Python list of the element values.

case = {"kind": "ops", "cls": name, "start": ["alloc"|"list"|"empty", n], "ops": [[op, args...], ...]}

Oracle: a Python list of element arrays subjected to the same operations.
"""
import itertools

import numpy as np
from hypothesis import strategies as st

from ..runner import Sub, V
from .. import refs

PROPERTY_ID = "C10"
RULE = ("operation histories over {get, slice, iter, append, extend, insert, pop, del, set, reverse, clear, "
        "construct-from-list, copy, Empty, Alloc and rejected (other-class / multi-valued / out-of-range) operations} "
        "interpreted on the object and on a Python list of distinct tagged element arrays; compared after every step. "
        "Non-trivial: the history has a mutation followed by a slice or negative index, or reaches length 0, or contains "
        "a rejected operation; distinct = distinct JSON case (class, start, op list). Histories come from a Hypothesis "
        "RuleBasedStateMachine (sub-check 'machine': one rule per operation, oracle after every step - each prefix counts "
        "as one evaluation), from a list-of-operations strategy, and from exhaustive enumeration of short sequences.")
RULE = RULE + (" Start states also include objects built from tuples / lists of arrays with check=False / check=True, from vectorised "
               "constructors (SE3(Nx3), Rx(list), SO2(list)) and from quaternion row arrays, with a sibling object built from the "
               "same container that must stay unchanged; indices are handed over as Python ints or as NumPy integers (idxtype); "
               "iter_mutate keeps an iterator alive across a mutation; the arguments of append / extend are re-compared after "
               "every later operation.")
ASSUMPTIONS = [
    "elements are distinct valid values generated per class from integer tags (no library constructor involved)",
    "UnitQuaternion elements compared to 1e-12 (constructor re-normalises), all others bit-exact",
    "slice assignment and list + / * are outside the listed operations and not exercised",
]

CLASSES = ["SO2", "SE2", "SO3", "SE3", "Quaternion", "UnitQuaternion", "Twist2", "Twist3",
           "Plucker", "SpatialVelocity", "SpatialForce"]
OTHER = {"SO2": "SE2", "SE2": "SO2", "SO3": "SE3", "SE3": "SO3", "Quaternion": "UnitQuaternion",
         "UnitQuaternion": "Quaternion", "Twist2": "Twist3", "Twist3": "Twist2", "Plucker": "Twist3",
         "SpatialVelocity": "SpatialAcceleration", "SpatialForce": "SpatialMomentum",
         "SpatialAcceleration": "SpatialVelocity", "SpatialMomentum": "SpatialForce"}


def get_class(name):
    import spatialmath
    from spatialmath import geom3d, spatialvector
    if name == "Plucker":
        return geom3d.Plucker
    if name.startswith("Spatial"):
        return getattr(spatialvector, name)
    return getattr(spatialmath, name)


def _rot3(k):
    a, b = 0.1 * (k + 1), 0.07 * (k + 2)
    ca, sa, cb, sb = np.cos(a), np.sin(a), np.cos(b), np.sin(b)
    Rz = np.array([[ca, -sa, 0], [sa, ca, 0], [0, 0, 1.0]])
    Rx = np.array([[1.0, 0, 0], [0, cb, -sb], [0, sb, cb]])
    return Rz @ Rx


def elem(name, k):
    """distinct valid element value number k of class name"""
    if name == "SO2":
        a = 0.1 * (k + 1)
        return np.array([[np.cos(a), -np.sin(a)], [np.sin(a), np.cos(a)]])
    if name == "SE2":
        a = 0.1 * (k + 1)
        return np.array([[np.cos(a), -np.sin(a), k + 1.0], [np.sin(a), np.cos(a), -2.0 * k], [0, 0, 1.0]])
    if name == "SO3":
        return _rot3(k)
    if name == "SE3":
        T = np.eye(4)
        T[:3, :3] = _rot3(k)
        T[:3, 3] = [k + 1.0, -k, 0.5 * k]
        return T
    if name == "Quaternion":
        return np.array([k + 1.0, 2.0, -3.0, 4.0 + k])
    if name == "UnitQuaternion":
        q = np.array([k + 1.0, 2.0, -3.0, 4.0 + 2 * k])
        return q / np.linalg.norm(q)
    if name == "Twist2":
        return np.array([k + 1.0, -2.0, 0.5 + k])
    if name in ("Twist3", "Plucker") or name.startswith("Spatial"):
        return np.array([k + 1.0, 2.0, 3.0, -4.0, 5.0, 6.0 + k])
    raise ValueError(name)


def ident(name):
    cls = get_class(name)
    return np.array(cls._identity(), dtype=float)


def make(name, arrays):
    """object of class name holding the given arrays (any number, including 0)"""
    cls = get_class(name)
    if len(arrays) == 0:
        return cls.Empty()
    if len(arrays) == 1:
        return cls(arrays[0].copy())
    return cls([a.copy() for a in arrays])


def same(name, a, b):
    if not isinstance(a, np.ndarray) or a.shape != b.shape:
        return False
    if name == "UnitQuaternion":
        return bool(np.max(np.abs(a - b)) <= 1e-12)
    if LOOSE_RUN[0] and name in LOOSE:
        return bool(np.max(np.abs(a - b)) <= 1e-12)
    return bool(np.array_equal(a, b))


def compare(name, obj, model, site, feats, out):
    cls = get_class(name)
    if type(obj) is not cls:
        out.append(V(site + "/class", "object is %s, expected %s" % (type(obj).__name__, name), **feats))
        return False
    try:
        n = len(obj)
    except Exception as e:  # noqa
        out.append(V(site + "/len", "len() raised %r" % e, **feats))
        return False
    if n != len(model):
        out.append(V(site + "/len", "len %d, list has %d" % (n, len(model)), **feats))
        return False
    for i, (a, b) in enumerate(zip(obj.data, model)):
        if not same(name, a, b):
            out.append(V(site + "/value", "element %d is %r, list has %r" % (i, a, b), **feats))
            return False
    return True


MUTATORS = {"append", "extend", "insert", "pop", "del", "set", "reverse", "clear", "iter_mutate"}
NEGATIVE = {"append_other", "append_multi", "insert_other", "insert_multi", "set_other", "set_multi",
            "extend_other", "append_array", "ctor_list_other", "ctor_list_other_first",
            "append_empty", "insert_empty", "set_empty", "ctor_list_multi", "ctor_list_empty_elem"}


LOOSE_RUN = [False]
CHECK_KW = {"SO2", "SE2", "SO3", "SE3", "Twist2", "Twist3", "Quaternion", "UnitQuaternion"}


def check_case(case):
    name = case["cls"]
    cls = get_class(name)
    out = []
    LOOSE_RUN[0] = case["start"][0] == "loose"
    counter = [100]

    def fresh():
        counter[0] += 1
        return elem(name, counter[0])

    kind, n = case["start"]
    feats = {"cls": name, "start": kind}
    sibling = None
    if kind == "alloc":
        obj = cls.Alloc(n)
        model = [ident(name) for _ in range(n)]
    elif kind == "empty":
        obj = cls.Empty()
        model = []
    elif kind == "default":
        obj = cls() if not name.startswith("Spatial") else cls(ident(name))
        model = [ident(name)]
    elif kind == "loose":
        # values as the library's own operators produce them: valid members to ~1e-13 only, stored without
        # re-validation (check=False), e.g. a product of several rotations or an interpolated pose
        if name not in LOOSE:
            return out
        model = [elem(name, k) * (1.0 + 6e-14) if name != "SE2" and name != "SE3" else _loose_se(elem(name, k)) for k in range(n)]
        obj = cls([m.copy() for m in model], check=False) if name != "UnitQuaternion" else cls([m.copy() for m in model], norm=False, check=False)
        if name == "UnitQuaternion":
            obj.data = [m.copy() for m in model]
    elif kind == "array":
        # documented constructor from an N x 4 array of quaternion rows (one value per row)
        if name != "UnitQuaternion" or n < 2:
            return out
        model = [elem(name, k) for k in range(n)]
        obj = cls(np.array([m.copy() for m in model]))
        model = [m.copy() for m in model]
    elif kind in ("arrays_tuple", "arrays_nocheck", "arrays_tuple_nocheck", "arrays_check"):
        # a list / tuple of element arrays, with the documented check option either way
        if name not in CHECK_KW or n < 1:
            return out
        model = [elem(name, k) for k in range(n)]
        container = [m.copy() for m in model]
        if "tuple" in kind:
            container = tuple(container)
        kw = {"check": False} if "nocheck" in kind else ({"check": True} if kind == "arrays_check" else {})
        obj = cls(container, **kw)
        sibling = (cls(container, **kw), [m.copy() for m in model])
        model = [m.copy() for m in model]
    elif kind == "rows":
        # vectorised constructors: one value per row / per angle
        if name not in ("SE3", "SO3", "SO2") or n < 2:
            return out
        if name == "SE3" and n != 3:
            rows = np.array([[k + 1.0, -0.5 * k, 2.0 + k] for k in range(n)])
            obj = cls(rows)
            model = [refs.rt(np.eye(3), r) for r in rows]
        else:
            th = [0.1 * (k + 1) for k in range(n)]
            if name == "SE3":
                obj, model = cls.Rx(th), [refs.rt(refs.rotx(t), [0, 0, 0]) for t in th]
            elif name == "SO3":
                obj, model = cls.Rz(np.array(th)), [refs.rotz(t) for t in th]
            else:
                obj, model = cls(th), [refs.rot2(t) for t in th]
        LOOSE_RUN[0] = True       # values to rounding (1e-12), not bit-for-bit
    else:
        model = [elem(name, k) for k in range(n)]
        obj = make(name, model)
        model = [m.copy() for m in model]
    if not compare(name, obj, model, "start:" + kind, feats, out):
        return out
    if sibling is not None:
        try:
            _check_case_ops(case, name, cls, obj, model, out, fresh, feats)
        finally:
            # an object built from the same container received no operation at all
            compare(name, sibling[0], sibling[1], "sibling_of_same_container", {"cls": name, "start": kind}, out)
        return out
    return _check_case_ops(case, name, cls, obj, model, out, fresh, feats)


def _check_case_ops(case, name, cls, obj, model, out, fresh, feats):

    shadows = []          # (object, frozen expected values): copies, slices and indexed results are independent lists
    _it = case.get("idxtype")

    def IX(i):
        """the index as handed to the OBJECT: a Python int, or (idxtype) the NumPy integer a loop over an index array yields"""
        if _it is None or i is None or isinstance(i, bool):
            return i
        return getattr(np, _it)(i)

    def shadow(x, vals):
        shadows.append((x, [np.array(v, copy=True) for v in vals]))
        del shadows[:-4]

    for step, op in enumerate(case["ops"]):
        o = op[0]
        feats = {"cls": name, "op": o, "len": len(model), "step": step}
        site = "op:" + o
        if o == "get":
            i = op[1]
            try:
                want = model[i]
                wexc = None
            except IndexError:
                wexc = IndexError
            try:
                r = obj[IX(i)]
                gexc = None
            except Exception as e:  # noqa
                gexc = e
            if wexc is not None:
                if gexc is None:
                    out.append(V(site + "/noraise", "index %d of length %d returned %r" % (i, len(model), r), **feats))
                elif not isinstance(gexc, IndexError):
                    out.append(V(site + "/exctype", "index %d of length %d raised %r, not IndexError" % (i, len(model), gexc), **feats))
            elif gexc is not None:
                out.append(V(site + "/raised", "index %d of length %d raised %r" % (i, len(model), gexc), **feats))
            else:
                if compare(name, r, [want], site, feats, out):
                    if not same(name, np.asarray(r.A), want):
                        out.append(V(site + "/A", ".A of indexed element differs", **feats))
                    shadow(r, [want])
        elif o == "slice":
            sl = slice(op[1], op[2], op[3])
            want = model[sl]
            sl = slice(IX(op[1]), IX(op[2]), IX(op[3]))
            feats["empty_result"] = len(want) == 0
            feats["simple"] = bool((op[1] is None or 0 <= op[1] <= len(model)) and (op[2] is not None and 0 <= op[2] <= len(model))
                                   and (op[3] is None or op[3] > 0))
            try:
                r = obj[sl]
            except Exception as e:  # noqa
                out.append(V(site + "/raised", "[%s:%s:%s] of length %d raised %r; list gives %d elements" % (
                    op[1], op[2], op[3], len(model), e, len(want)), **feats))
            else:
                if compare(name, r, want, site, feats, out):
                    shadow(r, want)
        elif o == "iter":
            try:
                items = [x for x in obj]
            except Exception as e:  # noqa
                out.append(V(site + "/raised", "iteration raised %r" % e, **feats))
            else:
                if len(items) != len(model):
                    out.append(V(site + "/len", "iteration gave %d items, list has %d" % (len(items), len(model)), **feats))
                else:
                    for x, w in zip(items, model):
                        if not compare(name, x, [w], site, feats, out):
                            break
        elif o == "nested_iter":
            # two live iterations over the same object are independent, as for a list
            try:
                pairs = [(a, b_) for a in obj for b_ in obj]
                zipped = list(zip(obj, obj))
                inner = []
                for a in obj:
                    inner.append(len(list(obj)))
            except Exception as e:  # noqa
                out.append(V(site + "/raised", "nested iteration raised %r" % e, **feats))
            else:
                n_ = len(model)
                if len(pairs) != n_ * n_ or len(zipped) != n_ or inner != [n_] * n_:
                    out.append(V(site + "/count", "nested iteration over %d values: %d pairs (list: %d), zip(x, x) %d items, list(x) inside a loop %r"
                                 % (n_, len(pairs), n_ * n_, len(zipped), inner), **feats))
                elif n_ >= 2:
                    compare(name, pairs[1][0], [model[0]], site + "/outer", feats, out)
                    compare(name, pairs[1][1], [model[1]], site + "/inner", feats, out)
        elif o == "iter_mutate":
            # a live iterator across a list operation: visits exactly what an iterator over the Python list visits
            k, mut = op[1], op[2]
            x = fresh()
            ito, itm = iter(obj), iter(model)
            seen_o, seen_m = [], []

            def step_both():
                try:
                    vm = next(itm)
                    em = None
                except StopIteration:
                    vm, em = None, StopIteration
                try:
                    vo = next(ito)
                    eo = None
                except StopIteration:
                    vo, eo = None, StopIteration
                except Exception as e:  # noqa
                    vo, eo = None, e
                return vm, em, vo, eo
            ok_iter = True
            for phase in (0, 1):
                for _ in range(k if phase == 0 else 12):
                    vm, em, vo, eo = step_both()
                    if em is StopIteration and eo is StopIteration:
                        break
                    if (em is None) != (eo is None) or (eo is not None and eo is not StopIteration):
                        out.append(V(site + "/visit", "iterator over the object %s where the list iterator %s (mutation %s after %d steps)" % (
                            "raised %r" % (eo,) if eo is not None and eo is not StopIteration else ("stopped" if eo is StopIteration else "yielded a value"),
                            "stopped" if em is StopIteration else "yielded a value", mut, k), mutation=mut, **feats))
                        ok_iter = False
                        break
                    if em is None:
                        if not compare(name, vo, [vm], site + "/element", feats, out):
                            ok_iter = False
                            break
                if not ok_iter or phase == 1:
                    break
                try:
                    if mut == "append":
                        obj.append(make(name, [x])); model.append(x)
                    elif mut == "insert0":
                        obj.insert(0, make(name, [x])); model.insert(0, x)
                    elif mut == "pop" and model:
                        obj.pop(); model.pop()
                    elif mut == "del0" and model:
                        del obj[0]
                        del model[0]
                    elif mut == "clear":
                        obj.clear(); model.clear()
                    elif mut == "set0" and model:
                        obj[0] = make(name, [x]); model[0] = x
                    elif mut == "extend":
                        obj.extend(make(name, [x, x])); model.extend([x, x])
                except Exception as e:  # noqa
                    out.append(V(site + "/mutation_raised", "%s while an iterator is live raised %r" % (mut, e), mutation=mut, **feats))
                    break
            del ito, itm
            compare(name, obj, model, site + "/after", feats, out)
        elif o == "append":
            x = fresh()
            arg_ = make(name, [x])
            _mut(out, site, feats, lambda: obj.append(arg_), lambda: model.append(x))
            shadow(arg_, [x])             # the appended / extending object stays what it was, whatever happens to the receiver later
        elif o == "extend":
            xs = [fresh() for _ in range(op[1])]
            feats["k"] = op[1]
            arg_ = make(name, xs)
            _mut(out, site, feats, lambda: obj.extend(arg_), lambda: model.extend(xs))
            shadow(arg_, xs)
        elif o == "insert":
            x = fresh()
            _mut(out, site, feats, lambda: obj.insert(IX(op[1]), make(name, [x])), lambda: model.insert(op[1], x))
        elif o == "pop":
            args = () if op[1] is None else (op[1],)
            try:
                want = model.pop(*args)
                wexc = None
            except IndexError:
                wexc = IndexError
            try:
                r = obj.pop(*[IX(a_) for a_ in args])
                gexc = None
            except Exception as e:  # noqa
                gexc = e
            if wexc is not None:
                if gexc is None:
                    out.append(V(site + "/noraise", "pop%r on length %d returned a value" % (args, len(model)), **feats))
                elif not isinstance(gexc, IndexError):
                    out.append(V(site + "/exctype", "pop%r on length %d raised %r, not IndexError" % (args, len(model), gexc), **feats))
            elif gexc is not None:
                out.append(V(site + "/raised", "pop%r raised %r" % (args, gexc), **feats))
            else:
                compare(name, r, [want], site + "/ret", feats, out)
        elif o == "del":
            i = op[1]

            def d1():
                del obj[IX(i)]

            def d2():
                del model[i]
            _mut_idx(out, site, feats, d1, d2)
        elif o == "set":
            i = op[1]
            x = fresh()

            def s1():
                obj[IX(i)] = make(name, [x])

            def s2():
                model[i] = x
            _mut_idx(out, site, feats, s1, s2)
        elif o == "reverse":
            _mut(out, site, feats, obj.reverse, model.reverse)
        elif o == "clear":
            _mut(out, site, feats, obj.clear, model.clear)
        elif o == "ctor_list":
            if len(model) > 0:
                try:
                    parts = [obj[i] for i in range(len(model))] if LOOSE_RUN[0] else [make(name, [m]) for m in model]
                    old = obj
                    obj = cls(parts)
                    shadow(old, model)
                except Exception as e:  # noqa
                    out.append(V(site + "/raised", "construction from a list of %d objects raised %r" % (len(model), e), **feats))
        elif o == "copy":
            if not name.startswith("Spatial") or len(model) == 1:
                try:
                    obj2 = cls(obj)
                except Exception as e:  # noqa
                    out.append(V(site + "/raised", "copy construction raised %r" % e, **feats))
                else:
                    shadow(obj, model)       # the source of a copy keeps its own list
                    obj = obj2
        elif o in NEGATIVE:
            other = OTHER[name]
            feats["other"] = other
            if o == "append_other":
                f = lambda: obj.append(make(other, [elem(other, 7)]))
            elif o == "append_multi":
                f = lambda: obj.append(make(name, [elem(name, 7), elem(name, 8)]))
            elif o == "append_array":
                f = lambda: obj.append(elem(name, 7))
            elif o == "insert_other":
                f = lambda: obj.insert(op[1], make(other, [elem(other, 7)]))
            elif o == "insert_multi":
                f = lambda: obj.insert(op[1], make(name, [elem(name, 7), elem(name, 8)]))
            elif o == "set_other":
                f = lambda: obj.__setitem__(_inrange(op[1], len(model)), make(other, [elem(other, 7)]))
            elif o == "set_multi":
                f = lambda: obj.__setitem__(_inrange(op[1], len(model)), make(name, [elem(name, 7), elem(name, 8)]))
            elif o == "extend_other":
                f = lambda: obj.extend(make(other, [elem(other, 7), elem(other, 8)]))
            elif o == "append_empty":           # a zero-valued object where a single value is required
                f = lambda: obj.append(cls.Empty())
            elif o == "insert_empty":
                f = lambda: obj.insert(op[1], cls.Empty())
            elif o == "set_empty":
                f = lambda: obj.__setitem__(_inrange(op[1], len(model)), cls.Empty())
            elif o == "ctor_list_multi":        # the list form takes single-valued objects only
                f = lambda: cls([make(name, [elem(name, 7)]), make(name, [elem(name, 8), elem(name, 9)])])
            elif o == "ctor_list_empty_elem":
                f = lambda: cls([make(name, [elem(name, 7)]), cls.Empty()])
            elif o == "ctor_list_other":
                f = lambda: cls([make(name, [elem(name, 7)]), make(other, [elem(other, 8)])])
            elif o == "ctor_list_other_first":
                f = lambda: cls([make(other, [elem(other, 8)]), make(name, [elem(name, 7)])])
            try:
                f()
            except Exception:  # noqa  any exception is a rejection
                pass
            else:
                out.append(V(site + "/accepted", "%s was accepted on a %s of length %d" % (o, name, len(model)), **feats))
        else:
            raise ValueError("unknown op %r" % (op,))
        if not compare(name, obj, model, site + "/after", feats, out):
            return out
        for sh_obj, sh_vals in shadows:
            if sh_obj is obj:
                continue
            if not compare(name, sh_obj, sh_vals, site + "/aliased_result", feats, out):
                return out
        if out and len(out) > 8:
            return out
    return out


LOOSE = ("SO2", "SE2", "SO3", "SE3", "UnitQuaternion")


def _loose_se(T):
    T = T.copy()
    T[:-1, :-1] *= (1.0 + 6e-14)
    return T


def _inrange(i, n):
    if n == 0:
        return 0
    return i % n


def _mut(out, site, feats, f_obj, f_model):
    f_model()
    try:
        r = f_obj()
    except Exception as e:  # noqa
        out.append(V(site + "/raised", "raised %r" % e, **feats))
        return
    if r is not None:
        out.append(V(site + "/ret", "mutator returned %r" % (r,), **feats))


def _mut_idx(out, site, feats, f_obj, f_model):
    try:
        f_model()
        wexc = None
    except IndexError:
        wexc = IndexError
    try:
        f_obj()
        gexc = None
    except Exception as e:  # noqa
        gexc = e
    if wexc is not None:
        if gexc is None:
            out.append(V(site + "/noraise", "out-of-range index accepted", **feats))
        elif not isinstance(gexc, IndexError):
            out.append(V(site + "/exctype", "out-of-range index raised %r, not IndexError" % gexc, **feats))
    elif gexc is not None:
        out.append(V(site + "/raised", "raised %r" % gexc, **feats))


def classify(case):
    ops = case["ops"]
    names = [o[0] for o in ops]
    mut_seen = False
    mut_then = False
    for o in ops:
        if o[0] in MUTATORS:
            mut_seen = True
        elif mut_seen and (o[0] == "slice" or (o[0] == "get" and o[1] < 0)):
            mut_then = True
    # does the model reach length 0 ?
    reaches0 = case["start"][0] == "empty" or case["start"][1] == 0 or "clear" in names
    rejected = any(n in NEGATIVE for n in names)
    oob = any(o[0] in ("get", "del", "set", "pop") and o[1] is not None and abs(o[1]) > 4 for o in ops)
    return {
        "nontrivial": bool(mut_then or reaches0 or rejected or oob),
        "mutation_then_slice_or_negidx": mut_then,
        "reaches_len0": bool(reaches0),
        "rejected_op": rejected,
        "has_slice": "slice" in names,
        "neg_step_slice": any(o[0] == "slice" and o[3] is not None and o[3] < 0 for o in ops),
        "len>=10": len(ops) >= 10,
        "cls:" + case["cls"]: True,
    }


# --------------------------------------------------------------------------- #
# generators

IDX = st.integers(-7, 7)
OPTIDX = st.one_of(st.none(), IDX)
STEP = st.sampled_from([None, 1, -1, 2, -2, 3, -3])


def op_strategy():
    return st.one_of(
        st.tuples(st.just("get"), IDX).map(list),
        st.tuples(st.just("slice"), OPTIDX, OPTIDX, STEP).map(list),
        st.just(["iter"]), st.just(["nested_iter"]),
        st.just(["append"]),
        st.tuples(st.just("extend"), st.integers(0, 3)).map(list),
        st.tuples(st.just("insert"), IDX).map(list),
        st.tuples(st.just("pop"), OPTIDX).map(list),
        st.tuples(st.just("del"), IDX).map(list),
        st.tuples(st.just("set"), IDX).map(list),
        st.just(["reverse"]),
        st.just(["clear"]),
        st.just(["ctor_list"]),
        st.just(["copy"]),
        st.tuples(st.just("iter_mutate"), st.integers(0, 3), st.sampled_from(["append", "insert0", "pop", "del0", "clear", "set0", "extend"])).map(list),
        st.tuples(st.sampled_from(["append_other", "append_multi", "extend_other", "append_array", "ctor_list_other", "ctor_list_other_first",
                                   "append_empty", "ctor_list_multi", "ctor_list_empty_elem"])).map(list),
        st.tuples(st.sampled_from(["insert_other", "insert_multi", "set_other", "set_multi", "insert_empty", "set_empty"]), IDX).map(list),
    )


def machine_spec():
    """stateful (RuleBasedStateMachine) form of the same histories: one rule per list operation, arguments generated
    per rule; the runner appends each fired rule to the op list and runs the oracle on the history so far"""
    rules = {
        "get": st.tuples(st.just("get"), IDX).map(list),
        "slice": st.tuples(st.just("slice"), OPTIDX, OPTIDX, STEP).map(list),
        "iter": st.just(["iter"]), "nested_iter": st.just(["nested_iter"]), "append": st.just(["append"]),
        "extend": st.tuples(st.just("extend"), st.integers(0, 3)).map(list),
        "insert": st.tuples(st.just("insert"), IDX).map(list),
        "pop": st.tuples(st.just("pop"), OPTIDX).map(list),
        "del": st.tuples(st.just("del"), IDX).map(list),
        "set": st.tuples(st.just("set"), IDX).map(list),
        "reverse": st.just(["reverse"]), "clear": st.just(["clear"]), "ctor_list": st.just(["ctor_list"]), "copy": st.just(["copy"]),
        "iter_mutate": st.tuples(st.just("iter_mutate"), st.integers(0, 3), st.sampled_from(["append", "insert0", "pop", "del0", "clear", "set0", "extend"])).map(list),
    }
    for nm in ("append_other", "append_multi", "extend_other", "append_array", "ctor_list_other", "ctor_list_other_first", "append_empty", "ctor_list_multi", "ctor_list_empty_elem"):
        rules[nm] = st.just([nm])
    for nm in ("insert_other", "insert_multi", "set_other", "set_multi", "insert_empty", "set_empty"):
        rules[nm] = st.tuples(st.just(nm), IDX).map(list)
    init = st.fixed_dictionaries({"kind": st.just("ops"), "cls": st.sampled_from(CLASSES), "start": start_strategy(), "idxtype": st.sampled_from(IDXTYPES)})
    return {"init": init, "key": "ops", "rules": rules}


def start_strategy():
    return st.one_of(st.tuples(st.just("alloc"), st.integers(0, 4)), st.tuples(st.just("list"), st.integers(1, 4)),
                     st.tuples(st.just("loose"), st.integers(1, 4)), st.tuples(st.just("array"), st.integers(2, 4)),
                     st.tuples(st.sampled_from(["arrays_tuple", "arrays_nocheck", "arrays_tuple_nocheck", "arrays_check", "rows"]), st.integers(1, 4)),
                     st.just(("empty", 0)), st.just(("default", 1))).map(list)


IDXTYPES = [None, None, None, "int64", "int32", "intp", "int8"]


def history_strategy(maxlen):
    return st.fixed_dictionaries({
        "kind": st.just("ops"), "idxtype": st.sampled_from(IDXTYPES),
        "cls": st.sampled_from(CLASSES),
        "start": start_strategy(),
        "ops": st.lists(op_strategy(), min_size=1, max_size=maxlen),
    })


def gen_slices(tier):
    vals = [None] + list(range(-7, 8))
    steps = [None, 1, -1, 2, -2, 3, -3]
    for name in CLASSES:
        for n in range(0, 6):
            start = ["list", n] if n > 0 else ["empty", 0]
            for a, b, c in itertools.product(vals, vals, steps):
                yield {"kind": "ops", "cls": name, "start": start, "ops": [["slice", a, b, c]]}


def gen_indices(tier):
    for name in LOOSE:
        for n in range(1, 5):
            for o in (["get", -1], ["get", 0], ["slice", 1, None, None], ["slice", None, None, -1], ["iter"], ["pop", None], ["pop", 0], ["copy"], ["ctor_list"]):
                yield {"kind": "ops", "cls": name, "start": ["loose", n], "ops": [o, ["iter"]]}
    for name in CLASSES:
        for n in range(0, 6):
            start = ["list", n] if n > 0 else ["empty", 0]
            for i in range(-7, 8):
                for o in ("get", "del", "set", "pop", "insert"):
                    yield {"kind": "ops", "cls": name, "start": start, "ops": [[o, i], ["iter"]]}
                    for it in ("int64", "int8"):          # the index as a NumPy integer (what looping over an index array yields)
                        yield {"kind": "ops", "cls": name, "start": start, "ops": [[o, i], ["iter"]], "idxtype": it}
            for k in range(0, 4):
                for mut in ["append", "insert0", "pop", "del0", "clear", "set0", "extend"]:
                    yield {"kind": "ops", "cls": name, "start": start, "ops": [["iter_mutate", k, mut], ["iter"]]}


ALPHABET = [["nested_iter"], ["get", -1], ["get", 0], ["slice", 1, None, None], ["slice", None, -1, None], ["slice", None, None, -1],
            ["append"], ["extend", 2], ["extend", 1], ["insert", 0], ["insert", -1], ["pop", None], ["pop", 0],
            ["del", 0], ["del", -1], ["set", 0], ["set", -1], ["reverse"], ["clear"], ["ctor_list"],
            ["append_other"], ["append_multi"], ["copy"], ["ctor_list_other"], ["append_empty"], ["insert_empty", 0], ["set_empty", 0], ["ctor_list_multi"], ["ctor_list_empty_elem"]]


def gen_sequences(tier):
    maxlen = 3 if tier == "quick" else 4
    classes = CLASSES
    for name in classes:
        for n in range(0, 5):
            start = ["list", n] if n > 0 else ["empty", 0]
            for L in range(1, maxlen + 1):
                # the two leading classes get every length; the others share the base-class
                # code and get full enumeration up to maxlen-1 in quick to keep it fast
                if tier == "quick" and L == maxlen and name not in ("SE3", "UnitQuaternion", "Twist3", "SO2"):
                    continue
                for seq in itertools.product(ALPHABET, repeat=L):
                    yield {"kind": "ops", "cls": name, "start": start, "ops": [list(o) for o in seq]}
    # every single and every pair of operations from the other documented ways of building a multi-valued object
    for name in sorted(CHECK_KW):
        for kind in ("arrays_tuple", "arrays_nocheck", "arrays_tuple_nocheck", "arrays_check"):
            for n in (1, 3):
                for L in (1, 2):
                    if L == 2 and name not in ("SE3", "Twist3", "UnitQuaternion"):
                        continue
                    for seq in itertools.product(ALPHABET, repeat=L):
                        yield {"kind": "ops", "cls": name, "start": [kind, n], "ops": [list(o) for o in seq]}
    for name in ("SE3", "SO3", "SO2"):
        for n in (2, 3, 4):
            for L in (1, 2):
                if L == 2 and name != "SE3":
                    continue
                for seq in itertools.product(ALPHABET, repeat=L):
                    yield {"kind": "ops", "cls": name, "start": ["rows", n], "ops": [list(o) for o in seq]}
    # every single and every pair of operations from the array-of-rows start state
    for n in (2, 3):
        for L in (1, 2):
            for seq in itertools.product(ALPHABET, repeat=L):
                yield {"kind": "ops", "cls": "UnitQuaternion", "start": ["array", n], "ops": [list(o) for o in seq]}


def subchecks(tier):
    return [
        Sub("slices", gen=gen_slices, shards=(8, 16)),
        Sub("indices", gen=gen_indices, shards=(4, 8)),
        Sub("sequences", gen=gen_sequences, shards=(16, 16)),
        Sub("histories", strategy=history_strategy(30 if tier == "quick" else 60), n=(400, 6000), shards=(8, 16)),
        Sub("machine", machine=machine_spec, n=(60, 1500), shards=(8, 16), steps=(25, 50)),
    ]
