"""
C15  Argument forms and units are interchangeable.

A spec table lists every callable of the base package export list (and the class
constructors / methods) that takes a vector, angle, unit or order argument.
"""
import math

import numpy as np
from hypothesis import strategies as st

from .. import gens, refs
from ..runner import Sub, HarnessError
from . import probes
from .common import fresh_str, L, Checker, arr

PROPERTY_ID = "C15"
RULE = ("spec table over spatialmath.base.__all__ and the class constructors/methods with a vector, angle, unit or order "
        "argument: (a) each vector argument given as list, tuple, 1-D array, (1,N) row, (N,1) column (classes: list, tuple, 1-D) "
        "with int or float elements must give results identical to the 1-D float array form; (b) every wrong length 0..8 must "
        "raise; (c) separate-scalar and packed-vector call forms are equal; (d) f(a,'deg') = f(a*pi/180) to 1e-9 for accepted "
        "and returned angles; (e) unknown order names and unknown input units raise. Non-trivial: form not in {list, 1-D array}, "
        "or wrong length, or deg, or non-default order.")
RULE = RULE + probes.RULE_TEXT + (probes.AUG_TEXT if PROPERTY_ID in probes.AUG_PROPS else "") + probes.VARIANT_TEXT + probes.OWN_TEXT + probes.EXTRA_RULES.get(PROPERTY_ID, "")
ASSUMPTIONS = ["functions where a 2-D array is a documented point set (e2h, h2e, homtrans, getvector without dim) are only given list/tuple/1-D",
               "functions documented to take ndarray(n) only (isunitvec, iszerovec, Ab2M) and matrix-only / plotting / printing functions are in the exclusion list, counted in evidence",
               "results are compared by value and shape (array_equal); containers mirrored by the converters (getvector(out='sequence'), getunit) are compared by value"]

PI = math.pi
FORMS5 = ["list", "tuple", "array", "row", "col"]
FORMS3 = ["list", "tuple", "array"]


class Spec:
    def __init__(self, name, fn, lens, forms=FORMS5, prep=None, cls=False, exact=True):
        self.name, self.fn, self.lens, self.forms, self.prep, self.cls, self.exact = name, fn, lens, forms, prep, cls, exact


def _small(v):           # norm 0.5: for the 3-vector form of unit quaternions
    v = np.asarray(v, dtype=float)
    n = np.linalg.norm(v)
    return list(v / n * 0.5) if n > 0 else [0.5] + [0.0] * (len(v) - 1)


def _nz(v):
    return list(v) if any(v) else [1.0] + list(v[1:])


LEGAL = {  # spec name -> set of lengths its (first) vector argument may legally have
    "skew/3": {1, 3}, "skewa/3": {3, 6}, "skewa/6": {3, 6}, "trexp/so3": {3, 6}, "trexp/se3": {3, 6}, "trexp2/se2": {1, 3},
    "rodrigues/3": {1, 3}, "rodrigues/theta": {1, 3}, "SE2(xyt)": {2, 3}, "SE2(xy)": {2, 3}, "SpatialVelocity": {3, 6}, "SpatialForce": {3, 6},
    "SE3.Exp": {6}, "SO3.Exp": {3}, "SE2.Exp": {3},
}


def specs():
    b = L.base
    R3 = refs.rotz(0.3) @ refs.rotx(-0.2)
    T4 = refs.rt(R3, [1.0, 2.0, 3.0])
    T3 = refs.rt(refs.rot2(0.3), [1.0, 2.0])
    S = []

    def add(name, fn, lens, **kw):
        S.append(Spec(name, fn, lens, **kw))
    # argcheck
    add("getvector", lambda V: b.getvector(V[0]), ["any"])
    add("getvector/dim", lambda V: b.getvector(V[0], 3), [3])
    add("getvector/col", lambda V: b.getvector(V[0], 4, out="col"), [4])
    add("getvector/row", lambda V: b.getvector(V[0], 2, out="row"), [2])
    add("getvector/list", lambda V: b.getvector(V[0], 3, out="list"), [3])
    add("isvector", lambda V: b.isvector(V[0], 3), [3], prep=None)
    add("assertvector", lambda V: b.assertvector(V[0], 3, "bad"), [3])
    # quaternions
    add("pure", lambda V: b.pure(V[0]), [3])
    add("qnorm", lambda V: b.qnorm(V[0]), [4])
    add("unit", lambda V: b.unit(V[0]), [4], prep=_nz)
    add("isunit", lambda V: b.isunit(V[0]), [4])
    add("isequal", lambda V: b.isequal(V[0], V[1]), [4, 4])
    add("q2v", lambda V: b.q2v(V[0]), [4])
    add("v2q", lambda V: b.v2q(V[0]), [3], prep=_small)
    add("qqmul", lambda V: b.qqmul(V[0], V[1]), [4, 4])
    add("inner", lambda V: b.inner(V[0], V[1]), [4, 4])
    add("qvmul", lambda V: b.qvmul(V[0], V[1]), [4, 3])
    add("vvmul", lambda V: b.vvmul(V[0], V[1]), [3, 3], prep=_small)
    add("qpow", lambda V: b.qpow(V[0], 3), [4])
    add("conj", lambda V: b.conj(V[0]), [4])
    add("q2r", lambda V: b.q2r(V[0]), [4])
    add("slerp", lambda V: b.slerp(V[0], V[1], 0.3), [4, 4], prep=lambda v: list(refs.unit(_nz(v))))
    # the same functions with their scalar parameter at an exact special value (end points, zero power / angle): the vector
    # arguments are converted and validated just the same
    add("slerp/s=0", lambda V: b.slerp(V[0], V[1], 0), [4, 4], prep=lambda v: list(refs.unit(_nz(v))))
    add("slerp/s=1", lambda V: b.slerp(V[0], V[1], 1), [4, 4], prep=lambda v: list(refs.unit(_nz(v))))
    add("slerp/s=0.0", lambda V: b.slerp(V[0], V[1], 0.0), [4, 4], prep=lambda v: list(refs.unit(_nz(v))))
    add("slerp/s=1.0/shortest", lambda V: b.slerp(V[0], V[1], 1.0, True), [4, 4], prep=lambda v: list(refs.unit(_nz(v))))
    add("slerp/s=0.5", lambda V: b.slerp(V[0], V[1], 0.5), [4, 4], prep=lambda v: list(refs.unit(_nz(v))))
    add("qpow/0", lambda V: b.qpow(V[0], 0), [4])
    add("qpow/1", lambda V: b.qpow(V[0], 1), [4])
    add("qpow/-1", lambda V: b.qpow(V[0], -1), [4])
    add("matrix", lambda V: b.matrix(V[0]), [4])
    add("dot", lambda V: b.dot(V[0], V[1]), [4, 3])
    add("dotb", lambda V: b.dotb(V[0], V[1]), [4, 3])
    add("angle", lambda V: b.angle(V[0], V[1]), [4, 4], prep=_nz)
    # 2D
    add("trot2/t", lambda V: b.trot2(0.3, t=V[0]), [2])
    add("transl2", lambda V: b.transl2(V[0]), [2])
    add("xyt2tr", lambda V: b.xyt2tr(V[0]), [3])
    add("trexp2/se2", lambda V: b.trexp2(V[0]), [3])
    # 3D
    add("trotx/t", lambda V: b.trotx(0.3, t=V[0]), [3])
    add("troty/t", lambda V: b.troty(0.3, t=V[0]), [3])
    add("trotz/t", lambda V: b.trotz(0.3, t=V[0]), [3])
    add("transl", lambda V: b.transl(V[0]), [3])
    add("rpy2r", lambda V: b.rpy2r(V[0]), [3])
    add("rpy2tr", lambda V: b.rpy2tr(V[0]), [3])
    add("eul2r", lambda V: b.eul2r(V[0]), [3])
    add("eul2tr", lambda V: b.eul2tr(V[0]), [3])
    add("angvec2r", lambda V: b.angvec2r(0.3, V[0]), [3], prep=_nz)
    add("angvec2tr", lambda V: b.angvec2tr(0.3, V[0]), [3], prep=_nz)
    add("oa2r", lambda V: b.oa2r(V[0], V[1]), [3, 3], prep=None)
    add("oa2tr", lambda V: b.oa2tr(V[0], V[1]), [3, 3])
    add("trexp/so3", lambda V: b.trexp(V[0]), [3])
    add("trexp/se3", lambda V: b.trexp(V[0]), [6])
    add("delta2tr", lambda V: b.delta2tr(V[0]), [6])
    add("rt2tr", lambda V: b.rt2tr(R3.copy(), V[0]), [3])
    # Nd
    add("skew/3", lambda V: b.skew(V[0]), [3])
    add("skewa/3", lambda V: b.skewa(V[0]), [3])
    add("skewa/6", lambda V: b.skewa(V[0]), [6])
    add("h2e", lambda V: b.h2e(V[0]), ["any2"], forms=FORMS3, prep=lambda v: list(v[:-1]) + [v[-1] if v[-1] != 0 else 1.0])
    add("e2h", lambda V: b.e2h(V[0]), ["any"], forms=FORMS3)
    add("homtrans", lambda V: b.homtrans(T4.copy(), V[0]), [3], forms=FORMS3)
    add("rodrigues/3", lambda V: b.rodrigues(V[0]), [3])
    add("rodrigues/theta", lambda V: b.rodrigues(V[0], 0.3), [3], prep=lambda v: list(refs.unit(_nz(v))))
    add("angvec2r/theta=0", lambda V: b.angvec2r(0, V[0]), [3], prep=_nz)
    add("trotx/0/t", lambda V: b.trotx(0, t=V[0]), [3])
    # vectors
    add("colvec", lambda V: b.colvec(V[0]), ["any"])
    add("unitvec", lambda V: b.unitvec(V[0]), ["any"], prep=_nz)
    add("norm", lambda V: b.norm(V[0]), ["any"])
    add("normsq", lambda V: b.normsq(V[0]), ["any"])
    add("cross", lambda V: b.cross(V[0], V[1]), [3, 3])
    add("isunittwist", lambda V: b.isunittwist(V[0]), [6])
    add("isunittwist2", lambda V: b.isunittwist2(V[0]), [3])
    add("unittwist", lambda V: b.unittwist(V[0]), [6], prep=_nz)
    add("unittwist_norm", lambda V: b.unittwist_norm(V[0]), [6], prep=_nz)
    add("unittwist2", lambda V: b.unittwist2(V[0]), [3], prep=_nz)
    add("angdiff", lambda V: b.angdiff(V[0]), ["any"], forms=FORMS3)
    add("angdiff/2", lambda V: b.angdiff(V[0], V[1]), ["any", "same"], forms=FORMS3)
    add("removesmall", lambda V: b.removesmall(V[0]), ["any"], forms=FORMS3)
    # classes (list / tuple / 1-D array)
    C = dict(forms=FORMS3, cls=True)
    add("SE3(v)", lambda V: L.SE3(V[0]), [3], **C)
    add("SE3.Rx/t", lambda V: L.SE3.Rx(0.3, t=V[0]), [3], **C)
    add("SO3.Rx", lambda V: L.SO3.Rx(V[0]), ["any"], **C)
    add("SE3.Ry", lambda V: L.SE3.Ry(V[0]), ["any"], **C)
    add("SE3.Tx", lambda V: L.SE3.Tx(V[0]), ["any"], **C)
    add("SO3.RPY", lambda V: L.SO3.RPY(V[0]), [3], **C)
    add("SE3.RPY", lambda V: L.SE3.RPY(V[0], order="xyz"), [3], **C)
    add("SO3.Eul", lambda V: L.SO3.Eul(V[0]), [3], **C)
    add("SE3.Eul", lambda V: L.SE3.Eul(V[0]), [3], **C)
    add("SO3.AngVec", lambda V: L.SO3.AngVec(0.3, V[0]), [3], prep=_nz, **C)
    add("SE3.AngVec", lambda V: L.SE3.AngVec(0.3, V[0]), [3], prep=_nz, **C)
    add("SO3.EulerVec", lambda V: L.SO3.EulerVec(V[0]), [3], **C)
    add("SE3.EulerVec", lambda V: L.SE3.EulerVec(V[0]), [3], **C)
    add("SO3.OA", lambda V: L.SO3.OA(V[0], V[1]), [3, 3], **C)
    add("SE3.OA", lambda V: L.SE3.OA(V[0], V[1]), [3, 3], **C)
    add("SO3.Exp", lambda V: L.SO3.Exp(V[0]), [3], **C)
    add("SE3.Exp", lambda V: L.SE3.Exp(V[0]), [6], **C)
    add("SE3.Delta", lambda V: L.SE3.Delta(V[0]), [6], prep=lambda v: [x * 1e-3 for x in v], **C)
    add("SE3*p", lambda V: L.SE3(T4.copy()) * V[0], [3], **C)
    add("SO3*p", lambda V: L.SO3(R3.copy()) * V[0], [3], **C)
    add("SO2(thetas)", lambda V: L.SO2(V[0]), ["any"], **C)
    add("SE2(xyt)", lambda V: L.SE2(V[0]), [3], **C)
    add("SE2(xy)", lambda V: L.SE2(V[0]), [2], **C)
    add("SE2.Exp", lambda V: L.SE2.Exp(V[0]), [3], **C)
    add("SE2*p", lambda V: L.SE2(T3.copy()) * V[0], [2], **C)
    add("Quaternion(v)", lambda V: L.Quaternion(V[0]), [4], **C)
    add("Quaternion(s,v)", lambda V: L.Quaternion(0.5, V[0]), [3], **C)
    add("Quaternion.Pure", lambda V: L.Quaternion.Pure(V[0]), [3], **C)
    add("UnitQuaternion(v)", lambda V: L.UnitQuaternion(V[0]), [4], prep=_nz, **C)
    add("UnitQuaternion(s,v)", lambda V: L.UnitQuaternion(0.5, V[0]), [3], **C)
    add("UnitQuaternion.Rx", lambda V: L.UnitQuaternion.Rx(V[0]), ["any"], **C)
    add("UnitQuaternion.RPY", lambda V: L.UnitQuaternion.RPY(V[0]), [3], **C)
    add("UnitQuaternion.Eul", lambda V: L.UnitQuaternion.Eul(V[0]), [3], **C)
    add("UnitQuaternion.AngVec", lambda V: L.UnitQuaternion.AngVec(0.3, V[0]), [3], prep=_nz, **C)
    add("UnitQuaternion.EulerVec", lambda V: L.UnitQuaternion.EulerVec(V[0]), [3], **C)
    add("UnitQuaternion.OA", lambda V: L.UnitQuaternion.OA(V[0], V[1]), [3, 3], **C)
    add("UnitQuaternion.Vec3", lambda V: L.UnitQuaternion.Vec3(V[0]), [3], prep=_small, **C)
    add("UnitQuaternion*p", lambda V: L.UnitQuaternion.Rx(0.3) * V[0], [3], **C)
    add("UnitQuaternion.dot", lambda V: L.UnitQuaternion.Rx(0.3).dot(V[0]), [3], **C)
    add("UnitQuaternion.dotb", lambda V: L.UnitQuaternion.Rx(0.3).dotb(V[0]), [3], **C)
    add("Twist3(v)", lambda V: L.Twist3(V[0]), [6], **C)
    add("Twist3(v,w)", lambda V: L.Twist3(V[0], V[1]), [3, 3], **C)
    add("Twist3.Revolute", lambda V: L.Twist3.Revolute(V[0], V[1]), [3, 3], prep=_nz, **C)
    add("Twist3.Prismatic", lambda V: L.Twist3.Prismatic(V[0]), [3], prep=_nz, **C)
    add("Twist3.Rx", lambda V: L.Twist3.Rx(V[0]), ["any"], **C)
    add("Twist3.exp", lambda V: L.Twist3([1, 2, 3, 0.1, 0.2, 0.3]).exp(V[0]), ["any"], **C)
    add("Twist2(v)", lambda V: L.Twist2(V[0]), [3], **C)
    add("Twist2(v,w)", lambda V: L.Twist2(V[0], 0.5), [2], **C)
    add("Twist2.Revolute", lambda V: L.Twist2.Revolute(V[0]), [2], **C)
    add("Twist2.Prismatic", lambda V: L.Twist2.Prismatic(V[0]), [2], prep=_nz, **C)
    add("Plucker(v,w)", lambda V: L.Plucker(V[0], V[1]), [3, 3], **C)
    add("Plucker.PQ", lambda V: L.Plucker.PQ(V[0], V[1]), [3, 3], **C)
    add("Plucker.PointDir", lambda V: L.Plucker.PointDir(V[0], V[1]), [3, 3], **C)
    add("Plucker.Planes", lambda V: L.Plucker.Planes(V[0], V[1]), [4, 4], **C)
    add("Plucker.closest", lambda V: tuple(L.Plucker.PointDir([1, 2, 3], [0, 1, 1]).closest(V[0])), [3], **C)
    add("Plane", lambda V: L.Plane(V[0]).plane, [4], **C)
    add("Plane.PN", lambda V: L.Plane.PN(V[0], V[1]).plane, [3, 3], **C)
    add("SpatialVelocity", lambda V: L.SpatialVelocity(V[0]), [6], **C)
    add("SpatialForce", lambda V: L.SpatialForce(V[0]), [6], **C)
    add("SpatialInertia(m,r)", lambda V: L.SpatialInertia(2.0, V[0]), [3], **C)
    return S


EXCLUDED = {
    "assertmatrix": "matrix only", "ismatrix": "matrix only", "isscalar": "scalar", "getunit": "unit conversion: covered by the unit sub-check",
    "isnumberlist": "type test", "isvectorlist": "type test", "r2q": "matrix only", "rand": "no argument", "qprint": "printing",
    "rot2": "scalar angle: unit sub-check", "ishom2": "matrix only", "isrot2": "matrix only", "trlog2": "matrix only", "trinterp2": "matrix only",
    "trprint2": "printing", "trplot2": "plotting", "tranimate2": "animation", "tr2xyt": "matrix only: unit sub-check", "trinv2": "matrix only",
    "rotx": "scalar angle: unit sub-check", "roty": "scalar angle: unit sub-check", "rotz": "scalar angle: unit sub-check",
    "ishom": "matrix only", "isrot": "matrix only", "tr2angvec": "matrix only: unit sub-check", "tr2eul": "matrix only: unit sub-check",
    "tr2rpy": "matrix only: unit/order sub-checks", "trlog": "matrix only", "trnorm": "matrix only", "trinterp": "matrix only",
    "trinv": "matrix only", "tr2delta": "matrix only", "tr2jac": "matrix only", "trprint": "printing", "trplot": "plotting", "tranimate": "animation",
    "t2r": "matrix only", "r2t": "matrix only", "tr2rt": "matrix only", "Ab2M": "documented ndarray only", "isR": "matrix only", "isskew": "matrix only",
    "isskewa": "matrix only", "iseye": "matrix only", "vex": "matrix only", "vexa": "matrix only", "isunitvec": "documented ndarray(n) only",
    "iszerovec": "documented ndarray(n) only", "iszero": "scalar", "Animate": "animation", "Animate2": "animation", "plotvol2": "plotting", "plotvol3": "plotting",
    "trexp2": None, "trot2": None, "trotx": None, "troty": None, "trotz": None, "skew": None, "skewa": None, "rodrigues": None, "trexp": None,
}

_SPECS = None


def table():
    global _SPECS
    if _SPECS is None:
        _SPECS = {s.name: s for s in specs()}
    return _SPECS


def uncovered():
    """exported base names that are neither in the table nor in the exclusion list (reported in evidence; a new
    export is not an error of the code under test, so this is not fatal)"""
    names = set(L.base.__all__)
    covered = {s.split("/")[0] for s in table()}
    return sorted(n for n in names if n not in covered and n not in EXCLUDED)


def extra_evidence(tier):
    t = table()
    return {"spec_table_entries": len(t), "base_exports": len(L.base.__all__), "exports_not_in_table_or_exclusions": uncovered(),
            "excluded_base_functions": {k: v for k, v in EXCLUDED.items() if v}}


# --------------------------------------------------------------------------- #
# strategies

def _vals(n):
    return st.one_of(st.lists(st.integers(-9, 9).map(float), min_size=n, max_size=n),
                     st.lists(gens.fl(-3, 3), min_size=n, max_size=n))


def s_form():
    names = sorted(table())
    return st.fixed_dictionaries({
        "kind": st.just("form"), "name": st.sampled_from(names), "form": st.sampled_from(FORMS5),
        "ints": st.booleans(), "raw": st.lists(_vals(8), min_size=2, max_size=2), "anylen": st.integers(1, 6)})


def gen_forms(tier):
    raw = [[1.0, -2.0, 3.0, 0.5, 2.0, -1.0, 4.0, 0.25], [0.5, 1.0, -1.0, 2.0, -3.0, 1.5, 0.75, -2.0]]
    rawi = [[1.0, -2.0, 3.0, 4.0, 2.0, -1.0, 4.0, 2.0], [2.0, 1.0, -1.0, 2.0, -3.0, 1.0, 3.0, -2.0]]
    for name in sorted(table()):
        for form in FORMS5:
            for ints in (False, True):
                for anylen in (1, 3, 4):
                    yield {"kind": "form", "name": name, "form": form, "ints": ints, "raw": rawi if ints else raw, "anylen": anylen}


def gen_wronglen(tier):
    raw = [[1.0, -2.0, 3.0, 0.5, 2.0, -1.0, 4.0, 0.25, 1.5], [0.5, 1.0, -1.0, 2.0, -3.0, 1.5, 0.75, -2.0, 0.5]]
    for name, sp in sorted(table().items()):
        for which, ln in enumerate(sp.lens):
            if not isinstance(ln, int):
                continue
            for bad in range(0, 9):
                if bad == ln or (which == 0 and bad in LEGAL.get(name, ())):
                    continue
                for form in sp.forms:
                    yield {"kind": "wronglen", "name": name, "which": which, "len": bad, "form": form, "raw": raw}


UNIT_FUNCS = ["rot2", "trot2", "rotx", "roty", "rotz", "trotx", "troty", "trotz", "rpy2r", "rpy2tr", "eul2r", "eul2tr", "angvec2r", "angvec2tr",
              "xyt2tr", "SO2", "SE2", "SO3.Rx", "SO3.Ry", "SO3.Rz", "SE3.Rx", "SE3.Ry", "SE3.Rz", "SO3.RPY", "SE3.RPY", "SO3.Eul", "SE3.Eul",
              "SO3.AngVec", "SE3.AngVec", "UQ.Rx", "UQ.Ry", "UQ.Rz", "UQ.RPY", "UQ.Eul", "UQ.AngVec", "Twist3.Rx", "Twist3.Ry", "Twist3.Rz",
              "Twist3.exp", "Twist2.exp", "Twist3.exp/vector", "Twist3.exp/array", "Twist2.exp/vector", "Twist3[M].exp/vector", "SO2.Rand", "SE2(theta)", "SE2([x,y,theta])", "SO2(list)",
              "SO3.Rx/vector", "SE3.Rz/vector", "UQ.Ry/vector", "Twist3.Rz/vector", "getunit", "getunit/list",
              "tr2rpy", "tr2eul", "tr2angvec", "tr2xyt", "SO3.rpy", "SO3.eul", "SO3.angvec", "SE3.rpy", "UQ.rpy", "UQ.eul", "UQ.angvec", "SO2.theta",
              "SO3[M].rpy", "SO3[M].eul", "SE3[M].rpy", "SE3[M].eul", "UQ[M].rpy", "UQ[M].eul", "SO2[M].theta"]
ORDER_FUNCS = ["rpy2r", "rpy2tr", "tr2rpy", "SO3.RPY", "SE3.RPY", "UQ.RPY", "SO3.rpy", "UQ.rpy"]
GOOD_ORDERS = ["zyx", "xyz", "yxz", "vehicle", "arm", "camera"]
BAD_ORDERS = ["zxy", "ZYX", "xzy", "", "zyxx", "vehicel", "yzx", "rpy", None, 3]
BAD_UNITS = ["degrees", "DEG", "radians", "", "grad", "Rad", None, 1]


def s_unit():
    ang = st.one_of(gens.fl(-PI, PI), gens.fl(-PI, PI), st.sampled_from([0.0, PI / 2, -PI / 2, PI]))
    return st.fixed_dictionaries({"kind": st.just("unit"), "name": st.sampled_from(UNIT_FUNCS), "a": st.lists(ang, min_size=3, max_size=3),
                                  "axis": gens.axis3(-1, 1), "order": st.sampled_from(GOOD_ORDERS),
                                  "exact_pitch": st.sampled_from([None, None, PI / 2, -PI / 2])})


SCALAR_TYPES = ["int", "float", "np.int64", "np.int32", "np.float64", "np.int8"]


def s_scalartype():
    names = [n for n in UNIT_FUNCS if n not in RETURNING and n not in ("getunit/list",)]
    return st.fixed_dictionaries({"kind": st.just("scalartype"), "name": st.sampled_from(names), "deg": st.lists(st.integers(-120, 120), min_size=3, max_size=3),
                                  "type": st.sampled_from(SCALAR_TYPES), "unit": st.sampled_from(["deg", "rad"]), "order": st.sampled_from(GOOD_ORDERS)})


def gen_scalartypes(tier):
    names = [n for n in UNIT_FUNCS if n not in RETURNING and n not in ("getunit/list",)]
    for n in names:
        for t in SCALAR_TYPES:
            for u in ("deg", "rad"):
                yield {"kind": "scalartype", "name": n, "deg": [30, -45, 60], "type": t, "unit": u, "order": "zyx"}


def _scalartype(case):
    """an integer-valued angle gives the same result whatever numeric scalar type carries it"""
    name, unit = case["name"], case["unit"]
    c = Checker("scalartype", name=name, type=case["type"], unit=unit)
    conv = {"int": int, "float": float, "np.int64": np.int64, "np.int32": np.int32, "np.float64": np.float64, "np.int8": np.int8}[case["type"]]
    vals = case["deg"] if unit == "deg" else [v % 4 - 1 for v in case["deg"]]      # small integers as radians
    ok1, ref = c.lib(name + "/float", _unit_call, name, [float(v) for v in vals], [0.0, 0.0, 1.0], case["order"], unit)
    ok2, got = c.lib(name + "/" + case["type"], _unit_call, name, [conv(v) for v in vals], [0.0, 0.0, 1.0], case["order"], unit)
    if ok1 and ok2:
        c.eq(name + "/type=float", got, ref, 1e-12, max(1.0, float(np.max(np.abs(np.asarray(ref, dtype=float))))))
    return c.out


def gen_thetalen(tier):
    for nt in (2, 3):
        for na in (1, 2, 3, 4, 6):
            if na != nt:
                for unit in ("rad", "deg"):
                    for form in ("list", "tuple", "array"):
                        yield {"kind": "thetalen", "nt": nt, "na": na, "unit": unit, "form": form}


def _thetalen(case):
    """a multi-valued twist takes one angle per twist: a vector of any other length is rejected, not truncated or padded"""
    c = Checker("thetalen", nt=case["nt"], na=case["na"], unit=case["unit"], form=case["form"])
    tw = [L.Twist3.Revolute([1, 0.5, 0.2], [1, 2, 3]), L.Twist3.Revolute([0, 0, 1], [1, 0, 0]), L.Twist3.Revolute([1, 0, 0], [0, 1, 0])][:case["nt"]]
    M = L.Twist3(tw)
    ang = [10.0 + 7 * k for k in range(case["na"])]
    arg = list(ang) if case["form"] == "list" else tuple(ang) if case["form"] == "tuple" else np.array(ang)
    c.must_raise("Twist3[M].exp/wrong_length", M.exp, arg, fresh_str(case["unit"]))
    return c.out


def gen_options(tier):
    for name in ORDER_FUNCS:
        for o in BAD_ORDERS:
            yield {"kind": "badorder", "name": name, "order": o}
            # the option is validated whatever the angles are: all zero (the null rotation), integer zeros, one zero
            for ang in ([0.0, 0.0, 0.0], [0, 0, 0], [0.0, 0.2, 0.0]):
                yield {"kind": "badorder", "name": name, "order": o, "ang": ang}
        for o in GOOD_ORDERS:
            yield {"kind": "goodorder", "name": name, "order": o}
    for name in UNIT_FUNCS:
        if name in RETURNING:
            continue                       # returned angles: the statement rejects unknown units for INPUT angles
        for u in BAD_UNITS:
            yield {"kind": "badunit", "name": name, "unit": u}
            for ang in ([0.0, 0.0, 0.0], [0, 0, 0], [0.0, 0.2, 0.0]):
                yield {"kind": "badunit", "name": name, "unit": u, "ang": ang}


def s_packed():
    return st.fixed_dictionaries({"kind": st.just("packed"), "name": st.sampled_from(["transl", "transl2", "rpy2r", "rpy2tr", "eul2r", "eul2tr", "SE3", "SE2", "SE2xy"]),
                                  "v": _vals(3), "ints": st.booleans(),
                                  # components forced to exactly zero (0 is falsy but it is a given value, not a missing one)
                                  "zeros": st.sampled_from([None, None, None, [1, 0, 0], [0, 1, 0], [0, 0, 1], [1, 1, 0], [0, 1, 1], [1, 0, 1], [1, 1, 1]]),
                                  # numeric type carrying the separate scalars
                                  "stype": st.sampled_from([None, None, "np.float64", "np.float32", "np.int64", "np.int32", "np.int16", "np.int8", "np.uint8"])})


def gen_packed(tier):
    for name in ["transl", "transl2", "rpy2r", "rpy2tr", "eul2r", "eul2tr", "SE3", "SE2", "SE2xy"]:
        for zeros in ([1, 0, 0], [0, 1, 0], [0, 0, 1], [1, 1, 0], [0, 1, 1], [1, 0, 1], [1, 1, 1]):
            for ints in (False, True):
                yield {"kind": "packed", "name": name, "v": [3.0, -2.0, 1.0], "ints": ints, "zeros": zeros, "stype": None}
        for stype in ("np.float64", "np.float32", "np.int64", "np.int32", "np.int16", "np.int8", "np.uint8"):
            yield {"kind": "packed", "name": name, "v": [3.0, 2.0, 1.0], "ints": True, "zeros": None, "stype": stype}


# --------------------------------------------------------------------------- #

def realise(v, form, ints):
    v = [int(x) for x in v] if ints else [float(x) for x in v]
    return gens.as_form(v, form, np)


def same_out(a, b):
    if a is None or b is None:
        return a is None and b is None
    if isinstance(a, (bool, np.bool_)) or isinstance(b, (bool, np.bool_)):
        return bool(a) == bool(b)
    if isinstance(getattr(a, "data", None), list) and not isinstance(a, np.ndarray):
        return type(a) is type(b) and len(a.data) == len(b.data) and all(same_out(x, y) for x, y in zip(a.data, b.data))
    if isinstance(a, tuple) or (isinstance(a, list) and isinstance(b, (list, tuple)) and any(isinstance(x, (np.ndarray, tuple, list)) for x in a)):
        return isinstance(b, (tuple, list)) and len(a) == len(b) and all(same_out(x, y) for x, y in zip(a, b))
    try:
        A, Bv = np.asarray(a, dtype=float), np.asarray(b, dtype=float)
    except Exception:  # noqa
        return a == b
    return A.shape == Bv.shape and bool(np.array_equal(A, Bv, equal_nan=True))      # the same non-finite answer is the same answer


def _args(sp, case):
    vals = []
    anylen = case.get("anylen", 3)
    for i, ln in enumerate(sp.lens):
        raw = case["raw"][i % 2]
        if ln == "any":
            n = anylen
        elif ln == "any2":
            n = max(2, anylen)
        elif ln == "same":
            n = len(vals[0])
        else:
            n = ln
        v = list(raw[:n])
        if case.get("ints"):
            v = [float(round(x)) for x in v]
        if sp.prep is not None and not case.get("ints"):
            v = list(sp.prep(v))
        elif sp.prep is not None:
            v = list(sp.prep(v))
            if not all(float(x).is_integer() for x in v):
                return None           # the value constraint of this argument cannot be met with integers
        vals.append(v)
    if sp.name.startswith("oa2") or sp.name.endswith(".OA") or sp.name in ("Plucker.Planes",):
        if np.linalg.norm(np.cross(vals[0][:3], vals[1][:3])) < 1e-6:
            return None
    return vals


def check_case(case):
    if case.get("kind") in ("hist", "aug", "variant", "own"):
        return probes.run(case, PROPERTY_ID)
    return {"form": _form, "dtype": _dtype, "callform": _callform, "thetalen": _thetalen, "wronglen": _wronglen, "unit": _unit, "scalartype": _scalartype, "badorder": _badorder, "goodorder": _goodorder, "badunit": _badunit, "printunit": _printunit,
            "packed": _packed}[case["kind"]](case)


def _form(case):
    sp = table()[case["name"]]
    form = case["form"]
    c = Checker("form", name=sp.name, form=form, ints=case["ints"])
    if form not in sp.forms:
        return c.out
    vals = _args(sp, case)
    if vals is None:
        return c.out
    try:
        ref = sp.fn([np.array(v, dtype=float) for v in vals])
    except Exception as e:  # noqa
        # the reference form itself fails: report only if the form under test succeeds (inconsistent)
        ref = e
    try:
        got = sp.fn([realise(v, form, case["ints"]) for v in vals])
    except Exception as e:  # noqa
        got = e
    if isinstance(ref, Exception) and isinstance(got, Exception):
        return c.out
    site = sp.name
    if isinstance(got, Exception):
        c.fail(site + "/raised", "%s form raised %s: %s (1-D array form works)" % (form, type(got).__name__, got), exc=type(got).__name__)
    elif isinstance(ref, Exception):
        c.fail(site + "/array_raised", "1-D array form raised %s: %s but the %s form returned a value" % (type(ref).__name__, ref, form))
    elif not same_out(got, ref):
        c.fail(site + "/differs", "%s form gives %r, 1-D array form gives %r" % (form, got, ref))
    return c.out


ARRAY_DTYPES = ["float32", "int64", "int32", "int16", "int8", "uint8", "uint16"]


def gen_dtypes(tier):
    rawi = [[1.0, 2.0, 3.0, 4.0, 2.0, 1.0, 4.0, 2.0], [2.0, 1.0, 1.0, 2.0, 3.0, 1.0, 3.0, 2.0]]
    rawn = [[1.0, -2.0, 3.0, 4.0, 2.0, -1.0, 4.0, 2.0], [2.0, 1.0, -1.0, 2.0, -3.0, 1.0, 3.0, -2.0]]
    for name in sorted(table()):
        for dt in ARRAY_DTYPES:
            for raw in (rawi, rawn):
                for anylen in (3, 4):
                    yield {"kind": "dtype", "name": name, "dtype": dt, "raw": raw, "anylen": anylen}
            yield {"kind": "dtype", "name": name, "dtype": dt, "raw": rawi, "anylen": 3, "as_list": True}


def s_dtype():
    return st.fixed_dictionaries({"kind": st.just("dtype"), "name": st.sampled_from(sorted(table())), "dtype": st.sampled_from(ARRAY_DTYPES),
                                  "raw": st.lists(st.lists(st.integers(-9, 9).map(float), min_size=8, max_size=8), min_size=2, max_size=2),
                                  "anylen": st.integers(1, 6), "as_list": st.sampled_from([False, False, True])})


def _dtype(case):
    """a 1-D array of any real NumPy element type holding the same numbers gives the same result as the float64 array"""
    sp = table()[case["name"]]
    dt = np.dtype(case["dtype"])
    c = Checker("dtype", name=sp.name, dtype=case["dtype"])
    if "array" not in sp.forms:
        return c.out
    vals = _args(sp, dict(case, ints=True))
    if vals is None:
        return c.out
    if dt.kind == "u":
        vals = [[abs(x) for x in v] for v in vals]
        if sp.prep is not None:
            vals = [list(sp.prep(v)) for v in vals]
    arrs = [np.array(v, dtype=dt) for v in vals]
    if not all(np.array_equal(a.astype(float), np.array(v, dtype=float)) for a, v in zip(arrs, vals)):
        return c.out                      # not exactly representable in this element type
    try:
        ref = sp.fn([np.array(v, dtype=float) for v in vals])
    except Exception as e:  # noqa
        ref = e
    if case.get("as_list"):
        arrs = [list(a) for a in arrs]        # a list of NumPy scalars of that type (what list(array) gives)
        c.feat(as_list=True)
    try:
        got = sp.fn(arrs)
    except Exception as e:  # noqa
        got = e
    if isinstance(ref, Exception) and isinstance(got, Exception):
        return c.out
    site = sp.name
    if isinstance(got, Exception):
        c.fail(site + "/raised", "%s array raised %s: %s (float64 array works)" % (case["dtype"], type(got).__name__, got), exc=type(got).__name__)
    elif isinstance(ref, Exception):
        c.fail(site + "/float64_raised", "float64 array raised %s: %s but the %s array returned a value" % (type(ref).__name__, ref, case["dtype"]))
    elif not probes.same(probes.snap(got), probes.snap(ref), 1e-12):
        c.fail(site + "/differs", "%s array gives %r, float64 array gives %r" % (case["dtype"], got, ref))
    return c.out


def _wronglen(case):
    sp = table()[case["name"]]
    c = Checker("wronglen", name=sp.name, form=case["form"], len=case["len"], which=case["which"])
    vals = []
    for i, ln in enumerate(sp.lens):
        raw = case["raw"][i % 2]
        n = case["len"] if i == case["which"] else (3 if not isinstance(ln, int) else ln)
        vals.append(list(raw[:n]))
    if case["len"] == 0 and case["form"] in ("row", "col"):
        return c.out
    try:
        got = sp.fn([realise(v, case["form"], False) for v in vals])
    except Exception:  # noqa
        return c.out
    if sp.name in ("isvector", "isunit", "isequal", "isunittwist", "isunittwist2") and got is False:
        return c.out                   # predicates may answer False
    c.fail(sp.name + "/accepted", "argument %d of length %d (legal %s) was accepted: returned %r" % (case["which"], case["len"], sp.lens[case["which"]], got))
    return c.out


def _unit_call(name, a, axis, order, unit):
    """call `name` with angles a (already in `unit`)"""
    b = L.base
    unit, order = fresh_str(unit), fresh_str(order)        # option strings that are not the interned literals
    k3 = list(a)
    R = refs.rotz(0.3) @ refs.roty(-0.4) @ refs.rotx(0.5)
    T2 = refs.rt(refs.rot2(0.7), [1.0, 2.0])
    f = {
        "rot2": lambda: b.rot2(a[0], unit), "trot2": lambda: b.trot2(a[0], unit, t=[1, 2]),
        "rotx": lambda: b.rotx(a[0], unit), "roty": lambda: b.roty(a[0], unit), "rotz": lambda: b.rotz(a[0], unit),
        "trotx": lambda: b.trotx(a[0], unit), "troty": lambda: b.troty(a[0], unit), "trotz": lambda: b.trotz(a[0], unit),
        "rpy2r": lambda: b.rpy2r(k3, unit=unit, order=order), "rpy2tr": lambda: b.rpy2tr(k3, unit=unit, order=order),
        "eul2r": lambda: b.eul2r(k3, unit=unit), "eul2tr": lambda: b.eul2tr(k3, unit=unit),
        "angvec2r": lambda: b.angvec2r(a[0], axis, unit=unit), "angvec2tr": lambda: b.angvec2tr(a[0], axis, unit=unit),
        "xyt2tr": lambda: b.xyt2tr([1.0, 2.0, a[0]], unit),
        "SO2": lambda: L.SO2(a[0], unit=unit).A, "SE2": lambda: L.SE2(1.0, 2.0, a[0], unit=unit).A,
        "SO3.Rx": lambda: L.SO3.Rx(a[0], unit).A, "SO3.Ry": lambda: L.SO3.Ry(a[0], unit).A, "SO3.Rz": lambda: L.SO3.Rz(a[0], unit).A,
        "SE3.Rx": lambda: L.SE3.Rx(a[0], unit).A, "SE3.Ry": lambda: L.SE3.Ry(a[0], unit).A, "SE3.Rz": lambda: L.SE3.Rz(a[0], unit).A,
        "SO3.RPY": lambda: L.SO3.RPY(k3, unit=unit, order=order).A, "SE3.RPY": lambda: L.SE3.RPY(k3, unit=unit, order=order).A,
        "SO3.Eul": lambda: L.SO3.Eul(k3, unit=unit).A, "SE3.Eul": lambda: L.SE3.Eul(k3, unit=unit).A,
        "SO3.AngVec": lambda: L.SO3.AngVec(a[0], axis, unit=unit).A, "SE3.AngVec": lambda: L.SE3.AngVec(a[0], axis, unit=unit).A,
        "UQ.Rx": lambda: L.UnitQuaternion.Rx(a[0], unit).vec, "UQ.Ry": lambda: L.UnitQuaternion.Ry(a[0], unit).vec, "UQ.Rz": lambda: L.UnitQuaternion.Rz(a[0], unit).vec,
        "UQ.RPY": lambda: L.UnitQuaternion.RPY(k3, unit=unit, order=order).R, "UQ.Eul": lambda: L.UnitQuaternion.Eul(k3, unit=unit).R,
        "UQ.AngVec": lambda: L.UnitQuaternion.AngVec(a[0], axis, unit=unit).vec,
        "Twist3.Rx": lambda: L.Twist3.Rx(a[0], unit).S, "Twist3.Ry": lambda: L.Twist3.Ry(a[0], unit).S, "Twist3.Rz": lambda: L.Twist3.Rz(a[0], unit).S,
        "Twist3.exp": lambda: L.Twist3.Revolute([1, 0.5, 0.2], [1, 2, 3]).exp(a[0], unit).A,
        "Twist2.exp": lambda: L.Twist2.Revolute([1, 2]).exp(a[0], unit).A,
        "Twist3.exp/vector": lambda: np.stack([np.asarray(x) for x in L.Twist3.Revolute([1, 0.5, 0.2], [1, 2, 3]).exp(list(k3), unit).data]),
        "Twist3.exp/array": lambda: np.stack([np.asarray(x) for x in L.Twist3.Revolute([1, 0.5, 0.2], [1, 2, 3]).exp(np.array(k3), units=unit).data]),
        "Twist2.exp/vector": lambda: np.stack([np.asarray(x) for x in L.Twist2.Revolute([1, 2]).exp(list(k3), unit).data]),
        # N twists with N angles (one per twist), and a random constructor re-seeded before the call
        "Twist3[M].exp/vector": lambda: np.stack([np.asarray(x) for x in L.Twist3([L.Twist3.Revolute([1, 0.5, 0.2], [1, 2, 3]), L.Twist3.Revolute([0, 0, 1], [1, 0, 0]),
                                                                                      L.Twist3.Revolute([1, 0, 0], [0, 1, 0])]).exp(list(k3), unit).data]),
        "SO2.Rand": lambda: (np.random.seed(12345), np.stack([np.asarray(x) for x in L.SO2.Rand(arange=(min(a[0], a[1]) - 0.01 * (1 if unit == "rad" else 180 / PI), max(a[0], a[1])), unit=unit, N=3).data]))[1],
        "SE2(theta)": lambda: L.SE2(a[0], unit=unit).A, "SE2([x,y,theta])": lambda: L.SE2([1.0, 2.0, a[0]], unit=unit).A,
        "SO2(list)": lambda: np.stack([np.asarray(x) for x in L.SO2(list(k3), unit=unit).data]),
        "SO3.Rx/vector": lambda: np.stack([np.asarray(x) for x in L.SO3.Rx(list(k3), unit).data]),
        "SE3.Rz/vector": lambda: np.stack([np.asarray(x) for x in L.SE3.Rz(np.array(k3), unit).data]),
        "UQ.Ry/vector": lambda: np.stack([np.asarray(x) for x in L.UnitQuaternion.Ry(list(k3), unit).data]),
        "Twist3.Rz/vector": lambda: np.stack([np.asarray(x) for x in L.Twist3.Rz(list(k3), unit).data]),
        "getunit": lambda: b.getunit(a[0], unit), "getunit/list": lambda: np.asarray(b.getunit(k3, unit), dtype=float),
    }
    return f[name]()


RETURNING = {
    "tr2rpy": lambda R, T2, unit, order: L.base.tr2rpy(R, unit=unit, order=order),
    "tr2eul": lambda R, T2, unit, order: L.base.tr2eul(R, unit=unit),
    "tr2angvec": lambda R, T2, unit, order: L.base.tr2angvec(R, unit=unit)[0],
    "tr2xyt": lambda R, T2, unit, order: L.base.tr2xyt(T2, unit=unit)[2],
    "SO3.rpy": lambda R, T2, unit, order: L.SO3(R).rpy(unit=unit, order=order),
    "SO3.eul": lambda R, T2, unit, order: L.SO3(R).eul(unit=unit),
    "SO3.angvec": lambda R, T2, unit, order: L.SO3(R).angvec(unit=unit)[0],
    "SE3.rpy": lambda R, T2, unit, order: L.SE3(refs.rt(R, [1, 2, 3])).rpy(unit=unit, order=order),
    "UQ.rpy": lambda R, T2, unit, order: L.UnitQuaternion(R).rpy(unit=unit, order=order),
    "UQ.eul": lambda R, T2, unit, order: L.UnitQuaternion(R).eul(unit=unit),
    "UQ.angvec": lambda R, T2, unit, order: L.UnitQuaternion(R).angvec(unit=unit)[0],
    "SO2.theta": lambda R, T2, unit, order: L.SO2(T2[:2, :2].copy()).theta(unit=unit),
    # multi-valued receivers
    "SO3[M].rpy": lambda R, T2, unit, order: L.SO3([R, R.T.copy()]).rpy(unit=unit, order=order),
    "SO3[M].eul": lambda R, T2, unit, order: L.SO3([R, R.T.copy()]).eul(unit=unit),
    "SE3[M].rpy": lambda R, T2, unit, order: L.SE3([refs.rt(R, [1, 2, 3]), refs.rt(R.T, [0, 1, 0])]).rpy(unit=unit, order=order),
    "SE3[M].eul": lambda R, T2, unit, order: L.SE3([refs.rt(R, [1, 2, 3]), refs.rt(R.T, [0, 1, 0])]).eul(unit=unit),
    "UQ[M].rpy": lambda R, T2, unit, order: L.UnitQuaternion([L.SO3(R), L.SO3(R.T.copy())]).rpy(unit=unit, order=order),
    "UQ[M].eul": lambda R, T2, unit, order: L.UnitQuaternion([L.SO3(R), L.SO3(R.T.copy())]).eul(unit=unit),
    "SO2[M].theta": lambda R, T2, unit, order: np.asarray(L.SO2([T2[:2, :2].copy(), T2[:2, :2].T.copy()]).theta(unit=unit), dtype=float),
}


def _unit(case):
    name = case["name"]
    a = case["a"]
    axis = list(case["axis"])
    c = Checker("unit", name=name, order=case["order"])
    if name in RETURNING:
        pitch = case.get("exact_pitch")
        R = refs.polish(refs.rotz(a[0]) @ refs.roty(a[1] / 2.1) @ refs.rotx(a[2]))
        if pitch is not None:
            # exactly at the singularity of the requested order
            from .c05_angles import rpy_ref
            R = refs.polish(rpy_ref(a[0], pitch, a[2], case["order"]))
        T2 = refs.rt(refs.rot2(a[0]), [1.0, 2.0])
        ok1, r = c.lib(name + "/rad", RETURNING[name], R, T2, fresh_str("rad"), fresh_str(case["order"]))
        ok2, d = c.lib(name + "/deg", RETURNING[name], R, T2, fresh_str("deg"), fresh_str(case["order"]))
        if ok1 and ok2:
            c.eq(name + "/deg=rad*180/pi", d, np.asarray(r, dtype=float) * 180.0 / PI, 1e-9, 180.0)
        return c.out
    adeg = [x * 180.0 / PI for x in a]
    ok1, r = c.lib(name + "/rad", _unit_call, name, a, axis, case["order"], "rad")
    ok2, d = c.lib(name + "/deg", _unit_call, name, adeg, axis, case["order"], "deg")
    if ok1 and ok2:
        # UQ.RPY / UQ.Eul pass through matrix->quaternion extraction, which is only accurate to ~1e-8 next to a half
        # turn (C04 allows 1e-6 there): a 1-ulp difference of the input matrix is amplified accordingly
        tol = 1e-6 if name in ("UQ.RPY", "UQ.Eul") else 1e-9
        c.eq(name + "/deg=rad", d, r, tol, max(1.0, float(np.max(np.abs(np.asarray(r, dtype=float))))))
    return c.out


def callforms():
    """name -> (keyword call, positional call) of the same documented signature; a: three angles in degrees, R/T2: matrices"""
    b = L.base
    tt = [1.0, 2.0, 3.0]
    ax = [0.2, -0.5, 0.8]
    return {
        "tr2angvec": (lambda a, R, T2: b.tr2angvec(R, unit="deg"), lambda a, R, T2: b.tr2angvec(R, "deg")),
        "tr2angvec/check": (lambda a, R, T2: b.tr2angvec(R, unit="deg", check=False), lambda a, R, T2: b.tr2angvec(R, "deg", False)),
        "tr2eul": (lambda a, R, T2: b.tr2eul(R, unit="deg"), lambda a, R, T2: b.tr2eul(R, "deg")),
        "tr2eul/flip": (lambda a, R, T2: b.tr2eul(R, unit="deg", flip=True), lambda a, R, T2: b.tr2eul(R, "deg", True)),
        "tr2rpy": (lambda a, R, T2: b.tr2rpy(R, unit="deg"), lambda a, R, T2: b.tr2rpy(R, "deg")),
        "tr2rpy/order": (lambda a, R, T2: b.tr2rpy(R, unit="deg", order="xyz"), lambda a, R, T2: b.tr2rpy(R, "deg", "xyz")),
        "tr2xyt": (lambda a, R, T2: b.tr2xyt(T2, unit="deg"), lambda a, R, T2: b.tr2xyt(T2, "deg")),
        "angvec2r": (lambda a, R, T2: b.angvec2r(theta=a[0], v=ax, unit="deg"), lambda a, R, T2: b.angvec2r(a[0], ax, "deg")),
        "angvec2tr": (lambda a, R, T2: b.angvec2tr(theta=a[0], v=ax, unit="deg"), lambda a, R, T2: b.angvec2tr(a[0], ax, "deg")),
        "xyt2tr": (lambda a, R, T2: b.xyt2tr(xyt=[1.0, 2.0, a[0]], unit="deg"), lambda a, R, T2: b.xyt2tr([1.0, 2.0, a[0]], "deg")),
        "rotx": (lambda a, R, T2: b.rotx(theta=a[0], unit="deg"), lambda a, R, T2: b.rotx(a[0], "deg")),
        "roty": (lambda a, R, T2: b.roty(theta=a[0], unit="deg"), lambda a, R, T2: b.roty(a[0], "deg")),
        "rotz": (lambda a, R, T2: b.rotz(theta=a[0], unit="deg"), lambda a, R, T2: b.rotz(a[0], "deg")),
        "rot2": (lambda a, R, T2: b.rot2(theta=a[0], unit="deg"), lambda a, R, T2: b.rot2(a[0], "deg")),
        "trotx": (lambda a, R, T2: b.trotx(theta=a[0], unit="deg", t=tt), lambda a, R, T2: b.trotx(a[0], "deg", tt)),
        "troty": (lambda a, R, T2: b.troty(theta=a[0], unit="deg", t=tt), lambda a, R, T2: b.troty(a[0], "deg", tt)),
        "trotz": (lambda a, R, T2: b.trotz(theta=a[0], unit="deg", t=tt), lambda a, R, T2: b.trotz(a[0], "deg", tt)),
        "trot2": (lambda a, R, T2: b.trot2(theta=a[0], unit="deg", t=tt[:2]), lambda a, R, T2: b.trot2(a[0], "deg", tt[:2])),
        "eul2r": (lambda a, R, T2: b.eul2r(a[0], a[1], a[2], unit="deg"), lambda a, R, T2: b.eul2r(a[0], a[1], a[2], "deg")),
        "getunit": (lambda a, R, T2: b.getunit(v=a[0], unit="deg"), lambda a, R, T2: b.getunit(a[0], "deg")),
        "SO3.rpy": (lambda a, R, T2: L.SO3(R).rpy(unit="deg", order="xyz"), lambda a, R, T2: L.SO3(R).rpy("deg", "xyz")),
        "SO3.eul": (lambda a, R, T2: L.SO3(R).eul(unit="deg"), lambda a, R, T2: L.SO3(R).eul("deg")),
        "SO3.angvec": (lambda a, R, T2: L.SO3(R).angvec(unit="deg"), lambda a, R, T2: L.SO3(R).angvec("deg")),
        "SE3.rpy": (lambda a, R, T2: L.SE3(refs.rt(R, tt)).rpy(unit="deg", order="yxz"), lambda a, R, T2: L.SE3(refs.rt(R, tt)).rpy("deg", "yxz")),
        "UQ.rpy": (lambda a, R, T2: L.UnitQuaternion(R).rpy(unit="deg", order="xyz"), lambda a, R, T2: L.UnitQuaternion(R).rpy("deg", "xyz")),
        "UQ.eul": (lambda a, R, T2: L.UnitQuaternion(R).eul(unit="deg"), lambda a, R, T2: L.UnitQuaternion(R).eul("deg")),
        "UQ.angvec": (lambda a, R, T2: L.UnitQuaternion(R).angvec(unit="deg"), lambda a, R, T2: L.UnitQuaternion(R).angvec("deg")),
        "SO2.theta": (lambda a, R, T2: L.SO2(T2[:2, :2].copy()).theta(unit="deg"), lambda a, R, T2: L.SO2(T2[:2, :2].copy()).theta("deg")),
        "SO3.Rx": (lambda a, R, T2: L.SO3.Rx(theta=a[0], unit="deg").A, lambda a, R, T2: L.SO3.Rx(a[0], "deg").A),
        "SO3.Ry": (lambda a, R, T2: L.SO3.Ry(theta=a[0], unit="deg").A, lambda a, R, T2: L.SO3.Ry(a[0], "deg").A),
        "SO3.Rz": (lambda a, R, T2: L.SO3.Rz(theta=a[0], unit="deg").A, lambda a, R, T2: L.SO3.Rz(a[0], "deg").A),
        "SE3.Rx": (lambda a, R, T2: L.SE3.Rx(theta=a[0], unit="deg", t=tt).A, lambda a, R, T2: L.SE3.Rx(a[0], "deg", tt).A),
        "SE3.Ry": (lambda a, R, T2: L.SE3.Ry(theta=a[0], unit="deg", t=tt).A, lambda a, R, T2: L.SE3.Ry(a[0], "deg", tt).A),
        "SE3.Rz": (lambda a, R, T2: L.SE3.Rz(theta=a[0], unit="deg", t=tt).A, lambda a, R, T2: L.SE3.Rz(a[0], "deg", tt).A),
        "UQ.Rx": (lambda a, R, T2: L.UnitQuaternion.Rx(angle=a[0], unit="deg").vec, lambda a, R, T2: L.UnitQuaternion.Rx(a[0], "deg").vec),
        "UQ.Ry": (lambda a, R, T2: L.UnitQuaternion.Ry(angle=a[0], unit="deg").vec, lambda a, R, T2: L.UnitQuaternion.Ry(a[0], "deg").vec),
        "UQ.Rz": (lambda a, R, T2: L.UnitQuaternion.Rz(angle=a[0], unit="deg").vec, lambda a, R, T2: L.UnitQuaternion.Rz(a[0], "deg").vec),
        "Twist3.Rx": (lambda a, R, T2: L.Twist3.Rx(theta=a[0], unit="deg").S, lambda a, R, T2: L.Twist3.Rx(a[0], "deg").S),
        "Twist3.exp": (lambda a, R, T2: L.Twist3.Revolute([1, 0.5, 0.2], [1, 2, 3]).exp(theta=a[0], units="deg").A, lambda a, R, T2: L.Twist3.Revolute([1, 0.5, 0.2], [1, 2, 3]).exp(a[0], "deg").A),
        "Twist2.exp": (lambda a, R, T2: L.Twist2.Revolute([1, 2]).exp(theta=a[0], units="deg").A, lambda a, R, T2: L.Twist2.Revolute([1, 2]).exp(a[0], "deg").A),
    }


def gen_callforms(tier):
    for name in sorted(callforms()):
        for a in ([30.0, -45.0, 60.0], [118.5, 20.0, -75.0], [0.0, 90.0, 180.0]):
            yield {"kind": "callform", "name": name, "a": a}


def s_callform():
    return st.fixed_dictionaries({"kind": st.just("callform"), "name": st.sampled_from(sorted(callforms())),
                                  "a": st.lists(st.one_of(gens.fl(-180, 180), st.sampled_from([0.0, 90.0, -90.0, 180.0])), min_size=3, max_size=3)})


def _callform(case):
    """options given by keyword and in their documented positional order are the same call"""
    name, a = case["name"], case["a"]
    c = Checker("callform", name=name)
    kw, pos = callforms()[name]
    ar = [x * PI / 180.0 for x in a]
    R = refs.polish(refs.rotz(ar[0]) @ refs.roty(ar[1] / 2.1) @ refs.rotx(ar[2]))
    T2 = refs.rt(refs.rot2(ar[0]), [1.0, 2.0])
    ok1, r1 = c.lib(name + "/keyword", kw, a, R.copy(), T2.copy())
    ok2, r2 = c.lib(name + "/positional", pos, a, R.copy(), T2.copy())
    if ok1 and ok2:
        c.true(name + "/positional=keyword", probes.same(probes.snap(r2), probes.snap(r1), 1e-15), "positional options give %r, keywords give %r" % (r2, r1))
    return c.out


def _order_call(name, order, ang=(0.1, 0.2, 0.3)):
    b = L.base
    R = refs.rotz(0.3) @ refs.roty(-0.4) @ refs.rotx(0.5)
    ang = list(ang)
    return {"rpy2r": lambda: b.rpy2r(ang, order=order), "rpy2tr": lambda: b.rpy2tr(ang, order=order), "tr2rpy": lambda: b.tr2rpy(R, order=order),
            "SO3.RPY": lambda: L.SO3.RPY(ang, order=order), "SE3.RPY": lambda: L.SE3.RPY(ang, order=order), "UQ.RPY": lambda: L.UnitQuaternion.RPY(ang, order=order),
            "SO3.rpy": lambda: L.SO3(R).rpy(order=order), "UQ.rpy": lambda: L.UnitQuaternion(R).rpy(order=order)}[name]()


def _badorder(case):
    c = Checker("badorder", name=case["name"], order=repr(case["order"]))
    c.must_raise(case["name"] + "/unknown_order", _order_call, case["name"], case["order"], case.get("ang", (0.1, 0.2, 0.3)))
    return c.out


def _goodorder(case):
    c = Checker("goodorder", name=case["name"], order=case["order"])
    ok, r = c.lib(case["name"] + "/order", _order_call, case["name"], case["order"])
    alias = {"vehicle": "zyx", "arm": "xyz", "camera": "yxz"}.get(case["order"])
    if ok and alias:
        ok2, r2 = c.lib(case["name"] + "/alias", _order_call, case["name"], alias)
        if ok2:
            c.true(case["name"] + "/alias=order", same_out(getattr(r, "A", r), getattr(r2, "A", r2)) or same_out(getattr(r, "vec", None), getattr(r2, "vec", None)),
                   "alias %s differs from %s" % (case["order"], alias))
    return c.out


PRINT_ORIENTS = ["rpy/zyx", "rpy/xyz", "rpy/yxz", "eul", "angvec"]


def gen_printunit(tier):
    for route in ("trprint", "trprint/R", "SE3.printline", "SO3.printline", "trprint2", "SE2.printline"):
        for orient in (PRINT_ORIENTS if "2" not in route else ["-"]):
            for degsym in (True, False):
                for a in ([0.3, 0.4, 0.5], [-1.2, 0.7, 2.9]):
                    yield {"kind": "printunit", "route": route, "orient": orient, "degsym": degsym, "a": a}


def _printunit(case):
    """angles returned as TEXT by the one-line printers: the numbers printed with unit='deg' are those printed with unit='rad'
    times 180/pi, whatever the orientation format and whether or not the degree sign is asked for"""
    import re
    b = L.base
    route, orient, degsym, a = case["route"], case["orient"], case["degsym"], case["a"]
    c = Checker("printunit", route=route, orient=orient, degsym=degsym)
    R = refs.polish(refs.rotz(a[2]) @ refs.roty(a[1] / 2.1) @ refs.rotx(a[0]))
    T = refs.rt(R, [1.0, 2.0, 3.0])
    T2 = refs.rt(refs.rot2(a[0]), [1.0, 2.0])
    fmt = "{:.12g}"

    def call(unit):
        u = fresh_str(unit)
        if route == "trprint":
            return b.trprint(T.copy(), orient=orient, unit=u, degsym=degsym, file=None, fmt=fmt)
        if route == "trprint/R":
            return b.trprint(R.copy(), orient=orient, unit=u, degsym=degsym, file=None, fmt=fmt)
        if route == "SE3.printline":
            return L.SE3(T.copy()).printline(orient=orient, unit=u, degsym=degsym, file=None, fmt=fmt)
        if route == "SO3.printline":
            return L.SO3(R.copy()).printline(orient=orient, unit=u, degsym=degsym, file=None, fmt=fmt)
        if route == "trprint2":
            return b.trprint2(T2.copy(), unit=u, file=None, fmt=fmt)
        return L.SE2(T2.copy()).printline(unit=u, file=None, fmt=fmt)
    okd, sd = c.lib(route + "/deg", call, "deg")
    okr, sr = c.lib(route + "/rad", call, "rad")
    if not (okd and okr):
        return c.out
    if not c.true(route + "/text", isinstance(sd, str) and isinstance(sr, str), "printer returned %r / %r" % (sd, sr)):
        return c.out
    num = re.compile(r"[-+]?(?:\d+\.?\d*|\.\d+)(?:[eE][-+]?\d+)?")
    tail = lambda t: t.split("=")[-1] if "2" not in route else t.split(";")[-1]     # noqa
    nd, nr = [float(x) for x in num.findall(tail(sd))], [float(x) for x in num.findall(tail(sr))]
    if not c.true(route + "/tokens", len(nd) == len(nr) and len(nd) >= 1, "deg text %r and rad text %r hold different numbers of values" % (sd, sr)):
        return c.out
    idx = [0] if orient == "angvec" else list(range(len(nd)))
    for i in idx:
        c.true(route + "/deg=rad*180/pi", abs(nd[i] - nr[i] * 180.0 / PI) <= 1e-8 * max(1.0, abs(nd[i])),
               "printed with unit='deg': %r, with unit='rad': %r (value %d)" % (sd, sr, i))
    return c.out


def _badunit(case):
    c = Checker("badunit", name=case["name"], unit=repr(case["unit"]))
    c.must_raise(case["name"] + "/unknown_unit", _unit_call, case["name"], list(case.get("ang", [0.3, 0.2, 0.1])), [0.0, 0.0, 1.0], "zyx", case["unit"])
    return c.out


def _packed(case):
    b = L.base
    v = [float(round(x)) for x in case["v"]] if case["ints"] else list(case["v"])
    if case["ints"]:
        v = [int(x) for x in v]
    if case.get("zeros"):
        v = [(0 if case["ints"] else 0.0) if z else x for x, z in zip(v, case["zeros"])]
    vp = list(v)                       # the packed vector keeps plain Python numbers
    if case.get("stype"):
        f = getattr(np, case["stype"][3:])
        if case["stype"] in ("np.float64", "np.float32"):
            v = [f(float(np.float32(x))) for x in v]
            vp = [float(x) for x in v]
        else:
            v = [f(abs(int(round(x))) if "uint" in case["stype"] else int(round(x))) for x in v]
            vp = [int(x) for x in v]
    name = case["name"]
    c = Checker("packed", name=name, ints=case["ints"], zeros=str(case.get("zeros")), stype=case.get("stype"))
    pairs = {
        "transl": (lambda: b.transl(v[0], v[1], v[2]), lambda: b.transl(vp)),
        "transl2": (lambda: b.transl2(v[0], v[1]), lambda: b.transl2(vp[:2])),
        "rpy2r": (lambda: b.rpy2r(v[0], v[1], v[2]), lambda: b.rpy2r(vp)),
        "rpy2tr": (lambda: b.rpy2tr(v[0], v[1], v[2]), lambda: b.rpy2tr(vp)),
        "eul2r": (lambda: b.eul2r(v[0], v[1], v[2]), lambda: b.eul2r(vp)),
        "eul2tr": (lambda: b.eul2tr(v[0], v[1], v[2]), lambda: b.eul2tr(vp)),
        "SE3": (lambda: L.SE3(v[0], v[1], v[2]).A, lambda: L.SE3(vp).A),
        "SE2": (lambda: L.SE2(v[0], v[1], v[2]).A, lambda: L.SE2(vp).A),
        "SE2xy": (lambda: L.SE2(v[0], v[1]).A, lambda: L.SE2(vp[:2]).A),
    }
    f1, f2 = pairs[name]
    ok1, r1 = c.lib(name + "/scalars", f1)
    ok2, r2 = c.lib(name + "/packed", f2)
    if ok1 and ok2:
        c.true(name + "/scalars=packed", same_out(r1, r2), "separate scalars give %r, packed vector gives %r" % (r1, r2))
    return c.out


def classify(case):
    if case.get("kind") in ("hist", "aug", "variant", "own"):
        return probes.classify(case)
    k = case["kind"]
    lab = {"kind:" + k: True}
    if k == "form":
        lab.update({"form:" + case["form"]: True, "ints": case["ints"]})
        lab["nontrivial"] = case["form"] not in ("list", "array") or case["ints"]
    elif k == "dtype":
        lab["nontrivial"] = True
        lab["dtype:" + case["dtype"]] = True
    elif k == "wronglen":
        lab["nontrivial"] = True
        lab["len:%d" % case["len"]] = True
    elif k == "scalartype":
        lab["nontrivial"] = case["type"] not in ("float",)
        lab["type:" + case["type"]] = True
    elif k == "unit":
        lab["nontrivial"] = True
        lab["returned_angle"] = case["name"] in RETURNING
    else:
        lab["nontrivial"] = True
    return lab


def subchecks(tier):
    return [
        Sub("forms", gen=gen_forms, shards=(8, 16)),
        Sub("dtypes", gen=gen_dtypes, shards=(8, 16)),
        Sub("callforms", gen=gen_callforms, shards=(2, 4)),
        Sub("callform_values", strategy=s_callform(), n=(200, 4000), shards=(2, 8)),
        Sub("dtype_values", strategy=s_dtype(), n=(300, 6000), shards=(4, 16)),
        Sub("wronglen", gen=gen_wronglen, shards=(8, 16)),
        Sub("theta_lengths", gen=gen_thetalen, shards=(1, 2)),
        Sub("options", gen=gen_options, shards=(2, 4)),
        Sub("printed_units", gen=gen_printunit, shards=(1, 2)),
        Sub("form_values", strategy=s_form(), n=(800, 10000), shards=(8, 16)),
        Sub("unit", strategy=s_unit(), n=(800, 8000), shards=(8, 16)),
        Sub("scalartypes", gen=gen_scalartypes, shards=(2, 4)),
        Sub("scalartype", strategy=s_scalartype(), n=(500, 4000), shards=(4, 8)),
        Sub("packed_cells", gen=gen_packed, shards=(2, 4)),
        Sub("packed", strategy=s_packed(), n=(500, 3000), shards=(4, 8)),
        *probes.subs(PROPERTY_ID),
    ]
