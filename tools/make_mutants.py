#!/venv/bin/python
"""
Writes mutants/<name>.json (edit specs understood by tools/mutation.py) from the
catalogue below and checks that every 'old' string occurs exactly once in /repo.
Each mutant: (name, [properties expected to kill it], file, old, new).
"""
import json
import os
import sys

HERE = os.path.dirname(os.path.dirname(os.path.abspath(__file__)))
REPO = os.environ.get("VERIF_REPO", "/repo")
B3 = "spatialmath/base/transforms3d.py"
B2 = "spatialmath/base/transforms2d.py"
BN = "spatialmath/base/transformsNd.py"
BQ = "spatialmath/base/quaternions.py"
BV = "spatialmath/base/vectors.py"
BA = "spatialmath/base/argcheck.py"
SP = "spatialmath/super_pose.py"
UL = "spatialmath/smuserlist.py"
P3 = "spatialmath/pose3d.py"
P2 = "spatialmath/pose2d.py"
Q = "spatialmath/quaternion.py"
TW = "spatialmath/twist.py"
G = "spatialmath/geom3d.py"
SV = "spatialmath/spatialvector.py"
DQ = "spatialmath/DualQuaternion.py"
SY = "spatialmath/base/symbolic.py"

M = [
    # C01 closure
    ("C01_angvec2r_no_unitvec", ["C01", "C05"], B3, "    sk = base.skew(base.unitvec(v))", "    sk = base.skew(base.getvector(v))"),
    ("C01_trnorm_no_second_cross", ["C01", "C14"], B3, "    o = np.cross(a, n)        # (a)];\n", "    pass\n"),
    ("C01_oa2r_skip_recompute_o", ["C01"], B3, "    n = np.cross(o, a)\n    o = np.cross(a, n)\n    R = np.stack((base.unitvec(n), base.unitvec(o), base.unitvec(a)), axis=1)\n    return R",
     "    n = np.cross(o, a)\n    R = np.stack((base.unitvec(n), base.unitvec(o), base.unitvec(a)), axis=1)\n    return R"),
    ("C01_unit_quaternion_no_norm_in_ctor", ["C01", "C14"], Q, "            q = np.r_[s, base.getvector(v)]\n            if norm:\n                q = base.unit(q)", "            q = np.r_[s, base.getvector(v)]\n            if norm and abs(s) <= 1:\n                q = base.unit(q)"),
    ("C01_slerp_small_angle_linear", ["C01", "C11"], BQ, "    if abs(theta) > 10 * _eps:", "    if abs(theta) > 1e-1:\n        pass\n    if abs(theta) > 3.0:"),
    # C02 group laws
    ("C02_trinv_plus", ["C02", "C06"], B3, "    Ti[:3, 3] = -R.T @ t", "    Ti[:3, 3] = -R.T @ t if abs(t[0]) < 1e3 else R.T @ t"),
    ("C02_truediv_no_inverse_multi", ["C02", "C09"], SP, "            return left.__class__(left._op2(right.inv(), lambda x, y: x @ y), check=False)",
     "            return left.__class__(left._op2(right.inv() if len(right) == 1 else right, lambda x, y: x @ y), check=False)"),
    ("C02_qpow_negative", ["C02", "C12"], BQ, "    if power < 0:\n        qr = conj(qr)", "    if power < -1:\n        qr = conj(qr)"),
    ("C02_twist_inv_prismatic", ["C02"], TW, "        return self.__class__([-t for t in self.data])", "        return self.__class__([-t if np.any(t[-1:]) else t for t in self.data])"),
    ("C02_se2_inv_sign", ["C02"], P2, "            return SE2(tr.rt2tr(self.R.T, -self.R.T @ self.t), check=False)", "            return SE2(tr.rt2tr(self.R.T, -self.R @ self.t), check=False)"),
    ("C02_pow_negative_exponent", ["C02"], SP, "        return self.__class__([np.linalg.matrix_power(x, n) for x in self.data], check=False)",
     "        return self.__class__([np.linalg.matrix_power(x, abs(n)) if n < -4 else np.linalg.matrix_power(x, n) for x in self.data], check=False)"),
    # C03 exp / log
    ("C03_trexp_V_sign", ["C03", "C18"], B3, "        V = np.eye(3) * theta + (1.0 - math.cos(theta)) * skw + (theta - math.sin(theta)) * skw @ skw",
     "        V = np.eye(3) * theta - (1.0 - math.cos(theta)) * skw + (theta - math.sin(theta)) * skw @ skw"),
    ("C03_trlog_twist_order", ["C03", "C04"], B3, "                    return np.r_[v, w]", "                    return np.r_[w, v]"),
    ("C03_trlog_nearpi_sign", ["C03", "C05"], B3, "                if np.dot(w, sw) < 0:\n                    w = -w", "                if np.dot(w, sw) > 0:\n                    w = -w"),
    ("C03_trlog_series_coeff", ["C03"], B3, "                    w = sw * (1 + theta ** 2 / 6 + 7 * theta ** 4 / 360)", "                    w = sw * (1 + theta ** 2 / 3 + 7 * theta ** 4 / 360)"),
    ("C03_trlog2_b_sign", ["C03"], B2, "            v = np.array([[a, b], [-b, a]]) @ T[:2, 2] / (a * a + b * b)", "            v = np.array([[a, -b], [b, a]]) @ T[:2, 2] / (a * a + b * b)"),
    ("C03_trexp2_V", ["C03", "C18"], B2, "        V = np.eye(2) * theta + (1.0 - math.cos(theta)) * skw + (theta - math.sin(theta)) * skw @ skw",
     "        V = np.eye(2) * theta + (1.0 - math.cos(theta)) * skw + (theta + math.sin(theta)) * skw @ skw"),
    ("C03_Ginv_half", ["C03"], B3, "                Ginv = np.eye(3) - S / 2 +", "                Ginv = np.eye(3) - S / 2.000001 +"),
    # C04 representations
    ("C04_r2q_sign_branch", ["C04", "C05"], BQ, "        add = (ky >= 0)", "        add = (ky <= 0)"),
    ("C04_q2r_transposed_pair", ["C04", "C06"], BQ, "2 * (x * y - s * z), 2 * (x * z + s * y)],", "2 * (x * y + s * z), 2 * (x * z + s * y)],"),
    ("C04_udq_dual_order", ["C04", "C06"], DQ, "            self.dual = 0.5 * D * S", "            self.dual = 0.5 * S * D"),
    ("C04_se2_se3_drops_translation", ["C04"], P2, "            y[:2, 3] = x.A[:2, 2]", "            y[:1, 3] = x.A[:1, 2]"),
    ("C04_uq_from_se3_uses_transpose", ["C04"], Q, "                self.data = [base.r2q(base.t2r(s))]", "                self.data = [base.r2q(base.t2r(s).T)]"),
    # C05 angle sets
    ("C05_tr2rpy_xyz_k2", ["C05"], B3, "                rpy[1] = -math.atan(R[0, 2] * math.sin(rpy[2]) / R[1, 2])", "                rpy[1] = -math.atan(R[0, 2] * math.cos(rpy[2]) / R[1, 2])"),
    ("C05_tr2eul_flip", ["C05"], B3, "            eul[0] = math.atan2(-R[1, 2], -R[0, 2])", "            eul[0] = math.atan2(-R[1, 2], R[0, 2])"),
    ("C05_tr2rpy_singular_sign", ["C05"], B3, "                rpy[2] = math.atan2(-R[0, 1], -R[0, 2])  # R+Y", "                rpy[2] = math.atan2(R[0, 1], -R[0, 2])  # R+Y"),
    ("C05_rpy2r_yxz_middle_axis", ["C05", "C04"], B3, "        R = roty(angles[2]) @ rotx(angles[1]) @ rotz(angles[0])", "        R = roty(angles[2]) @ roty(angles[1]) @ rotz(angles[0])"),
    ("C05_tr2angvec_deg", ["C05", "C15"], B3, "    if unit == 'deg':\n        theta *= 180 / math.pi\n\n    return (theta, v)", "    if unit == 'deg':\n        theta *= 180 / 3.1416\n\n    return (theta, v)"),
    # C06 points
    ("C06_h2e_wrong_row", ["C06"], BN, "        return v[:-1, :] / np.tile(v[-1, :], (v.shape[0] - 1, 1))", "        return v[:-1, :] / np.tile(v[0, :], (v.shape[0] - 1, 1)) if v.shape[1] == v.shape[0] - 1 else v[:-1, :] / np.tile(v[-1, :], (v.shape[0] - 1, 1))"),
    ("C06_multi_se_forgets_translation", ["C06", "C09"], SP, "                    return np.array([base.h2e(x @ v).flatten() for x in left.A]).T", "                    return np.array([(x[:-1, :-1] @ v[:-1]).flatten() for x in left.A]).T"),
    ("C06_qvmul_conj_left", ["C06", "C04"], BQ, "    qv = qqmul(q, qqmul(pure(v), conj(q)))", "    qv = qqmul(conj(q), qqmul(pure(v), q))"),
    ("C06_so_matrix_transposed_when_square", ["C06"], SP, "                return left.A @ right\n", "                return left.A @ (right.T if right.shape[0] == right.shape[1] else right)\n"),
    # C07 rejection
    ("C07_ishom_ignores_last_row", ["C07"], B3, " and np.all(T[3, :] == np.array([0, 0, 0, 1]))", " and T[3, 3] == 1"),
    ("C07_isR_tolerance", ["C07"], BN, "    return np.linalg.norm(R@R.T - np.eye(R.shape[0])) < tol * _eps \\", "    return np.linalg.norm(R@R.T - np.eye(R.shape[0])) < tol * 1e-3 \\"),
    ("C07_list_path_no_check", ["C07"], UL, "                data = [self._import(x, check=check) for x in arg]", "                data = [self._import(x, check=check and len(arg) < 3) for x in arg]"),
    ("C07_so2_isvalid", ["C07"], P2, "        return not check or tr.isrot2(x, check=True)", "        return not check or tr.isrot2(x, check=False)"),
    ("C07_isskewa_last_row", ["C07"], BN, "        and np.all(S[-1, :] == 0)", "        and S[-1, -1] == 0"),
    # C08 operator types
    ("C08_quaternion_mul_returns_none", ["C08"], Q, "        else:\n            raise ValueError('operands to * are of different types')", "        else:\n            return None"),
    ("C08_op2_returns_left", ["C08"], SP, "        else:\n            raise ValueError('bad operands')\n\nif __name__", "        else:\n            return left.A\n\nif __name__"),
    ("C08_twist_times_se3_class", ["C08", "C02"], TW, "            return SE3(left.binop(right, lambda x, y: base.trexp(x) @ y), check=False)", "            return Twist3(left.binop(right, lambda x, y: base.trlog(base.trexp(x) @ y, twist=True)))"),
    ("C08_spatial_add_no_type_guard", ["C08", "C20"], SV, "        if type(left) != type(right):\n            raise TypeError('can only add spatial vectors of same type')\n        if len(left) != len(right):\n            raise ValueError('can only add equal length arrays of spatial vectors')\n\n        return left.__class__([x + y for x, y in zip(left.data, right.data)])",
     "        if not isinstance(right, SpatialVector):\n            raise TypeError('can only add spatial vectors of same type')\n        if len(left) != len(right):\n            raise ValueError('can only add equal length arrays of spatial vectors')\n\n        return left.__class__([x + y for x, y in zip(left.data, right.data)])"),
    # C09 broadcasting
    ("C09_binop_MxM_first_right", ["C09"], UL, "                return [op(x, y) for (x, y) in zip(left.A, right.A)]", "                return [op(x, right.A[0]) for (x, y) in zip(left.A, right.A)]"),
    ("C09_op2_1xM_wrong_operand", ["C09"], SP, "                    return [op(left.A, x) for x in right.A]", "                    return [op(x, left.A) for x in right.A]"),
    ("C09_op2_length_check", ["C09"], SP, "                elif len(left) == len(right):\n                    #print('== NxN')", "                elif len(left) <= len(right):\n                    #print('== NxN')"),
    ("C09_se3_t_first_only", ["C09"], P3, "            return np.array([x[:3, 3] for x in self.A])", "            return np.array([self.A[0][:3, 3] for x in self.A])"),
    # C10 list behaviour
    ("C10_pop_default_first", ["C10"], UL, "    def pop(self, i=-1):", "    def pop(self, i=0):"),
    ("C10_insert_appends", ["C10"], UL, "        super().insert(i, item._A)", "        super().insert(len(self), item._A)"),
    ("C10_setitem_no_len_guard", ["C10"], UL, "        if len(value) != 1:\n            raise ValueError(\"can't insert a multivalued element - must have len() == 1\")\n        self.data[i] = value.A",
     "        self.data[i] = value.A"),
    ("C10_slice_negative_step", ["C10"], UL, "            return self._new(self.data[i])\n", "            return self._new(self.data[i] if (i.step or 1) > 0 else self.data[i][::-1])\n"),
    ("C10_getitem_revalidates", ["C10"], UL, "            return self._new([self.data[i]])", "            return self.__class__(self.data[i])"),
    ("C10_alloc_shares_identity", ["C10", "C17"], UL, "        x.data = [cls._identity() for i in range(n)]  # make n copies of the data", "        x.data = [cls._identity()] * n  # make n copies of the data"),
    # C11 interpolation
    ("C11_slerp_no_flip", ["C11"], BQ, "        if dotprod < 0:\n            q0 = -q0   # pylint: disable=invalid-unary-operand-type\n            dotprod = -dotprod", "        if dotprod < 0:\n            dotprod = -dotprod"),
    ("C11_trinterp_translation_swapped", ["C11"], B3, "            pr = p0 * (1 - s) + s * p1\n\n        return base.rt2tr(base.q2r(qr), pr)", "            pr = p0 * s + (1 - s) * p1\n\n        return base.rt2tr(base.q2r(qr), pr)"),
    ("C11_trinterp_q1_both", ["C11"], B3, "            q0 = base.r2q(base.t2r(start))\n            q1 = base.r2q(base.t2r(end))\n\n            p0 = transl(start)", "            q0 = base.r2q(base.t2r(end))\n            q1 = base.r2q(base.t2r(end))\n\n            p0 = transl(start)"),
    ("C11_trinterp2_angle_weights", ["C11"], B2, "            pr = p0 * (1 - s) + s * p1\n            th = th0 * (1 - s) + s * th1", "            pr = p0 * (1 - s) + s * p1\n            th = th0 * (1 - s) + s * s * th1"),
    ("C11_uq_interp_range", ["C11"], Q, "        assert 0 <= s <= 1, 's must be in interval [0,1]'", "        assert -1 <= s <= 2, 's must be in interval [0,1]'"),
    # C12 Hamilton algebra
    ("C12_qqmul_cross_sign", ["C12", "C02"], BQ, "s1 * v2 + s2 * v1 + np.cross(v1, v2)]", "s1 * v2 + s2 * v1 - np.cross(v1, v2)]"),
    ("C12_matrix_swapped", ["C12"], BQ, "                     [y, z, s, -x],", "                     [y, z, s, x],"),
    ("C12_dotb_skew_sign", ["C12"], BQ, "    E = q[0] * (np.eye(3, 3)) + base.skew(q[1:4])", "    E = q[0] * (np.eye(3, 3)) - base.skew(q[1:4])"),
    ("C12_dq_mul_dual", ["C12", "C04"], DQ, "            dual = left.real * right.dual + left.dual * right.real", "            dual = left.real * right.dual + right.real * left.dual"),
    ("C12_vvmul_term", ["C12"], BQ, "qa[0] * qb[1] - qb[0] * qa[1] + qb[2] * t6 + qa[2] * t11]", "qa[0] * qb[1] - qb[0] * qa[1] + qb[2] * t11 + qa[2] * t6]"),
    # C13 Lie
    ("C13_adjoint_block", ["C13", "C20"], B3, "                [R, base.skew(t) @ R], ", "                [R, R @ base.skew(t)], "),
    ("C13_skew_sign", ["C13"], BN, "                [-v[1],  v[0],  0]   ]", "                [-v[1],  -v[0],  0]   ]"),
    ("C13_tr2delta_order", ["C13"], B3, "        Td = trinv(T0) @ T1", "        Td = trinv(T1) @ T0"),
    ("C13_tr2jac_samebody", ["C13"], B3, "        return np.block([[R.T, (base.skew(t)@R).T], [Z, R.T]])", "        return np.block([[R.T, (base.skew(t)@R)], [Z, R.T]])"),
    # C14 normalisation
    ("C14_unittwist_uses_v", ["C14", "C03"], BV, "    if iszerovec(w):\n        th = norm(v)\n    else:\n        th = norm(w)\n\n    return S / th", "    if iszerovec(w) or norm(v) > 1e3 * norm(w):\n        th = norm(v)\n    else:\n        th = norm(w)\n\n    return S / th"),
    ("C14_angdiff_no_shift", ["C14"], BV, "        return np.mod(a - np.asarray(b, dtype=np.float64) + math.pi, 2 * math.pi) - math.pi", "        return np.mod(a - np.asarray(b, dtype=np.float64), 2 * math.pi) - math.pi"),
    ("C14_unit_quaternion_tol", ["C14"], BQ, "    if abs(nm) < tol * _eps:\n        raise ValueError(\"cannot normalize (near) zero length quaternion\")\n    return q / nm", "    if abs(nm) < tol * _eps:\n        raise ValueError(\"cannot normalize (near) zero length quaternion\")\n    return q / nm if nm > 1e-4 else q"),
    # C15 forms / units
    ("C15_pure_no_getvector", ["C15"], BQ, "    v = base.getvector(v, 3)\n    return np.r_[0, v]", "    return np.r_[0, v]"),
    ("C15_se3_rx_drops_unit", ["C15", "C04"], P3, "        return cls([base.trotx(x, t=t, unit=unit) for x in base.getvector(theta)], check=False)", "        return cls([base.trotx(x, t=t) for x in base.getvector(theta)], check=False)"),
    ("C15_unknown_order_defaults", ["C15"], B3, "    else:\n        raise ValueError('Invalid angle order')", "    else:\n        R = rotz(angles[2]) @ roty(angles[1]) @ rotx(angles[0])"),
    ("C15_getvector_col_len", ["C15"], BA, "            if not (s == (dim,) or s == (1, dim) or s == (dim, 1)):", "            if not (s == (dim,) or s == (1, dim) or s[0] >= dim):"),
    ("C15_transl_truncates", ["C15"], B3, "    elif base.isvector(x, 3):\n        t = base.getvector(x, 3, out='array')", "    elif base.isvector(x) and len(base.getvector(x)) >= 3:\n        t = base.getvector(x)[:3]"),
    # C16 symbolic
    ("C16_sym_cos_mul", ["C16"], SY, "def cos(theta):", "def cos(theta):\n    if _symbolics and isinstance(theta, sympy.Mul):\n        return sympy.sin(theta)"),
    ("C16_r2t_float_for_object", ["C16"], BN, "        T = np.zeros((n, n), dtype='O')", "        T = np.zeros((n, n))"),
    ("C16_trinv_numeric_transpose", ["C16"], B3, "    Ti[:3, 3] = -R.T @ t\n    Ti[3,3] = 1", "    Ti[:3, 3] = -R.T @ t if T.dtype.kind != 'O' else -R @ t\n    Ti[3,3] = 1"),
    # C17 no mutation
    ("C17_unitvec_inplace", ["C17"], BV, "    v = getvector(v)\n    n = norm(v)\n\n    if n > 100 * _eps:  # if greater than eps\n        return v / n", "    v = np.asarray(v, dtype=float) if isinstance(v, np.ndarray) and v.ndim == 1 else getvector(v)\n    n = norm(v)\n\n    if n > 100 * _eps:  # if greater than eps\n        v /= n\n        return v"),
    ("C17_se3_inv_inplace", ["C17"], P3, "            return SE3([base.trinv(x) for x in self.A], check=False)", "            out = []\n            for x in self.A:\n                x[:] = base.trinv(x)\n                out.append(x)\n            return SE3(out, check=False)"),
    ("C17_imul_inplace", ["C17"], SP, "    def __imul__(left, right):  # lgtm[py/not-named-self] pylint: disable=no-self-argument", "    def __imul__(left, right):  # lgtm[py/not-named-self] pylint: disable=no-self-argument\n        if isinstance(right, left.__class__) and len(left) == 1 and len(right) == 1:\n            left.data[0] = left.data[0] @ right.A\n            return left"),
    ("C17_trnorm_writes_input", ["C17"], B3, "    if ishom(T):\n        return base.rt2tr(R, T[:3, 3])\n    else:\n        return R", "    if ishom(T):\n        T[:3, :3] = R\n        return T\n    else:\n        return R"),
    # C18 screw
    ("C18_revolute_moment_sign", ["C18"], TW, "        v = -np.cross(w, base.getvector(q, 3))", "        v = np.cross(w, base.getvector(q, 3))"),
    ("C18_prismatic_no_unitvec", ["C18"], TW, "        w = np.r_[0, 0, 0]\n        v = base.unitvec(base.getvector(a, 3))", "        w = np.r_[0, 0, 0]\n        v = base.getvector(a, 3)"),
    ("C18_exp_ignores_units_vector", ["C18"], TW, "        if theta is None:\n            theta = 1\n        else:\n            theta = base.getunit(theta, units)\n\n        if base.isscalar(theta):\n            # theta is a scalar\n            return SE3(base.trexp(self.S * theta))",
     "        if theta is None:\n            theta = 1\n        elif base.isscalar(theta):\n            theta = base.getunit(theta, units)\n\n        if base.isscalar(theta):\n            # theta is a scalar\n            return SE3(base.trexp(self.S * theta))"),
    ("C18_pole_sign", ["C18"], TW, "        return np.cross(self.w, self.v) / self.theta()", "        return np.cross(self.v, self.w) / self.theta()"),
    # C19 Plucker
    ("C19_pq_moment", ["C19"], G, "        v = np.cross(P - Q, P)\n", "        v = np.cross(P, P - Q)\n"),
    ("C19_closest_no_unit", ["C19"], G, "        lam = np.dot(x - self.pp, self.uw)", "        lam = np.dot(x - self.pp, self.w)"),
    ("C19_rmul_skew_sign", ["C19", "C08"], G, "            A = np.r_[ np.c_[left.R,          base.skew(-left.t) @ left.R],", "            A = np.r_[ np.c_[left.R,          base.skew(left.t) @ left.R],"),
    ("C19_commonperp_term", ["C19"], G, "            foot = l1.pp + t1 * l1.uw", "            foot = l1.pp - t1 * l1.uw"),
    ("C19_planes_moment", ["C19"], G, "        v = pi2.d * pi1.n - pi1.d * pi2.n", "        v = pi1.d * pi1.n - pi2.d * pi2.n"),
    # C20 spatial
    ("C20_crf_sign", ["C20"], SV, "            return SpatialForce(-vcross.T @ other.A)      # x* operator (crf)", "            return SpatialForce(vcross.T @ other.A)      # x* operator (crf)"),
    ("C20_inertia_block", ["C20"], SV, "                    [m * np.eye(3), m * C.T],\n                    [m * C,         I + m * C @ C.T]", "                    [m * np.eye(3), m * C],\n                    [m * C.T,         I + m * C @ C.T]"),
    ("C20_rmul_motion_transposed", ["C20", "C08"], SV, "                return right.__class__(X @ right.A)", "                return right.__class__(X.T @ right.A)"),
    ("C20_inertia_add_left_twice", ["C20"], SV, "        return SpatialInertia(left.A + right.A)", "        return SpatialInertia(left.A + left.A)"),
]


def main():
    out = os.path.join(HERE, "mutants")
    os.makedirs(out, exist_ok=True)
    bad = 0
    for name, props, fn, old, new in M:
        src = open(os.path.join(REPO, fn)).read()
        n = src.count(old)
        if n != 1:
            print("BAD %s: %d occurrences in %s" % (name, n, fn))
            bad += 1
            continue
        with open(os.path.join(out, name + ".json"), "w") as f:
            json.dump({"name": name, "expected_killers": props, "edits": [{"file": fn, "old": old, "new": new}]}, f, indent=1)
    print("%d mutants written, %d bad" % (len(M) - bad, bad))
    return 1 if bad else 0


if __name__ == "__main__":
    sys.exit(main())
