#!/venv/bin/python
"""
False-alarm evaluation against behaviour-preserving refactorings (sub-agent output or /verif/refactors/*):

  tools/eval_refactor.py <dir-with-patch.diff> [--seed 1] [--props C01,C02,...] [--procs 4]

Copies /repo to a scratch tree, applies patch.diff, runs the quick subset of the
repository tests (must pass), then runs EVERY quick check against the changed
tree.  Every check is expected to stay silent; any VIOLATION is either a false
alarm of the check (to be corrected) or a refactoring that is not in fact
behaviour preserving (to be shown with the replayed case).  Prints one line.
"""
import argparse
import os
import shutil
import subprocess
import sys
import tempfile

VERIF = os.path.dirname(os.path.dirname(os.path.abspath(__file__)))
TESTS = ["-q", "-p", "no:cacheprovider", "tests", "-x", "-k", "not plot and not animate and not graphics and not symbolic"]
ALL = ["C%02d" % i for i in range(1, 21)]


def main():
    ap = argparse.ArgumentParser()
    ap.add_argument("dir")
    ap.add_argument("--seed", default="1")
    ap.add_argument("--props", default=",".join(ALL))
    ap.add_argument("--procs", default="4")
    ap.add_argument("--keep", action="store_true")
    a = ap.parse_args()
    d = os.path.abspath(a.dir)
    scratch = tempfile.mkdtemp(prefix="smref_")
    tree = os.path.join(scratch, "repo")
    env = dict(os.environ, PYTHONDONTWRITEBYTECODE="1", MPLBACKEND="Agg")
    out = {"dir": d}
    try:
        shutil.copytree("/repo", tree, ignore=shutil.ignore_patterns(".git", "__pycache__", "*.pyc", "docs", ".pytest_cache"))
        r = subprocess.run(["patch", "-p1", "-s", "-i", os.path.join(d, "patch.diff")], cwd=tree, capture_output=True, text=True)
        if r.returncode != 0:
            out["patch"] = "FAILED " + (r.stdout + r.stderr)[:200]
            print(out)
            return 2
        r = subprocess.run(["/venv/bin/python", "-W", "ignore", "-m", "pytest"] + TESTS, cwd=tree, env=env, capture_output=True, text=True)
        out["tests"] = "pass" if r.returncode == 0 else "FAIL"
        alarms = {}
        for pid in a.props.split(","):
            env2 = dict(os.environ, VERIF_REPO=tree, VERIF_OUT=os.path.join(scratch, "out"), VERIF_SEED=a.seed, VERIF_PROCS=a.procs)
            r = subprocess.run([os.path.join(VERIF, "check"), pid, "--tier", "quick"], env=env2, capture_output=True, text=True)
            if r.returncode != 0:
                sites = sorted({l.split("site=")[1].split(" features")[0] for l in r.stdout.splitlines() if l.strip().startswith("site=")})
                alarms[pid] = (r.returncode, sites[:4])
                if a.keep:
                    keep = os.path.join(d, "alarm_%s.txt" % pid)
                    open(keep, "w").write(r.stdout[-6000:] + r.stderr[-2000:])
        out["alarms"] = alarms
        print(out)
        return 0 if not alarms and out["tests"] == "pass" else 1
    finally:
        shutil.rmtree(scratch, ignore_errors=True)


if __name__ == "__main__":
    sys.exit(main())
