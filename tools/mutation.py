#!/venv/bin/python
"""
Sensitivity protocol (DESIGN.md section 6).

  tools/mutation.py <patch> <Cxx> [<Cxx> ...] [--seeds 1,2] [--tier quick] [--only sub,sub]

Copies /repo's working tree (without .git) to a scratch directory outside /repo
and /verif, applies the patch there, runs the named checks against the copy via
VERIF_REPO, reports KILLED / SURVIVED per (check, seed) and removes the copy.
Exit 0 iff every named check killed the mutant at every seed.
"""
import argparse
import os
import shutil
import subprocess
import sys
import tempfile

VERIF = os.path.dirname(os.path.dirname(os.path.abspath(__file__)))


def main():
    ap = argparse.ArgumentParser()
    ap.add_argument("patch")
    ap.add_argument("props", nargs="+")
    ap.add_argument("--seeds", default="1,2")
    ap.add_argument("--tier", default="quick")
    ap.add_argument("--only", default=None)
    ap.add_argument("--keep-output", action="store_true")
    ap.add_argument("--repo", default="/repo")
    a = ap.parse_args()
    scratch = tempfile.mkdtemp(prefix="smmut_", dir=os.environ.get("TMPDIR", "/tmp"))
    tree = os.path.join(scratch, "repo")
    out = os.path.join(scratch, "out")
    ok = True
    try:
        shutil.copytree(a.repo, tree, ignore=shutil.ignore_patterns(".git", "__pycache__", "*.pyc", "docs", ".pytest_cache"))
        if a.patch.endswith(".json"):
            import json
            spec = json.load(open(a.patch))
            for ed in spec["edits"]:
                fn = os.path.join(tree, ed["file"])
                src = open(fn).read()
                if src.count(ed["old"]) != 1:
                    print("PATCH-FAILED %s: %d occurrences of %r in %s" % (a.patch, src.count(ed["old"]), ed["old"], ed["file"]))
                    return 2
                open(fn, "w").write(src.replace(ed["old"], ed["new"]))
        else:
            r = subprocess.run(["patch", "-p1", "-s", "-i", os.path.abspath(a.patch)], cwd=tree, capture_output=True, text=True)
            if r.returncode != 0:
                print("PATCH-FAILED", a.patch, r.stdout, r.stderr)
                return 2
        for pid in a.props:
            for seed in a.seeds.split(","):
                env = dict(os.environ, VERIF_REPO=tree, VERIF_OUT=out, VERIF_SEED=seed)
                cmd = [os.path.join(VERIF, "check"), pid, "--tier", a.tier]
                if a.only:
                    cmd += ["--only", a.only]
                r = subprocess.run(cmd, env=env, capture_output=True, text=True)
                sites = [l.split("site=")[1].split(" ")[0] for l in r.stdout.splitlines() if l.strip().startswith("site=")]
                verdict = "KILLED" if r.returncode == 1 else ("HARNESS-ERROR" if r.returncode == 2 else "SURVIVED")
                print("%s %s seed=%s %s sites=%s" % (verdict, pid, seed, os.path.basename(a.patch), sorted(set(sites))[:6]))
                if a.keep_output or r.returncode == 2:
                    print(r.stdout[-3000:])
                    print(r.stderr[-2000:])
                if r.returncode != 1:
                    ok = False
    finally:
        shutil.rmtree(scratch, ignore_errors=True)
    return 0 if ok else 1


if __name__ == "__main__":
    sys.exit(main())
