#!/venv/bin/python
"""
Evaluate independently written seeded changes (sub-agent output or /verif/seeded/*):

  tools/eval_seeded.py <dir-with-patch.diff-and-demo.py> <Cxx> [--seeds 1,2] [--also C.. C..]

For the change in <dir>:
  1. copy /repo to a scratch tree, check demo.py PASSES there (unchanged library),
  2. apply patch.diff, run the quick subset of the repository tests (must pass),
  3. check demo.py FAILS on the changed tree,
  4. run ./check Cxx (quick) against the changed tree at each seed -> KILLED / SURVIVED.
Prints one summary line; exit 0 iff the change is confirmed and killed at every seed.
"""
import argparse
import os
import shutil
import subprocess
import sys
import tempfile

VERIF = os.path.dirname(os.path.dirname(os.path.abspath(__file__)))
TESTS = ["-q", "-p", "no:cacheprovider", "tests", "-x", "-k", "not plot and not animate and not graphics and not symbolic"]


def main():
    ap = argparse.ArgumentParser()
    ap.add_argument("dir")
    ap.add_argument("prop")
    ap.add_argument("--seeds", default="1,2")
    ap.add_argument("--also", nargs="*", default=[])
    ap.add_argument("--tier", default="quick")
    a = ap.parse_args()
    d = os.path.abspath(a.dir)
    scratch = tempfile.mkdtemp(prefix="smseed_")
    tree = os.path.join(scratch, "repo")
    env = dict(os.environ, PYTHONDONTWRITEBYTECODE="1", MPLBACKEND="Agg")
    out = {"dir": d, "prop": a.prop}
    try:
        shutil.copytree("/repo", tree, ignore=shutil.ignore_patterns(".git", "__pycache__", "*.pyc", "docs", ".pytest_cache"))
        demo = os.path.join(d, "demo.py")
        r = subprocess.run(["/venv/bin/python", "-W", "ignore", demo], cwd=tree, env=env, capture_output=True, text=True, timeout=1800)
        out["demo_before"] = "pass" if r.returncode == 0 else "FAIL(%d)" % r.returncode
        r = subprocess.run(["patch", "-p1", "-s", "-i", os.path.join(d, "patch.diff")], cwd=tree, capture_output=True, text=True)
        if r.returncode != 0:
            out["patch"] = "FAILED " + (r.stdout + r.stderr)[:200]
            print(out)
            return 2
        r = subprocess.run(["/venv/bin/python", "-W", "ignore", "-m", "pytest"] + TESTS, cwd=tree, env=env, capture_output=True, text=True)
        out["tests"] = "pass" if r.returncode == 0 else "FAIL"
        r = subprocess.run(["/venv/bin/python", "-W", "ignore", demo], cwd=tree, env=env, capture_output=True, text=True, timeout=1800)
        out["demo_after"] = "pass" if r.returncode == 0 else "fail"
        ok = True
        for pid in [a.prop] + a.also:
            for seed in a.seeds.split(","):
                env2 = dict(os.environ, VERIF_REPO=tree, VERIF_OUT=os.path.join(scratch, "out"), VERIF_SEED=seed)
                r = subprocess.run([os.path.join(VERIF, "check"), pid, "--tier", a.tier], env=env2, capture_output=True, text=True)
                sites = sorted({l.split("site=")[1].split(" features")[0] for l in r.stdout.splitlines() if l.strip().startswith("site=")})
                v = "KILLED" if r.returncode == 1 else "HARNESS-ERROR" if r.returncode == 2 else "SURVIVED"
                out["%s@%s" % (pid, seed)] = (v, sites[:3])
                if pid == a.prop and v != "KILLED":
                    ok = False
        print(out)
        confirmed = out["demo_before"] == "pass" and out["tests"] == "pass" and out["demo_after"] == "fail"
        return 0 if (ok and confirmed) else 1
    finally:
        shutil.rmtree(scratch, ignore_errors=True)


if __name__ == "__main__":
    sys.exit(main())
