#!/bin/bash
# offline setup: make sure hypothesis (and, optionally, atheris) are importable by /venv/bin/python
cd "$(dirname "$0")/.." || exit 1
mkdir -p .deps evidence replays
if ! /venv/bin/python -c "import hypothesis" 2>/dev/null; then
  /venv/bin/pip install --no-index --find-links /opt/veriftools/wheels --target .deps hypothesis >/dev/null 2>&1 || echo "warning: hypothesis install failed"
fi
if ! PYTHONPATH=.deps /venv/bin/python -c "import mpmath" 2>/dev/null; then
  /venv/bin/pip install --no-index --find-links /opt/veriftools/wheels --target .deps mpmath >/dev/null 2>&1 || echo "warning: mpmath install failed"
fi
if ! PYTHONPATH=.deps /venv/bin/python -c "import atheris" 2>/dev/null; then
  /venv/bin/pip install --no-index --find-links /opt/veriftools/wheels --target .deps atheris >/dev/null 2>&1 || echo "note: atheris unavailable; thorough tiers fall back to Hypothesis only"
fi
PYTHONPATH=.deps /venv/bin/python -c "import hypothesis, numpy, scipy, sympy, mpmath; print('setup ok: hypothesis', hypothesis.__version__)"
