#!/bin/bash
# re-evaluate every kept seeded change against its property's quick check (3 in parallel); writes seeded/RESULTS.txt
cd "$(dirname "$0")/.." || exit 2
out=seeded/RESULTS.txt
: > $out.tmp
ls -d seeded/C*_[0-9] | xargs -P 3 -I{} bash -c 'd={}; p=$(basename $d | cut -d_ -f1); tools/eval_seeded.py $d $p --seeds 1,2 2>&1 | tail -1' >> $out.tmp
sort $out.tmp > $out; rm -f $out.tmp
grep -c KILLED $out
