#!/venv/bin/python
"""Regenerate MANIFEST.json from the table below (keeps it schema-valid at all times)."""
import json
import os

HERE = os.path.dirname(os.path.dirname(os.path.abspath(__file__)))

# id -> (technique, level text, level note, DESIGN section)
CLAIMED = {
    "C10": ("model-based generation of list-operation histories (Hypothesis) + exhaustive enumeration of slices, indices and short sequences against a Python-list reference model",
            "Exploration: every slice (start, stop in None,-7..7; step in None,+-1,+-2,+-3), every index -7..7 and every operation sequence up to length 3 (quick) / 4 (thorough) from start lengths 0..4 is enumerated for every list-capable class, plus random histories up to 30/60 steps; after each step length, element values and classes are compared with a Python list. Complete for the enumerated sub-domains, sampled beyond them.",
            "trusts Python list semantics as the model and NumPy array_equal; element values are distinct tagged arrays built without library constructors",
            "4/C10"),
}

NOT_YET = {}


def main():
    props = [json.loads(l) for l in open(os.path.join(HERE, "properties.jsonl"))]
    checks = []
    na = []
    for p in props:
        pid = p["id"]
        if pid in CLAIMED:
            tech, text, note, ref = CLAIMED[pid]
            checks.append({
                "property_id": pid,
                "quick_cmd": "./check %s --tier quick" % pid,
                "thorough_cmd": "./check %s --tier thorough" % pid,
                "evidence_file": "evidence/%s.json" % pid,
                "replay_cmd_template": "./check %s --replay {path}" % pid,
                "engine": "pbt",
                "level_claimed": {"category": "exploration", "text": text, "design_ref": "DESIGN.md section " + ref},
                "level_note": note,
                "technique": tech,
            })
        else:
            na.append({"property_id": pid, "reason": NOT_YET.get(pid, "check not built yet in this revision of /verif (planned in DESIGN.md section 4); not claimed until it runs green on the unchanged tree")})
    man = {
        "version": 1,
        "setup_cmd": "./tools/setup.sh",
        "hooks": {
            "guard": "SPATIALMATH_VERIF",
            "enable": "no source hooks are needed: every property is observable through the public API; checks import /repo's working tree directly (VERIF_REPO selects another tree for mutation runs)",
            "baseline_off_cmd": "cd /repo && /venv/bin/python -m pytest -ra -q -p no:cacheprovider --timeout=900 --continue-on-collection-errors",
            "source_commits": [],
            "add_only": True,
        },
        "engines": [{"name": "pbt", "path": "pbt/", "serves_properties": sorted(CLAIMED),
                     "kind_free_text": "Hypothesis strategies + exhaustive enumerators + (thorough) atheris targets driving one JSON-case oracle per property; multiprocessing shards; replay and known-findings attribution"}],
        "checks": checks,
        "notes": "All checks: exit 0 held / 1 VIOLATION lines / 2 harness error. Seeds via VERIF_SEED. Known findings in known_findings.json.",
        "not_applicable": na,
    }
    with open(os.path.join(HERE, "MANIFEST.json"), "w") as f:
        json.dump(man, f, indent=1)
    print("claimed", len(checks), "not claimed", len(na))


if __name__ == "__main__":
    main()
