#!/venv/bin/python
"""Regenerate MANIFEST.json from the table below (keeps it schema-valid at all times)."""
import json
import os

HERE = os.path.dirname(os.path.dirname(os.path.abspath(__file__)))

# id -> (technique, level text, level note, DESIGN section)
CLAIMED = {
    "C10": ("model-based stateful testing: Hypothesis RuleBasedStateMachine (one rule per list operation) and op-list histories + exhaustive enumeration of slices, indices and short sequences against a Python-list reference model",
            "Exploration: every slice (start, stop in None,-7..7; step in None,+-1,+-2,+-3), every index -7..7 and every operation sequence up to length 3 (quick) / 4 (thorough) from start lengths 0..4 is enumerated for every list-capable class, plus random histories up to 30/60 steps; after each step length, element values and classes are compared with a Python list. Complete for the enumerated sub-domains, sampled beyond them.",
            "trusts Python list semantics as the model and NumPy array_equal; element values are distinct tagged arrays built without library constructors",
            "4/C10"),
}

EXPL = "Exploration by generated-input search against an independent oracle; "
CLAIMED.update({
    "C03": ("Hypothesis-generated algebra/group elements vs 50-digit mpmath matrix exponential (differential oracle) and exp/log round trips",
            EXPL + "exp is compared with a 50-digit reference exponential, log is judged by structure, magnitude and reference-exp round trip over rotation magnitudes log-uniform from 1e-12 to pi (both ends, exact 0 and pi), translations to 1e6, vector/matrix forms, 2D and 3D, base functions and class wrappers.",
            "mpmath and the closed-form reference exponential in pbt/refs.py (cross-checked at start-up); tolerance 1e-7*max(1,|t|) as stated", "4/C03"),
    "C05": ("Hypothesis-generated angle triples / axis-angle pairs biased to singular configurations; right-inverse and documented-order oracles built from reference axis rotations",
            EXPL + "constructors are compared with the documented product of reference axis rotations, extraction is judged by rebuilding the matrix (1e-6) and by angle ranges, including exact singular values and offsets 1e-12..1e-1 around them, every order/alias, flip, deg/rad, SO3/SE3/UnitQuaternion methods and the planar functions.",
            "reference rotations in pbt/refs.py; extraction is not required to return the generating angles", "4/C05"),
    "C13": ("Hypothesis-generated vectors (incl. exact integers), rigid motions and twists; algebraic identities checked against reference adjoint / scipy expm",
            EXPL + "hat/vee maps are checked exactly on integer vectors, adjoint identities (homomorphism, inverse, conjugation, exp(ad)=Ad(exp)), Jacobians and differential motion over the whole group with |t| <= 1e3 and |d| in 1e-9..1e-2.",
            "NumPy/SciPy linear algebra and pbt/refs.py; tolerances as stated in the property", "4/C13"),
    "C14": ("Hypothesis-generated perturbed members, vectors, quaternions, twists around the zero threshold and angles incl. multiples of pi; validity, idempotence and direction oracles (mpmath for congruence)",
            EXPL + "trnorm/unit/unitvec/unittwist/angdiff and their class wrappers are judged by validity of the result, idempotence, fixed-point on valid input and preserved directions to 1e-12.",
            "mpmath for the modulo-2pi residual; one recorded finding (F-C14-1) is excluded by site+input class", "4/C14"),
    "C18": ("Hypothesis-generated screw axes, points and angles; geometric oracle (axis points fixed, reference Rodrigues rotation, translation along unit direction)",
            EXPL + "revolute/prismatic unit twists in 3D and 2D with axis lengths 1e-3..1e6, |q| <= 1e3, theta in [-2pi,2pi] (scalar, vector, deg) are exponentiated and judged geometrically, with pitch/pole/line/theta/isprismatic/se3/inv/scalar-multiple consistency.",
            "pbt/refs.py Rodrigues; tolerance 1e-9*max(1,|q|)", "4/C18"),
    "C20": ("exhaustive class-pair x length cells + Hypothesis-generated 6-vectors, inertias and rigid motions against explicit 6x6 matrix formulas",
            EXPL + "typed arithmetic is enumerated over every ordered pair of the four spatial-vector classes and lengths 1..3; cross products, parallel-axis inertia, inertia sums/products and SE3 premultiplication are compared with explicit matrix formulas for magnitudes 1e-6..1e6.",
            "reference adjoint / skew from pbt/refs.py; 1e-9 relative", "4/C20"),
    "C02": ("Hypothesis-generated triples and expression trees (depth<=5) per class; both sides of each group law evaluated by the library and against a NumPy reference; structured inverse vs 50-digit mpmath inverse",
            EXPL + "associativity, identity, two-sided inverse, (XY)^-1, division, integer powers |n|<=8, sequence product and random expression trees are evaluated in SO2/SE2/SO3/SE3/UnitQuaternion (and * / inv for Twist2/Twist3, compared as motions) over rotation angles in [0,pi] incl. both ends and translations to 1e6.",
            "NumPy reference evaluation with transposed-rotation inverses, mpmath inverse; tolerance scaled by the largest intermediate translation", "4/C02"),
    "C06": ("Hypothesis-generated poses, point sets (d x N, N=1..7) and container forms; differential oracle R p + t with all representations built from the same reference parameters",
            EXPL + "SO/SE/UnitQuaternion/UnitDualQuaternion objects and the homtrans/qvmul/h2e routes are applied to points in every container form and compared with NumPy R p + t, plus composition/inverse/isometry/column-wise and multi-valued-pose relations, coordinates 1e-6..1e6.",
            "reference q2r / Rodrigues from pbt/refs.py; 1e-9 relative to max(1,|t|,|p|)", "4/C06"),
    "C07": ("exhaustive (class x defect x container) cells + Hypothesis-generated perturbed members; independent distance-from-group oracle deciding must-raise / must-accept / contents of any returned object",
            EXPL + "every constructor class is fed valid, noisy (1e-12..1), reflected, scaled, last-row-corrupted, non-algebra and wrongly shaped arrays bare and inside lists (also mixed with valid items); membership, skew, identity, unit and zero predicates are judged outside a 1e-6 band.",
            "distance proxy = orthogonality residual / determinant sign / last row / algebra residual; values between 5e-15 and 1e-5 from the group may go either way", "4/C07"),
    "C12": ("exact randomized polynomial-identity testing on 64-bit integers through the library's own code (object arrays) + Hypothesis float cases + SymPy expansion of the same identities",
            EXPL + "Hamilton-algebra identities are executed exactly on big integers (Schwartz-Zippel identity test), in floats for magnitudes 1e-6..1e6, for powers |n|<=6, the 3-vector form, rate functions, exp/log, and dual quaternions (associativity, 8x8 matrix, conjugate, norm).",
            "Python integer arithmetic; reference product table in pbt/refs.py; the symbolic pass is supplementary", "4/C12"),
    "C08": ("exhaustive enumeration of (operator x left kind x right kind x length pair) cells against an oracle table transcribed from the operator documentation + Hypothesis-drawn operand values",
            EXPL + "all ordered pairs of the 16 public classes plus scalars and arrays under * / + - ** @ == != ^ | and single/multi-valued operands (about 7000 cells) are executed; undocumented mixed-class pairs must raise, documented pairs must return the documented class, length and (for the pairs named in the statement) the reference value; never None, an identity or foreign elements.",
            "the table DOC in pbt/props/c08_types.py (DESIGN.md appendix A); ndarray-left cells excluded", "4/C08"),
    "C09": ("exhaustive (class x operator x m x n) cells for m,n in 1..5 + Hypothesis-drawn distinct element values; metamorphic oracle: multi-valued result element i = single-valued operation on the i-th elements",
            EXPL + "every vectorised operator and per-value accessor/unary method of the eight list-capable classes is compared element by element with the same operation on single-valued operands; mismatching lengths must raise ValueError.",
            "the single-valued operation is the reference (its own correctness is decided by other properties)", "4/C09"),
    "C11": ("Hypothesis-generated pose pairs with relative rotation 1e-12..pi-1e-6 and s values concentrated at the ends; geometric oracle (fixed axis, angle proportional to s, linear translation) from reference axis-angle",
            EXPL + "trinterp, trinterp2, slerp, pose.interp and UnitQuaternion.interp are judged on endpoints, validity, linear translation, constant-rate rotation about the fixed axis along the arc taken, range errors, vector s and mutual agreement.",
            "reference axis_angle / Rodrigues in pbt/refs.py; antipodal pairs on the long arc excluded as the statement says (matrix routes: classified with the library's own r2q)", "4/C11"),
    "C01": ("Hypothesis-generated (entry point, arguments) cases over a table of constructor entry points (54 at the time of writing) + expression trees over library-built objects; validity-predicate oracle",
            EXPL + "every public constructor of rotations, rigid motions and unit quaternions (base functions and classes) is called with angles biased to the special values (incl. many turns and 1e-12 neighbourhoods), axis lengths 1e-3..1e6, translations to 1e6, both units, every order, scalar and vector forms, and every element of every result (and of every node of random expression trees with *, /, inv, **, prod, interp, norm) is checked for orthonormality, determinant, last row and unit norm to 1e-9.",
            "validity predicates in pbt/refs.py (NumPy); random constructors are seeded from the case", "4/C01"),
    "C04": ("Hypothesis-generated motions near the quaternion-extraction branch points; round-trip, homomorphism and cross-class constructor agreement oracles evaluated through reference q2r / exp",
            EXPL + "SO3, SE3, UnitQuaternion, Twist3 and UnitDualQuaternion (and the planar classes) are converted into each other and back, multiplied and inverted in each representation and compared as matrices to 1e-6, incl. q == -q, shared named constructors with all options, the three embeddings and random expression trees per representation.",
            "reference q2r/expm in pbt/refs.py", "4/C04"),
    "C19": ("Hypothesis-generated lines, planes, rigid motions and line pairs in general / parallel / intersecting / coincident position; elementary-geometry oracle from the defining data",
            EXPL + "lines built by PQ, PointDir and Planes are judged on incidence, Pluecker constraint, principal point, projection, point(lambda), rigid transformation, equality, parallelism, common perpendicular, distance, plane intersection with its parameter, and plane membership, with residuals <= 1e-9 x data magnitude.",
            "reference point-line geometry in the check; predicates with a tol argument receive a data-scaled tolerance; the ^ predicate is outside the statement", "4/C19"),
    "C15": ("exhaustive enumeration over a spec table of about 130 callables x container forms x numeric scalar types x int/float x lengths 0..8 x unit / order names + Hypothesis-drawn values; oracle: identity with the 1-D array form, must-raise for wrong lengths / unknown options, deg = rad*pi/180",
            EXPL + "every exported base function and class constructor/method with a vector, angle, unit or order argument (table checked for completeness against spatialmath.base.__all__ at start-up) is called in all five container forms (three for classes), with every wrong length 0..8, both units, all order names, aliases and misspellings, and scalar-vs-packed call forms.",
            "the spec table and its exclusion list (pbt/props/c15_forms.py, counted in evidence); outputs compared by value and shape", "4/C15"),
    "C16": ("enumeration of every API entry marked 'SymPy: supported' (by reflection) x symbolic/numeric argument masks x substitution points + Hypothesis-drawn points; differential oracle: symbolic output evaluated at the point vs the numeric call",
            EXPL + "the entry table is checked at start-up against the docstring markers; each entry is called with all-symbolic and mixed arguments and every output entry is evaluated with SymPy at random and special points and compared with the numeric call to 1e-12; structural 0/1 entries must stay exact; pose operators on symbolic values are included.",
            "SymPy evalf; one recorded finding (F-C16-1, SE3.Delta symbolic vs normalised numeric) is excluded by site", "4/C16"),
    "C17": ("model-free stateful generation (Hypothesis RuleBasedStateMachine with one rule per library callable, and op-list histories): operation histories over a pool of values into which every result is fed back, with byte-level snapshots of every pool member before/after each call; exhaustive single operations and ordered pairs; C15 table and reflected zero-argument members",
            EXPL + "about 400 operations (base functions, constructors, operators incl. augmented ones, accessors, conversions, string conversion / printing, documented list mutators) are run singly, in every ordered pair and in random histories with results flowing into later calls; any change of an argument, operand or bystander other than the receiver of a list mutator, and any difference between two calls on equal inputs, is a violation.",
            "byte-level snapshot (tobytes/shape/dtype) of arrays, containers and object data; views are allowed; plot/animate/printline excluded", "4/C17"),
})

NOT_YET = {}


def main():
    props = [json.loads(l) for l in open(os.path.join(HERE, "properties.jsonl"))]
    checks = []
    na = []
    for p in props:
        pid = p["id"]
        if pid in CLAIMED:
            tech, text, note, ref = CLAIMED[pid]
            checks.append({
                "property_id": pid,
                "quick_cmd": "./check %s --tier quick" % pid,
                "thorough_cmd": "./check %s --tier thorough" % pid,
                "evidence_file": "evidence/%s.json" % pid,
                "replay_cmd_template": "./check %s --replay {path}" % pid,
                "engine": "pbt",
                "level_claimed": {"category": "exploration", "text": text, "design_ref": "DESIGN.md section " + ref},
                "level_note": note,
                "technique": tech,
            })
        else:
            na.append({"property_id": pid, "reason": NOT_YET.get(pid, "check not built yet in this revision of /verif (planned in DESIGN.md section 4); not claimed until it runs green on the unchanged tree")})
    man = {
        "version": 1,
        "setup_cmd": "./tools/setup.sh",
        "hooks": {
            "guard": "SPATIALMATH_VERIF",
            "enable": "no source hooks are needed: every property is observable through the public API; checks import /repo's working tree directly (VERIF_REPO selects another tree for mutation runs)",
            "baseline_off_cmd": "cd /repo && /venv/bin/python -m pytest -ra -q -p no:cacheprovider --timeout=900 --continue-on-collection-errors",
            "source_commits": [],
            "add_only": True,
        },
        "engines": [{"name": "pbt", "path": "pbt/", "serves_properties": sorted(CLAIMED),
                     "kind_free_text": "Hypothesis strategies + exhaustive enumerators + (thorough) atheris targets driving one JSON-case oracle per property; multiprocessing shards; replay and known-findings attribution"}],
        "checks": checks,
        "notes": "All checks: exit 0 held / 1 VIOLATION lines / 2 harness error. Seeds via VERIF_SEED. Known findings in known_findings.json.",
        "not_applicable": na,
    }
    with open(os.path.join(HERE, "MANIFEST.json"), "w") as f:
        json.dump(man, f, indent=1)
    print("claimed", len(checks), "not claimed", len(na))


if __name__ == "__main__":
    main()
