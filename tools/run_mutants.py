#!/venv/bin/python
"""
Run the whole mutant catalogue: for every mutants/*.json
  1. copy /repo, apply, run the quick subset of the repository's own tests (a mutant that
     fails them is 'DETECTED-BY-TESTS' and not counted against the checks),
  2. run each expected-killer check (quick tier, one seed) against the copy,
  3. append a line to mutants/RESULTS.tsv.
Usage: tools/run_mutants.py [name-substring ...]   (runs up to 4 mutants in parallel)
"""
import glob
import json
import os
import shutil
import subprocess
import sys
import tempfile
from concurrent.futures import ThreadPoolExecutor

VERIF = os.path.dirname(os.path.dirname(os.path.abspath(__file__)))
TESTS = ["-q", "-p", "no:cacheprovider", "tests", "-x", "-k", "not plot and not animate and not graphics and not symbolic"]


def run_one(path, seed="1", extra_props=None):
    spec = json.load(open(path))
    name = spec["name"]
    scratch = tempfile.mkdtemp(prefix="smmut_")
    tree = os.path.join(scratch, "repo")
    res = {"name": name, "tests": "?", "checks": {}}
    try:
        shutil.copytree("/repo", tree, ignore=shutil.ignore_patterns(".git", "__pycache__", "*.pyc", "docs", ".pytest_cache"))
        for ed in spec["edits"]:
            fn = os.path.join(tree, ed["file"])
            src = open(fn).read()
            if src.count(ed["old"]) != 1:
                res["tests"] = "PATCH-FAILED"
                return res
            open(fn, "w").write(src.replace(ed["old"], ed["new"]))
        env = dict(os.environ, PYTHONDONTWRITEBYTECODE="1", MPLBACKEND="Agg")
        r = subprocess.run(["/venv/bin/python", "-W", "ignore", "-m", "pytest"] + TESTS, cwd=tree, env=env, capture_output=True, text=True)
        res["tests"] = "pass" if r.returncode == 0 else "FAIL"
        for pid in (extra_props or spec["expected_killers"]):
            env2 = dict(os.environ, VERIF_REPO=tree, VERIF_OUT=os.path.join(scratch, "out"), VERIF_SEED=seed, VERIF_PROCS="4")
            r = subprocess.run([os.path.join(VERIF, "check"), pid, "--tier", "quick"], env=env2, capture_output=True, text=True)
            sites = sorted({l.split("site=")[1].split(" features")[0] for l in r.stdout.splitlines() if l.strip().startswith("site=")})
            res["checks"][pid] = ("KILLED" if r.returncode == 1 else "HARNESS-ERROR" if r.returncode == 2 else "SURVIVED", sites[:4])
    finally:
        shutil.rmtree(scratch, ignore_errors=True)
    return res


def main():
    pats = sys.argv[1:]
    files = sorted(glob.glob(os.path.join(VERIF, "mutants", "*.json")))
    if pats:
        files = [f for f in files if any(p in os.path.basename(f) for p in pats)]
    out = os.path.join(VERIF, "mutants", "RESULTS.tsv")
    with ThreadPoolExecutor(4) as ex:
        for res in ex.map(run_one, files):
            line = "%s\ttests=%s\t%s" % (res["name"], res["tests"], "\t".join("%s=%s%s" % (k, v[0], v[1]) for k, v in res["checks"].items()))
            print(line, flush=True)
            with open(out, "a") as f:
                f.write(line + "\n")


if __name__ == "__main__":
    main()
